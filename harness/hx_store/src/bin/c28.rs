//! C28 — vacuum preserves the database.
//! Per case: generated history -> close -> copy to A and B -> dump(open A) ; vacuum(B) ; dump(open B)
//! must be equal; then the same write transaction + compaction on both, reopen, dumps equal again.
//! The page graph of the file before vacuum (re-parsed here) and the set of pages the vacuumed
//! file keeps are written as Coq cases for Store/Vacuum.v (`mark`, `vacuum_copy_ok`, `closedb`).
use hx_store::*;
use nervusdb::Db;
use serde_json::json;
use std::collections::BTreeMap;
use std::path::Path;
use vh::*;

fn coq_praw(pf: &PageFile, id: u64) -> String {
    let p = pf.page(id);
    let bt = match parse_bt(p) {
        None => "None".to_string(),
        Some(BtNode::Leaf { right, payloads }) => format!("(Some (BtLeaf {} {}))", coq_n(right as u128), coq_list(&payloads, |x| coq_n(*x as u128))),
        Some(BtNode::Internal { right, leftmost, children }) => format!(
            "(Some (BtInternal {} {} {}))", coq_n(right as u128), coq_n(leftmost as u128), coq_list(&children, |x| coq_n(*x as u128))),
    };
    let csr_len = if &p[0..6] == b"NDBCSR" {
        let total: u64 = (0..4).map(|i| u32le(p, 64 + 4 * i)).sum::<u64>() + (0..2).map(|i| u32le(p, 40 + 4 * i)).sum::<u64>();
        (80 + 8 * total.min(1100) as usize).min(PAGE_SIZE)
    } else { 8 };
    format!("({}, {{| p_bt := {}; p_blob_next := {}; p_blob_len := {}; p_csr := {} |}})",
        coq_n(id as u128), bt, coq_n(u64le(p, 0) as u128), coq_n(u16le(p, 8) as u128), coq_bytes(&p[..csr_len]))
}

/// what the harness hands to the Coq model: roots + page graph of a closed database
fn coq_case(dir: &Path, need_cert: bool, impl_ok: bool, marked: &[u64]) -> (String, usize) {
    let pf = PageFile::read(&ndb_path(dir));
    let roots = wal_roots(&wal_path(dir));
    let meta = &pf.page(0)[..92];
    let cat_root = u64le(meta, 72);
    let cat = if cat_root >= 2 && cat_root < pf.n_pages() && pf.bit(cat_root) {
        parse_catalog(pf.page(cat_root))
    } else { None };
    let cat_s = match &cat {
        None => "None".to_string(),
        Some(es) => format!("(Some {})", coq_list(es, |(name, _, root)| format!("({}, {})", coq_bool(name == "__sys_hnsw_vec" || name == "__sys_hnsw_graph"), coq_n(*root as u128)))),
    };
    let ids: Vec<u64> = pf.allocated().into_iter().filter(|i| *i >= 2 && *i < pf.n_pages()).collect();
    // pages whose bit is set beyond the end of the file cannot be read: leave them out (reading them fails in both)
    let pages = coq_list(&ids, |i| coq_praw(&pf, *i));
    (format!(
        "{{| meta_bytes := {}; cat_entries := {}; wal_props := {}; wal_stats := {}; wal_segs := {}; pages := {}; need_cert := {}; impl_ok := {}; impl_marked := {} |}}",
        coq_bytes(meta), cat_s, coq_n(roots.properties_root as u128), coq_n(roots.stats_root as u128),
        coq_list(&roots.segments, |x| coq_n(*x as u128)), pages, coq_bool(need_cert), coq_bool(impl_ok), coq_list(marked, |x| coq_n(*x as u128))), ids.len())
}

fn follow_up_tx(n: u32) -> Tx {
    Tx {
        creates: vec![(900_000 + n as u64, 1), (900_001 + n as u64, 2)],
        edges: vec![(0, 1, n), (n + 1, 0, 0)],
        node_props: vec![(n, 0, nervusdb::PropertyValue::Int(3)), (0, 1, nervusdb::PropertyValue::String("after".into()))],
        edge_props: vec![(0, 1, n, 2, nervusdb::PropertyValue::Int(7))],
        tomb_edges: vec![], tomb_nodes: vec![],
        vectors: vec![(n, vec![0.5, 0.5, -1.0, 2.0])],
    }
}

struct Outcome {
    hnsw_internal: bool,
    fail: Option<(Option<&'static str>, String)>,
    vacuum_ok: bool,
    marked: Vec<u64>,
}

fn check_one(work: &Path, ops: &[Op], malform: Option<u64>, r: &mut Rng) -> Result<(Outcome, String, usize), String> {
    let src = work.join("src");
    let a = work.join("a");
    let b = work.join("b");
    std::fs::create_dir_all(&src).unwrap();
    let final_close = r.chance(3, 4);
    guarded(|| -> Result<(), String> {
        let db = run_history(&src, ops, |_, _| {})?;
        if final_close { db.close().map_err(|e| format!("close: {e}"))?; } else { drop(db); }
        Ok(())
    })
    .map_err(|p| format!("panic in history: {p}"))??;
    if let Some(kind) = malform {
        malform_file(&src, kind, r);
    }
    copy_db(&src, &a);
    copy_db(&src, &b);
    // the model's input: the file as vacuum sees it
    let vac = guarded(|| nervusdb::vacuum(base_path(&b)).map_err(|e| e.to_string())).unwrap_or_else(|p| Err(format!("panic: {p}")));
    let vacuum_ok = vac.is_ok();
    let marked: Vec<u64> = if vacuum_ok { PageFile::read(&ndb_path(&b)).allocated().into_iter().filter(|i| *i >= 2).collect() } else { vec![] };
    let (case, npages) = coq_case(&src, malform.is_none(), vacuum_ok, &marked);
    // has an HNSW tree grown past its first page (root split -> the catalog must hold the new root)?
    let hnsw_internal = {
        let pf = PageFile::read(&ndb_path(&src));
        let cat_root = u64le(pf.page(0), 72);
        if cat_root >= 2 && cat_root < pf.n_pages() {
            parse_catalog(pf.page(cat_root)).unwrap_or_default().iter().any(|(name, _, root)| name.starts_with("__sys_hnsw") && *root >= 2 && *root < pf.n_pages()
                && matches!(parse_bt(pf.page(*root)), Some(BtNode::Internal { .. })))
        } else { false }
    };
    let mut out = Outcome { hnsw_internal, fail: None, vacuum_ok, marked };
    if malform.is_some() {
        return Ok((out, case, npages));
    }
    if let Err(e) = &vac {
        out.fail = Some((None, format!("vacuum failed on a closed database: {e}")));
        return Ok((out, case, npages));
    }
    let d0 = guarded(|| Db::open(base_path(&a)).map(|db| { let d = dump(&db); (db, d) }).map_err(|e| e.to_string()));
    let d1 = guarded(|| Db::open(base_path(&b)).map(|db| { let d = dump(&db); (db, d) }).map_err(|e| e.to_string()));
    match (d0, d1) {
        (Ok(Ok((dba, da))), Ok(Ok((dbb, db_)))) => {
            if let Some(d) = first_diff(&da, &db_) {
                out.fail = Some((None, format!("dump after vacuum differs from dump before: {d}")));
                return Ok((out, case, npages));
            }
            // usable afterwards: same write on both, compaction, reopen, dump
            let n = da.iter().filter(|l| l.starts_with("N ")).count() as u32;
            let total_nodes = {
                // number of internal ids (tombstoned nodes are not listed): take from the idmap length in the file
                let pf = PageFile::read(&ndb_path(&a));
                u64le(pf.page(0), 56) as u32
            };
            let _ = n;
            let tx = follow_up_tx(total_nodes);
            let step = |db: Db, dir: &Path| -> Result<Vec<String>, String> {
                apply_tx(&db, &tx)?;
                let d_live = dump(&db);
                db.compact().map_err(|e| format!("compact: {e}"))?;
                db.close().map_err(|e| format!("close: {e}"))?;
                let db = Db::open(base_path(dir)).map_err(|e| format!("reopen: {e}"))?;
                let mut d = dump(&db);
                d.extend(d_live.into_iter().map(|l| format!("live:{l}")));
                Ok(d)
            };
            let ra = guarded(|| step(dba, &a)).unwrap_or_else(|p| Err(format!("panic: {p}")));
            let rb = guarded(|| step(dbb, &b)).unwrap_or_else(|p| Err(format!("panic: {p}")));
            match (ra, rb) {
                (Ok(x), Ok(y)) => {
                    if let Some(d) = first_diff(&x, &y) {
                        out.fail = Some((None, format!("after vacuum, write+compact+reopen gives a different database than without vacuum: {d}")));
                    }
                }
                (Err(_), Err(_)) => {} // the same write fails on the un-vacuumed copy too: not vacuum's doing
                (Ok(_), Err(e)) => out.fail = Some((None, format!("database not usable after vacuum: {e}"))),
                (Err(e), Ok(_)) => out.fail = Some((None, format!("write fails only on the un-vacuumed copy: {e}"))),
            }
        }
        (Ok(Err(_)), Ok(Err(_))) => {} // does not open before or after (other properties' business)
        (x, y) => {
            let s = |r: &Result<Result<(Db, Vec<String>), String>, String>| match r { Ok(Ok(_)) => "opens".to_string(), Ok(Err(e)) => format!("open error {e}"), Err(p) => format!("panic {p}") };
            out.fail = Some((None, format!("before vacuum: {}; after vacuum: {}", s(&x), s(&y))));
        }
    }
    Ok((out, case, npages))
}

/// corrupt the closed source database in one of a few ways (error paths of the marking)
fn malform_file(dir: &Path, kind: u64, r: &mut Rng) {
    let path = ndb_path(dir);
    let mut bytes = std::fs::read(&path).unwrap();
    let n = bytes.len() / PAGE_SIZE;
    if n < 3 { return; }
    let pick = 2 + r.below((n - 2) as u64) as usize;
    let o = pick * PAGE_SIZE;
    match kind % 5 {
        0 => { bytes[o..o + 8].copy_from_slice(&(pick as u64).to_le_bytes()); }            // self-cycle if it is a blob page; garbage otherwise
        1 => { bytes[o] ^= 0xFF; }                                                          // break a magic
        2 => { let bi = PAGE_SIZE + pick / 8; bytes[bi] &= !(1u8 << (pick % 8)); }          // free a page in the bitmap
        3 => { bytes[o + 8..o + 10].copy_from_slice(&0xFFFFu16.to_le_bytes()); }            // blob length too large / btree content begin
        _ => { bytes[o + 16..o + 24].copy_from_slice(&((n as u64) + 5).to_le_bytes()); }    // sibling pointer past the end
    }
    std::fs::write(&path, bytes).unwrap();
}

fn main() {
    let a = args();
    quiet_panics();
    let mut r = Rng::new(a.seed);
    let mut cw = CaseWriter::new(&a.out, "Corr.C28", 12);
    let mut rep = Report::new(&a.out);
    let mut hist = BTreeMap::<String, u64>::new();
    let mut distinct = std::collections::BTreeSet::<Vec<u64>>::new();
    let mut fails = 0u64;
    let tmp = scratch();

    // corpus first: the witnesses of the repaired defect (compacted database; reverse arrays)
    let corpus: Vec<Vec<Op>> = vec![
        vec![
            Op::Tx(Tx { creates: vec![(10, 0), (20, 0), (30, 1)], edges: vec![(0, 0, 1), (2, 0, 1)], node_props: vec![], edge_props: vec![], tomb_edges: vec![], tomb_nodes: vec![], vectors: vec![] }),
            Op::Compact,
        ],
        vec![
            Op::Tx(Tx { creates: (0..700).map(|i| (100 + i, 0)).collect(), edges: (0..699).map(|i| (i, 0, i + 1)).collect(), node_props: vec![(0, 0, nervusdb::PropertyValue::Int(1))], edge_props: vec![], tomb_edges: vec![], tomb_nodes: vec![], vectors: vec![] }),
            Op::Compact,
            Op::Tx(Tx { creates: vec![], edges: (0..600).map(|i| (i + 1, 1, i)).collect(), node_props: vec![], edge_props: vec![], tomb_edges: vec![], tomb_nodes: vec![], vectors: vec![(1, vec![1.0, 2.0, 3.0, 4.0])] }),
            Op::Compact,
        ],
        // many vectors: the HNSW trees split their roots; vacuum has to keep the trees under the roots the catalog names now
        {
            let mut v = vec![Op::Tx(Tx { creates: (0..300).map(|i| (100 + i, 0)).collect(), edges: vec![(0, 0, 1)], node_props: vec![], edge_props: vec![], tomb_edges: vec![], tomb_nodes: vec![], vectors: vec![] })];
            for b in 0..5u32 {
                v.push(Op::Tx(Tx { creates: vec![], edges: vec![], node_props: vec![], edge_props: vec![], tomb_edges: vec![], tomb_nodes: vec![],
                    vectors: (0..60u32).map(|i| (b * 60 + i, vec![(i % 7) as f32, (i % 5) as f32 - 2.0, b as f32, (i as f32) * 0.25])).collect() }));
                if b == 2 { v.push(Op::Compact); v.push(Op::Reopen { close: true }); }
            }
            v
        },
    ];
    let total = a.n;
    for idx in 0..total {
        let (ops, malform) = if idx < corpus.len() {
            (corpus[idx].clone(), None)
        } else {
            let style = r.below(10);
            let cfg = GenCfg {
                ops: 4 + r.below(22) as usize,
                big_nodes: if style == 0 { 150 + r.below(250) as usize } else { 0 }, // node table stays within its first page (growth past it is C18)
                deletes: r.chance(1, 2),
                vectors: r.chance(1, 2),
                indexes: r.chance(2, 3),
                compactions: r.chance(4, 5),
                big_values: r.chance(1, 3),
            };
            let m = if r.chance(1, 6) { Some(r.below(5)) } else { None };
            (gen_history(&mut r, cfg), m)
        };
        for o in &ops { *hist.entry(format!("op:{}", op_kind(o))).or_insert(0) += 1; }
        let work = tmp.path().join(format!("c{idx}"));
        let input = json!({"history": history_json(&ops), "malform": malform});
        match check_one(&work, &ops, malform, &mut r) {
            Err(e) => {
                // the history itself does not run (another property's defect, e.g. K-C18-spill): not a C28 case
                *hist.entry("skipped:history-error".into()).or_insert(0) += 1;
                *hist.entry(format!("skipped:{}", e.chars().filter(|c| !c.is_ascii_digit()).take(60).collect::<String>())).or_insert(0) += 1;
                if idx < 2 { rep.case(idx, json!({"skipped": e})); }
            }
            Ok((out, case, npages)) => {
                *hist.entry(format!("vacuum:{}", if out.vacuum_ok { "ok" } else { "err" })).or_insert(0) += 1;
                if malform.is_some() { *hist.entry("malformed".into()).or_insert(0) += 1; }
                if out.hnsw_internal { *hist.entry("hnsw-root-internal".into()).or_insert(0) += 1; }
                *hist.entry(format!("pages:{}", match npages { 0..=9 => "<10", 10..=29 => "10-29", 30..=99 => "30-99", _ => ">=100" })).or_insert(0) += 1;
                let has_seg = ops.iter().any(|o| matches!(o, Op::Compact));
                if out.vacuum_ok && has_seg && malform.is_none() { distinct.insert(out.marked.clone()); }
                cw.push(case);
                if idx < 4 { rep.case(idx, json!({"input": input, "vacuum_ok": out.vacuum_ok, "kept_pages": out.marked.len(), "pages_before": npages})); }
                if let Some((class, what)) = out.fail {
                    fails += 1;
                    rep.fail(idx, class, &what, input);
                }
            }
        }
        let _ = std::fs::remove_dir_all(&work);
    }
    cw.flush();
    rep.stats(json!({
        "evaluations": total,
        "corr_cases": cw.total,
        "distinct_nontrivial": distinct.len(),
        "rule": "histories of 4-25 ops (transactions with nodes/edges/properties/deletes/vectors, compactions, index creation, close/drop+reopen), 1/6 with a corrupted page file (error paths only); non-trivial = vacuum succeeded on a database with at least one compaction, distinct by the set of pages kept",
        "histogram": hist,
        "direct_failures": fails,
        "case_files": cw.files.iter().map(|p| p.to_string_lossy().to_string()).collect::<Vec<_>>(),
    }));
    rep.finish();
}
