//! C18 — growing one structure never corrupts another.
//! Part A: random allocate/free/create-node sequences on the real `Pager` + `IdMap` -> CPager cases
//!         (returned page ids, final bitmap and next_page_id) for the model Store/Pager.v + IdMap.v.
//! Part B: database histories through `nervusdb::Db` (thousands of nodes interleaved with compactions,
//!         index creation/maintenance, vector insertions, reopen) with the pager's I/O events recorded
//!         (verif_io, tag = calling structure): page-ownership monitor (mirrored here, evaluated by the
//!         proved-sound Coq monitor on the same trace), no error/panic, reopen dump = live dump.
use hx_store::*;
use nervusdb_storage::idmap::IdMap;
use nervusdb_storage::pager::{PageId, Pager};
use nervusdb_storage::verif_io::{self, IoEvent, IoKind};
use serde_json::json;
use std::collections::{BTreeMap, HashMap};
use vh::*;

const BUILD_HAS_HOOK: bool = cfg!(nervusdb_verif);

#[derive(Clone, Copy, Debug, PartialEq, Eq)]
enum Tag { Idmap, Btree, Blob, Csr, Catalog, Other }
fn tag_of(file: &str) -> Tag {
    if file.ends_with("idmap.rs") { Tag::Idmap }
    else if file.ends_with("btree.rs") { Tag::Btree }
    else if file.ends_with("blob_store.rs") { Tag::Blob }
    else if file.ends_with("csr.rs") { Tag::Csr }
    else if file.ends_with("catalog.rs") { Tag::Catalog }
    else { Tag::Other }
}
fn coq_tag(t: Tag) -> &'static str {
    match t { Tag::Idmap => "TIdmap", Tag::Btree => "TBtree", Tag::Blob => "TBlob", Tag::Csr => "TCsr", Tag::Catalog => "TCatalog", Tag::Other => "TOther" }
}
#[derive(Clone, Copy, Debug)]
enum Wev { Alloc(Tag, u64), Free(Tag, u64), Write(Tag, u64) }
fn coq_wev(e: &Wev) -> String {
    match e {
        Wev::Alloc(t, p) => format!("WAlloc {} {}", coq_tag(*t), coq_n(*p as u128)),
        Wev::Free(t, p) => format!("WFree {} {}", coq_tag(*t), coq_n(*p as u128)),
        Wev::Write(t, p) => format!("WWrite {} {}", coq_tag(*t), coq_n(*p as u128)),
    }
}

/// turns raw I/O events of the page file into tagged page events (bitmap diffs + data page writes)
struct Tracer { bitmap: Vec<u8>, out: Vec<Wev> }
impl Tracer {
    fn new() -> Self {
        let mut bitmap = vec![0u8; PAGE_SIZE];
        bitmap[0] = 0b11;
        Tracer { bitmap, out: vec![] }
    }
    fn feed(&mut self, evs: &[IoEvent]) {
        for e in evs {
            if e.kind != IoKind::Write || !e.path.ends_with(".ndb") || e.failed { continue; }
            let t = tag_of(e.tag);
            if e.offset == PAGE_SIZE as u64 && e.data.len() == PAGE_SIZE {
                for (i, (&new, &old)) in e.data.iter().zip(self.bitmap.iter()).enumerate() {
                    if new != old {
                        for b in 0..8 {
                            let (n, o) = (new >> b & 1, old >> b & 1);
                            if n == 1 && o == 0 { self.out.push(Wev::Alloc(t, (i * 8 + b) as u64)); }
                            if n == 0 && o == 1 { self.out.push(Wev::Free(t, (i * 8 + b) as u64)); }
                        }
                    }
                }
                self.bitmap.copy_from_slice(&e.data);
            } else if e.offset >= 2 * PAGE_SIZE as u64 {
                self.out.push(Wev::Write(t, e.offset / PAGE_SIZE as u64));
            }
        }
    }
}

/// mirror of Store/IdMap.v `monitor`: (number of spills, index of the first other violation)
fn monitor(start: u64, tr: &[Wev]) -> (u64, Option<u64>) {
    let mut owner: HashMap<u64, Tag> = HashMap::new();
    let mut spills = 0;
    for (i, e) in tr.iter().enumerate() {
        let ok = match e {
            Wev::Alloc(_, p) => !owner.contains_key(p),
            Wev::Free(t, p) | Wev::Write(t, p) => owner.get(p) == Some(t),
        };
        if ok {
            match e {
                Wev::Alloc(t, p) => { owner.insert(*p, *t); }
                Wev::Free(_, p) => { owner.remove(p); }
                Wev::Write(..) => {}
            }
        } else {
            let spill = matches!(e, Wev::Write(Tag::Idmap, p) if *p > start && owner.get(p).map_or(false, |t| *t != Tag::Idmap));
            if spill { spills += 1; } else { return (spills, Some(i as u64)); }
        }
    }
    (spills, None)
}

// ---------------------------------------------------------------- part A

fn part_a(r: &mut Rng, cw: &mut CaseWriter, rep: &mut Report, hist: &mut BTreeMap<String, u64>, idx: usize, corpus: Option<Vec<u8>>) -> bool {
    let dir = scratch();
    let path = dir.path().join("p.ndb");
    let mut pager = Pager::open(&path).unwrap();
    let mut idmap = IdMap::load(&mut pager).unwrap();
    // op codes: 0 alloc, 1 free(p), 2 node
    let mut ops: Vec<(u8, u64)> = Vec::new();
    match corpus {
        Some(c) => for o in c { ops.push((o, 0)); },
        None => {
            let n = 5 + r.below(60);
            for _ in 0..n {
                match r.below(100) {
                    0..=39 => ops.push((0, 0)),
                    40..=59 => ops.push((1, r.below(14))),
                    60..=89 => ops.push((2, 0)),
                    _ => { for _ in 0..(200 + r.below(420)) { ops.push((2, 0)); } } // a burst that crosses a page of node records
                }
            }
        }
    }
    let mut evs: Vec<String> = Vec::new();
    let mut next_ext = 1u64;
    let mut direct_fail = None;
    let mut handed: HashMap<u64, bool> = HashMap::new(); // page -> currently allocated (as far as the calls tell)
    for (k, (op, arg)) in ops.iter().enumerate() {
        match op {
            0 => match pager.allocate_page() {
                Ok(p) => {
                    let p = p.as_u64();
                    if p < 2 || handed.get(&p) == Some(&true) {
                        direct_fail = Some(format!("op {k}: allocate_page returned page {p} which is reserved or still allocated"));
                    }
                    handed.insert(p, true);
                    evs.push(format!("PvAlloc {}", coq_n(p as u128)));
                }
                Err(_) => evs.push("PvErr".into()),
            },
            1 => match pager.free_page(PageId::new(*arg)) {
                Ok(()) => { handed.insert(*arg, false); evs.push(format!("PvFree {}", coq_n(*arg as u128))); }
                Err(_) => evs.push("PvErr".into()),
            },
            _ => {
                let iid = idmap.next_internal_id();
                verif_io::start(None);
                let res = idmap.apply_create_node(&mut pager, next_ext, 1, iid);
                let io = verif_io::stop();
                next_ext += 1;
                match res {
                    Ok(()) => {
                        // the page the record went to: the data-page write issued from idmap.rs
                        let page = io.iter().rev().find(|e| e.kind == IoKind::Write && e.offset >= 2 * PAGE_SIZE as u64 && tag_of(e.tag) == Tag::Idmap)
                            .map(|e| e.offset / PAGE_SIZE as u64);
                        match page {
                            Some(p) => { handed.insert(p, true); evs.push(format!("PvNode {}", coq_n(p as u128))) }
                            None => { evs.push("PvErr".into()); direct_fail = Some(format!("op {k}: no node-table page write observed (hook missing?)")); }
                        }
                    }
                    Err(_) => evs.push("PvErr".into()),
                }
            }
        }
    }
    drop(idmap);
    drop(pager);
    let pf = PageFile::read(&path);
    let next_page = u64le(pf.page(0), 40);
    let alloc = pf.allocated();
    let ops_s = coq_list(&ops, |(o, a)| match o { 0 => "PAlloc".into(), 1 => format!("PFree {}", coq_n(*a as u128)), _ => "PNode".into() });
    cw.push(format!("CPager {} [{}] {} {}", ops_s, evs.join("; "), coq_n(next_page as u128), coq_list(&alloc, |x| coq_n(*x as u128))));
    *hist.entry("A:cases".into()).or_insert(0) += 1;
    *hist.entry("A:ops".into()).or_insert(0) += ops.len() as u64;
    if ops.iter().filter(|o| o.0 == 2).count() > 512 { *hist.entry("A:crosses_node_page".into()).or_insert(0) += 1; }
    if let Some(w) = direct_fail {
        rep.fail(idx, None, &w, json!({"part": "A", "ops": ops.iter().map(|(o, a)| format!("{o}:{a}")).collect::<Vec<_>>()}));
        return false;
    }
    true
}

// ---------------------------------------------------------------- part B

struct BOut { spills: u64, other: Option<u64>, start: u64, trace_len: usize, nodes: u64 }

fn part_b(ops: &[Op], cw: &mut CaseWriter, rep: &mut Report, hist: &mut BTreeMap<String, u64>, idx: usize) -> BOut {
    let dir = scratch();
    let mut tracer = Tracer::new();
    verif_io::start(None);
    let drain = |tr: &mut Tracer| { let evs = verif_io::stop(); tr.feed(&evs); verif_io::start(None); };
    let mut err: Option<String> = None;
    let mut live: Option<Vec<String>> = None;
    let mut reopened: Option<Vec<String>> = None;
    let run = guarded(|| -> Result<(), String> {
        let db = {
            let tr = &mut tracer;
            run_history(dir.path(), ops, |_, _| drain(tr))?
        };
        live = Some(dump(&db));
        db.close().map_err(|e| format!("close: {e}"))?;
        drain(&mut tracer);
        let db = nervusdb::Db::open(base_path(dir.path())).map_err(|e| format!("final reopen: {e}"))?;
        reopened = Some(dump(&db));
        drop(db);
        Ok(())
    });
    match run {
        Ok(Ok(())) => {}
        Ok(Err(e)) => err = Some(e),
        Err(p) => err = Some(format!("panic: {p}")),
    }
    let evs = verif_io::stop();
    tracer.feed(&evs);
    let trace = tracer.out;
    let start = trace.iter().find_map(|e| match e { Wev::Alloc(Tag::Idmap, p) => Some(*p), _ => None }).unwrap_or(0);
    let (spills, other) = monitor(start, &trace);
    let nodes = ops.iter().map(|o| match o { Op::Tx(t) => t.creates.len() as u64, _ => 0 }).sum::<u64>();
    let input = json!({"part": "B", "history": history_json(ops), "nodes": nodes, "i2e_start": start});
    cw.push(format!("CTrace {} {} {} {}", coq_n(start as u128), coq_list(&trace, coq_wev), coq_n(spills as u128), coq_opt(&other, |x| coq_n(*x as u128))));
    *hist.entry("B:cases".into()).or_insert(0) += 1;
    *hist.entry(format!("B:nodes:{}", match nodes { 0..=511 => "<512", 512..=1023 => "512-1023", 1024..=2047 => "1024-2047", _ => ">=2048" })).or_insert(0) += 1;
    for o in ops { *hist.entry(format!("B:op:{}", op_kind(o))).or_insert(0) += 1; }
    // K-C18-spill: node count crossed a page boundary of the node table after another structure took the next page
    let known = if spills > 0 { Some("K-C18-spill") } else { None };
    if let Some(i) = other {
        rep.fail(idx, None, &format!("page-ownership violation at trace event {i}: {:?}", trace[i as usize]), input.clone());
    } else if spills > 0 {
        *hist.entry("B:spill".into()).or_insert(0) += 1;
        rep.fail(idx, known, &format!("{spills} node-record write(s) into a page owned by another structure (first node-table page {start})"), input.clone());
    }
    if let Some(e) = &err {
        *hist.entry(format!("B:error:{}", if spills > 0 { "after-spill" } else { "no-spill" })).or_insert(0) += 1;
        if spills == 0 && (e.contains("not allocated") || e.contains("out of range")) {
            // a page-level failure that no ownership violation explains
            rep.fail(idx, None, &format!("history fails with a page error without any ownership violation: {e}"), input.clone());
        }
    } else if let (Some(a), Some(b)) = (&live, &reopened) {
        // vector search results and statistics-based counts are other properties' business (C31, C04/C05)
        let keep = |l: &&String| !l.starts_with("VEC") && !l.starts_with("COUNT");
        let a: Vec<String> = a.iter().filter(keep).cloned().collect();
        let b: Vec<String> = b.iter().filter(keep).cloned().collect();
        if let Some(d) = first_diff(&a, &b) {
            *hist.entry(format!("B:reopen-diff:{}", if spills > 0 { "after-spill" } else { "no-spill" })).or_insert(0) += 1;
            if spills == 0 {
                rep.fail(idx, None, &format!("reopen dump differs from live dump without any ownership violation: {d}"), input.clone());
            }
        }
    }
    BOut { spills, other, start, trace_len: trace.len(), nodes }
}

fn big_history(r: &mut Rng, nodes: usize, interleave: bool) -> Vec<Op> {
    let cfg = GenCfg { ops: 6 + r.below(16) as usize, big_nodes: nodes, deletes: false, vectors: interleave && r.chance(2, 3), indexes: interleave && r.chance(2, 3), compactions: interleave, big_values: interleave && r.chance(1, 2) };
    gen_history(r, cfg)
}

fn main() {
    let a = args();
    quiet_panics();
    let mut r = Rng::new(a.seed);
    let mut cw = CaseWriter::new(&a.out, "Corr.C18", 25);
    let mut rep = Report::new(&a.out);
    let mut hist = BTreeMap::<String, u64>::new();
    if !BUILD_HAS_HOOK {
        rep.fail(0, None, "harness built without --cfg nervusdb_verif", json!({}));
    }
    let mut distinct = std::collections::BTreeSet::<(u64, usize, u64)>::new();
    let total_b = a.n;
    let total_a = a.n * 3;
    let mut idx = 0usize;
    // corpus first: the spill witness at pager level, then at database level (probe: compaction, then 600 nodes)
    let mut c = vec![2u8, 0u8];
    c.extend(std::iter::repeat(2u8).take(512));
    part_a(&mut r, &mut cw, &mut rep, &mut hist, idx, Some(c));
    idx += 1;
    for _ in 1..total_a {
        part_a(&mut r, &mut cw, &mut rep, &mut hist, idx, None);
        idx += 1;
    }
    let mk = |n: u64, base: u64| Tx { creates: (0..n).map(|i| (base + i, 0usize)).collect(), edges: vec![(0, 0, 1)], node_props: vec![(0, 0, nervusdb::PropertyValue::Int(1))], edge_props: vec![], tomb_edges: vec![], tomb_nodes: vec![], vectors: vec![] };
    let corpus_b: Vec<Vec<Op>> = vec![
        vec![Op::Tx(mk(3, 10)), Op::Compact, Op::Tx(mk(600, 1000))],
        vec![Op::Tx(mk(600, 10)), Op::Compact, Op::Tx(mk(600, 1000))], // table already owns two pages, third is taken by the segment
        vec![Op::Tx(mk(1300, 10)), Op::Compact, Op::CreateIndex(0, 0)], // growth with nothing in between: no spill
    ];
    for k in 0..total_b {
        let ops = if k < corpus_b.len() { corpus_b[k].clone() } else {
            let nodes = match r.below(4) { 0 => 100 + r.below(400), 1 => 500 + r.below(700), 2 => 1000 + r.below(1500), _ => 2000 + r.below(2500) } as usize;
            let inter = !r.chance(1, 5);
            big_history(&mut r, nodes, inter)
        };
        let o = part_b(&ops, &mut cw, &mut rep, &mut hist, idx);
        if o.nodes >= 512 { distinct.insert((o.nodes, o.trace_len, o.spills)); }
        if k < 3 { rep.case(idx, json!({"part": "B", "nodes": o.nodes, "trace_events": o.trace_len, "spills": o.spills, "other": o.other, "i2e_start": o.start})); }
        idx += 1;
    }
    cw.flush();
    rep.stats(json!({
        "evaluations": idx,
        "corr_cases": cw.total,
        "distinct_nontrivial": distinct.len(),
        "rule": "part A: 3n random allocate/free/create-node sequences on Pager+IdMap (10% bursts of 200-620 nodes); part B: n database histories with 100-4500 nodes spread over 2-5 transactions interleaved (80%) with compactions, index creation, indexed property writes, vectors, large values, reopen; non-trivial = part-B history with >= 512 nodes, distinct by (nodes, trace length, spills)",
        "histogram": hist,
        "case_files": cw.files.iter().map(|p| p.to_string_lossy().to_string()).collect::<Vec<_>>(),
    }));
    rep.finish();
}
