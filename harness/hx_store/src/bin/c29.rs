//! C29 — backups restore a consistent committed state.
//! Quiescent: history -> backup (source idle: open or closed) -> restore -> open -> dump = source dump.
//! Controlled interleaving: writer operations run at the schedule point between the page-file copy and the
//! log copy (verif_io::point "backup:between_copies"); the restored database must open and equal the source
//! at one of the moments in between.  Each case is also a Coq case for Store/Backup.v.
use hx_store::*;
use nervusdb::{BackupManager, Db, PropertyValue as PV};
use nervusdb_storage::verif_io;
use serde_json::json;
use std::collections::BTreeMap;
use std::sync::Mutex;
use vh::*;

#[derive(Clone, Debug, PartialEq)]
enum W { Commit, Compact, CloseReopen, Label }

struct Writer { next_tx: u64, nodes: u32, pending: u64 }
impl Writer {
    fn marker_tx(&mut self, r: &mut Rng) -> Tx {
        let t = self.next_tx;
        self.next_tx += 1;
        let n = self.nodes;
        let extra = r.below(3) as u32;
        let mut creates = vec![(5000 + t, (t % 3) as usize)];
        for k in 0..extra { creates.push((100_000 + t * 10 + k as u64, 1)); }
        let mut edges = vec![];
        if n > 0 { edges.push((n, 0usize, r.below(n as u64) as u32)); edges.push((r.below(n as u64) as u32, 1usize, n)); }
        self.nodes += 1 + extra;
        Tx { creates, edges: edges.clone(), node_props: vec![(n, 0, PV::Int(t as i64)), (n, 2, gen_value(r, t % 4 == 0))],
             edge_props: edges.first().map(|e| vec![(e.0, e.1, e.2, 1usize, PV::Int(1))]).unwrap_or_default(),
             tomb_edges: vec![], tomb_nodes: vec![], vectors: vec![] }
    }
}

struct Ctx { db: usize, path: std::path::PathBuf, ops: Vec<W>, txs: Vec<Tx>, states: Vec<Vec<String>>, err: Option<String>, labels: u64 }
static CTX: Mutex<Option<Ctx>> = Mutex::new(None);

fn filtered(d: Vec<String>) -> Vec<String> { d.into_iter().filter(|l| !l.starts_with("VEC") && !l.starts_with("COUNT")).collect() }

fn on_point(name: &str) {
    if name != "backup:between_copies" { return; }
    let mut g = CTX.lock().unwrap();
    let Some(ctx) = g.as_mut() else { return };
    let slot: &mut Option<Db> = unsafe { &mut *(ctx.db as *mut Option<Db>) };
    let mut ti = 0;
    for op in ctx.ops.clone() {
        let r = match op {
            W::Commit => { let r = apply_tx(slot.as_ref().unwrap(), &ctx.txs[ti]); ti += 1; r }
            W::Compact => slot.as_ref().unwrap().compact().map_err(|e| e.to_string()),
            W::Label => { ctx.labels += 1; new_label(slot.as_ref().unwrap(), ctx.labels) }
            W::CloseReopen => {
                // close() rewrites the log when nothing is pending; then the writer carries on with a new handle
                let db = slot.take().unwrap();
                match db.close() {
                    Err(e) => Err(e.to_string()),
                    Ok(()) => match Db::open(&ctx.path) { Ok(d) => { *slot = Some(d); Ok(()) } Err(e) => Err(e.to_string()) },
                }
            }
        };
        if let Err(e) = r { ctx.err = Some(e); return; }
        ctx.states.push(filtered(dump(slot.as_ref().unwrap())));
    }
}

fn new_label(db: &Db, n: u64) -> Result<(), String> {
    // get_or_create_label logs the label in its own transaction at call time, whatever happens to the write transaction
    let mut w = db.begin_write();
    w.get_or_create_label(&format!("L{n}")).map(|_| ()).map_err(|e| e.to_string())
}

fn visible_markers(d: &[String]) -> u64 {
    d.iter().filter(|l| l.starts_with("N ") && l.contains("ext=Some(5") && {
        let i = l.find("ext=Some(").unwrap() + 9; let e = l[i..].find(')').unwrap(); l[i..i + e].parse::<u64>().map_or(false, |x| (5000..100_000).contains(&x))
    }).count() as u64
}

fn coq_wops(ops: &[(W, bool)]) -> String {
    // (op, effective?) : a compaction with nothing pending does nothing (compact() returns early)
    let v: Vec<String> = ops.iter().filter_map(|(o, eff)| match o {
        W::Commit => Some("WCommit".to_string()), W::Compact if *eff => Some("WCompact 0".to_string()),
        W::Label => Some("WLabel".to_string()), W::CloseReopen => Some("WClose".to_string()), _ => None }).collect();
    format!("[{}]", v.join("; "))
}

fn main() {
    let a = args();
    quiet_panics();
    let mut r = Rng::new(a.seed);
    let mut cw = CaseWriter::new(&a.out, "Corr.C29", 200);
    let mut rep = Report::new(&a.out);
    let mut hist = BTreeMap::<String, u64>::new();
    let mut distinct = std::collections::BTreeSet::<String>::new();
    verif_io::set_point_handler(Some(on_point));
    let tmp = scratch();
    // corpus first: the witness of K-C29-concurrent, then commit-only interleaving, then quiescent after compaction
    let corpus: Vec<(Vec<W>, Vec<W>, bool)> = vec![
        (vec![W::Commit, W::Compact], vec![W::Commit, W::Compact], true),
        (vec![W::Commit, W::Compact], vec![W::Commit, W::Commit], true),
        (vec![W::Commit, W::Commit, W::Compact, W::Commit], vec![], true),
        (vec![W::Commit], vec![W::Compact], true),
        (vec![W::Commit, W::Label, W::Compact], vec![W::CloseReopen], true),                 // log rewritten between the copies: harmless
        (vec![W::Commit, W::Compact], vec![W::Label, W::Commit, W::Label], true),             // labels + commits between: harmless
        (vec![W::Commit, W::Compact], vec![W::Commit, W::Compact, W::CloseReopen], true),     // compaction + rewrite between: known class
    ];
    for idx in 0..a.n {
        let (before, between, keep_open) = if idx < corpus.len() { corpus[idx].clone() } else {
            let nb = 1 + r.below(9);
            let mut before = vec![W::Commit];
            for _ in 0..nb { before.push(match r.below(12) { 0..=5 => W::Commit, 6..=8 => W::Compact, 9 => W::CloseReopen, _ => W::Label }); }
            let between: Vec<W> = match r.below(4) {
                0 | 1 => vec![],                                                      // quiescent
                2 => (0..1 + r.below(4)).map(|_| match r.below(6) { 0..=2 => W::Commit, 3 | 4 => W::Label, _ => W::CloseReopen }).collect(), // no compaction
                _ => (0..1 + r.below(4)).map(|_| match r.below(8) { 0..=2 => W::Commit, 3..=5 => W::Compact, 6 => W::Label, _ => W::CloseReopen }).collect(),
            };
            let keep_open = !between.is_empty() || r.chance(1, 2);
            (before, between, keep_open)
        };
        let dir = tmp.path().join(format!("c{idx}"));
        let src = dir.join("src");
        std::fs::create_dir_all(&src).unwrap();
        let mut w = Writer { next_tx: 1, nodes: 0, pending: 0 };
        let mut labels = 0u64;
        let mut before_eff: Vec<(W, bool)> = vec![];
        let mut between_eff: Vec<(W, bool)> = vec![];
        let res = guarded(|| -> Result<(Vec<String>, Vec<Vec<String>>, Result<Vec<String>, String>, bool), String> {
            let mut db = Db::open(base_path(&src)).map_err(|e| e.to_string())?;
            for op in &before {
                match op {
                    W::Commit => { let tx = w.marker_tx(&mut r); apply_tx(&db, &tx)?; w.pending += 1; before_eff.push((W::Commit, true)); }
                    W::Compact => { db.compact().map_err(|e| e.to_string())?; before_eff.push((W::Compact, w.pending > 0)); w.pending = 0; }
                    W::CloseReopen => { db.close().map_err(|e| e.to_string())?; db = Db::open(base_path(&src)).map_err(|e| e.to_string())?; before_eff.push((W::CloseReopen, true)); }
                    W::Label => { labels += 1; new_label(&db, labels)?; before_eff.push((W::Label, true)); }
                }
            }
            let d_pre = filtered(dump(&db));
            let mut txs = vec![];
            for op in &between {
                match op {
                    W::Commit => { txs.push(w.marker_tx(&mut r)); w.pending += 1; between_eff.push((W::Commit, true)); }
                    W::Compact => { between_eff.push((W::Compact, w.pending > 0)); w.pending = 0; }
                    W::CloseReopen => { between_eff.push((W::CloseReopen, true)); }
                    W::Label => { between_eff.push((W::Label, true)); }
                }
            }
            let manifest_between = between_eff.iter().any(|(o, e)| *o == W::Compact && *e);
            let backups = dir.join("backups");
            std::fs::create_dir_all(&backups).unwrap();
            let mut db_opt = if keep_open { Some(db) } else { db.close().map_err(|e| e.to_string())?; None };
            if db_opt.is_some() {
                *CTX.lock().unwrap() = Some(Ctx { db: &mut db_opt as *mut Option<Db> as usize, path: base_path(&src), ops: between.clone(), txs, states: vec![], err: None, labels: 1000 });
            }
            let info = nervusdb::backup(base_path(&src), &backups).map_err(|e| format!("backup: {e}"));
            let ctx = CTX.lock().unwrap().take();
            let info = info?;
            let mut states = vec![d_pre.clone()];
            if let Some(c) = ctx {
                if let Some(e) = c.err { return Err(format!("interleaved writer op failed: {e}")); }
                states.extend(c.states);
            }
            drop(db_opt);
            let dst = dir.join("restored");
            std::fs::create_dir_all(&dst).unwrap();
            BackupManager::restore_from_backup(&backups, info.id, &ndb_path(&dst)).map_err(|e| format!("restore: {e}"))?;
            let restored = guarded(|| Db::open(base_path(&dst)).map(|d| filtered(dump(&d))).map_err(|e| e.to_string())).unwrap_or_else(|p| Err(format!("panic: {p}")));
            Ok((d_pre, states, restored, manifest_between))
        });
        *hist.entry(format!("kind:{}", if between.is_empty() { if keep_open { "quiescent-open" } else { "quiescent-closed" } } else if between.iter().all(|o| *o != W::Compact) { "between:no-compaction" } else { "between:with-compaction" })).or_insert(0) += 1;
        let input = json!({"before": format!("{:?}", before), "between": format!("{:?}", between), "source_open": keep_open});
        match res {
            Err(p) | Ok(Err(p)) => {
                *hist.entry("skipped:source-history-error".into()).or_insert(0) += 1;
                if hist["skipped:source-history-error"] <= 2 { rep.case(idx, json!({"skipped": p, "input": input})); }
            }
            Ok(Ok((d_pre, states, restored, manifest_between))) => {
                let (opens, visible) = match &restored { Ok(d) => (true, visible_markers(d)), Err(_) => (false, 0) };
                cw.push(format!("{{| before := {}; between := {}; impl_opens := {}; impl_visible := {} |}}",
                    coq_wops(&before_eff), coq_wops(&between_eff), coq_bool(opens), coq_n(visible as u128)));
                distinct.insert(format!("{:?}|{:?}", before_eff, between_eff));
                if idx < 4 { rep.case(idx, json!({"input": input, "restored_opens": opens, "visible_txs": visible, "moments": states.len()})); }
                let class = if manifest_between { Some("K-C29-concurrent") } else { None };
                match &restored {
                    Err(e) => {
                        *hist.entry(format!("restored:does-not-open:{}", if manifest_between { "manifest-between" } else { "other" })).or_insert(0) += 1;
                        rep.fail(idx, class, &format!("restored backup does not open: {e}"), input);
                    }
                    Ok(d) => {
                        let m = states.iter().rposition(|s| s == d);
                        *hist.entry(format!("restored:equals-moment:{}", m.map_or("none".to_string(), |i| if i == 0 { "start".into() } else if i + 1 == states.len() { "end".into() } else { "middle".into() }))).or_insert(0) += 1;
                        if m.is_none() {
                            let diff = first_diff(&states[states.len() - 1], d).unwrap_or_default();
                            rep.fail(idx, class, &format!("restored database equals the source at no moment of the backup: {diff}"), input);
                        } else if visible_markers(d) < visible_markers(&d_pre) {
                            rep.fail(idx, class, "a transaction committed before the backup started is missing", input);
                        }
                    }
                }
            }
        }
        let _ = std::fs::remove_dir_all(&dir);
    }
    cw.flush();
    rep.stats(json!({
        "evaluations": a.n,
        "corr_cases": cw.total,
        "distinct_nontrivial": distinct.len(),
        "rule": "2-10 writer ops (commit of a marker transaction with edges/properties/large values, compaction, label creation, close+reopen) before the backup; 50% quiescent (source open-idle or closed), 25% commits / label creations / close+reopen (log rewrite) between the two copies, 25% also compactions between; distinct by the effective op sequences",
        "histogram": hist,
        "case_files": cw.files.iter().map(|p| p.to_string_lossy().to_string()).collect::<Vec<_>>(),
    }));
    rep.finish();
}
