//! hx_store — shared code of the C18 / C28 / C29 harness binaries:
//! history generator + executor over the public `nervusdb::Db` API, a small canonical
//! dump, and a parser of the `.ndb` page file / `.wal` roots (the page graph handed to
//! the Coq models Store/Vacuum.v and Store/Pager.v).
use nervusdb::{Db, GraphSnapshot, PropertyValue as PV};
use std::path::{Path, PathBuf};
use vh::Rng;

pub const PAGE_SIZE: usize = 8192;
pub const LABELS: &[&str] = &["A", "B", "C"];
pub const RELS: &[&str] = &["R", "S"];
pub const KEYS: &[&str] = &["k", "name", "w"];

// ------------------------------------------------------------------ histories

#[derive(Clone, Debug)]
pub struct Tx {
    pub creates: Vec<(u64, usize)>,                   // (external id, label index)
    pub edges: Vec<(u32, usize, u32)>,                // (src iid, rel index, dst iid)
    pub node_props: Vec<(u32, usize, PV)>,            // (iid, key index, value)
    pub edge_props: Vec<(u32, usize, u32, usize, PV)>,
    pub tomb_edges: Vec<(u32, usize, u32)>,
    pub tomb_nodes: Vec<u32>,
    pub vectors: Vec<(u32, Vec<f32>)>,
}

#[derive(Clone, Debug)]
pub enum Op {
    Tx(Tx),
    Compact,
    CreateIndex(usize, usize),
    Reopen { close: bool },
}

#[derive(Clone, Copy, Debug)]
pub struct GenCfg {
    pub ops: usize,
    pub big_nodes: usize,  // a stream of this many node creations is spread over the history
    pub deletes: bool,
    pub vectors: bool,
    pub indexes: bool,
    pub compactions: bool,
    pub big_values: bool,
}

pub fn gen_value(r: &mut Rng, big: bool) -> PV {
    match r.below(7) {
        0 => PV::Int(r.range(-5, 5)),
        1 => PV::Int(r.next() as i64),
        2 => PV::Bool(r.chance(1, 2)),
        3 => PV::Float(f64::from_bits(r.next() & 0x7FEF_FFFF_FFFF_FFFF)),
        4 => PV::String(["x", "yy", "", "zed"][r.below(4) as usize].to_string()),
        5 if big => PV::String("s".repeat(r.range(8000, 20000) as usize)), // multi-page blob once sunk
        _ => PV::Int(r.range(0, 3)),
    }
}

/// Generates a history.  `nodes` = number of nodes existing before (0 for a fresh db).
pub fn gen_history(r: &mut Rng, cfg: GenCfg) -> Vec<Op> {
    let mut ops = Vec::new();
    let mut n_nodes: u32 = 0;
    let mut next_ext: u64 = 1000;
    let mut edges: Vec<(u32, usize, u32)> = Vec::new();
    let mut big_left = cfg.big_nodes;
    let chunks = if cfg.big_nodes > 0 { 2 + r.below(4) as usize } else { 0 };
    let chunk = if chunks > 0 { cfg.big_nodes.div_ceil(chunks) } else { 0 };
    for i in 0..cfg.ops {
        // spread the big node stream
        if big_left > 0 && (i % (cfg.ops / chunks.max(1)).max(1) == 0) {
            let k = chunk.min(big_left);
            big_left -= k;
            let mut tx = Tx { creates: vec![], edges: vec![], node_props: vec![], edge_props: vec![], tomb_edges: vec![], tomb_nodes: vec![], vectors: vec![] };
            for _ in 0..k {
                tx.creates.push((next_ext, r.below(LABELS.len() as u64) as usize));
                next_ext += 1;
            }
            // a few properties / edges on the new nodes
            for j in 0..(k as u32).min(5) {
                tx.node_props.push((n_nodes + j, r.below(KEYS.len() as u64) as usize, gen_value(r, false)));
            }
            if k >= 2 {
                let e = (n_nodes, 0usize, n_nodes + k as u32 - 1);
                tx.edges.push(e);
                edges.push(e);
            }
            n_nodes += k as u32;
            ops.push(Op::Tx(tx));
        }
        let c = r.below(100);
        if c < 55 || n_nodes == 0 {
            let mut tx = Tx { creates: vec![], edges: vec![], node_props: vec![], edge_props: vec![], tomb_edges: vec![], tomb_nodes: vec![], vectors: vec![] };
            let nc = r.below(4) as usize + if n_nodes == 0 { 1 } else { 0 };
            for _ in 0..nc {
                tx.creates.push((next_ext, r.below(LABELS.len() as u64) as usize));
                next_ext += 1;
            }
            let avail = n_nodes + nc as u32;
            for _ in 0..r.below(4) {
                let e = (r.below(avail as u64) as u32, r.below(RELS.len() as u64) as usize, r.below(avail as u64) as u32);
                tx.edges.push(e);
                edges.push(e);
                if r.chance(1, 3) {
                    tx.edge_props.push((e.0, e.1, e.2, r.below(KEYS.len() as u64) as usize, gen_value(r, false)));
                }
            }
            for _ in 0..r.below(4) {
                // multi-page values only under key "w", which is never indexed (an index key larger than a
                // page is rejected by the B-tree with a panic: not this area's concern)
                let k = r.below(KEYS.len() as u64) as usize;
                tx.node_props.push((r.below(avail as u64) as u32, k, gen_value(r, cfg.big_values && k == 2)));
            }
            if cfg.deletes && !edges.is_empty() && r.chance(1, 5) {
                let e = edges[r.below(edges.len() as u64) as usize];
                tx.tomb_edges.push(e);
            }
            if cfg.deletes && avail > 3 && r.chance(1, 12) {
                tx.tomb_nodes.push(r.below(avail as u64) as u32);
            }
            if cfg.vectors && r.chance(1, 3) {
                for _ in 0..1 + r.below(3) {
                    let id = r.below(avail as u64) as u32;
                    let v: Vec<f32> = (0..4).map(|_| (r.range(-8, 8) as f32) * 0.5).collect();
                    tx.vectors.push((id, v));
                }
            }
            n_nodes = avail;
            ops.push(Op::Tx(tx));
        } else if c < 70 {
            if cfg.compactions { ops.push(Op::Compact); }
        } else if c < 82 {
            if cfg.indexes { ops.push(Op::CreateIndex(r.below(LABELS.len() as u64) as usize, r.below(2) as usize)); }
        } else if c < 90 {
            ops.push(Op::Reopen { close: r.chance(1, 2) });
        } else if cfg.compactions {
            ops.push(Op::Compact);
        }
    }
    ops
}

pub fn base_path(dir: &Path) -> PathBuf {
    dir.join("g")
}
pub fn ndb_path(dir: &Path) -> PathBuf {
    dir.join("g.ndb")
}
pub fn wal_path(dir: &Path) -> PathBuf {
    dir.join("g.wal")
}

pub fn apply_tx(db: &Db, tx: &Tx) -> Result<(), String> {
    let mut w = db.begin_write();
    let mut label_ids = Vec::new();
    for l in LABELS {
        label_ids.push(w.get_or_create_label(l).map_err(|e| e.to_string())?);
    }
    let mut rel_ids = Vec::new();
    for l in RELS {
        rel_ids.push(w.get_or_create_rel_type(l).map_err(|e| e.to_string())?);
    }
    for (ext, l) in &tx.creates {
        w.create_node(*ext, label_ids[*l]).map_err(|e| e.to_string())?;
    }
    for (s, r, d) in &tx.edges {
        w.create_edge(*s, rel_ids[*r], *d);
    }
    for (n, k, v) in &tx.node_props {
        w.set_node_property(*n, KEYS[*k].to_string(), v.clone()).map_err(|e| e.to_string())?;
    }
    for (s, r, d, k, v) in &tx.edge_props {
        w.set_edge_property(*s, rel_ids[*r], *d, KEYS[*k].to_string(), v.clone()).map_err(|e| e.to_string())?;
    }
    for (s, r, d) in &tx.tomb_edges {
        w.tombstone_edge(*s, rel_ids[*r], *d);
    }
    for n in &tx.tomb_nodes {
        w.tombstone_node(*n);
    }
    for (n, v) in &tx.vectors {
        w.set_vector(*n, v.clone()).map_err(|e| e.to_string())?;
    }
    w.commit().map_err(|e| e.to_string())
}

/// Runs a history on the database in `dir`; returns the still-open handle.
/// `after_op` is called after every operation (used by C18 to drain the I/O trace).
pub fn run_history(dir: &Path, ops: &[Op], mut after_op: impl FnMut(usize, &Op)) -> Result<Db, String> {
    let mut db = Db::open(base_path(dir)).map_err(|e| format!("open: {e}"))?;
    for (i, op) in ops.iter().enumerate() {
        match op {
            Op::Tx(tx) => apply_tx(&db, tx).map_err(|e| format!("op {i} tx: {e}"))?,
            Op::Compact => db.compact().map_err(|e| format!("op {i} compact: {e}"))?,
            Op::CreateIndex(l, k) => db.create_index(LABELS[*l], KEYS[*k]).map_err(|e| format!("op {i} create_index: {e}"))?,
            Op::Reopen { close } => {
                if *close {
                    db.close().map_err(|e| format!("op {i} close: {e}"))?;
                } else {
                    drop(db);
                }
                db = Db::open(base_path(dir)).map_err(|e| format!("op {i} reopen: {e}"))?;
            }
        }
        after_op(i, op);
    }
    Ok(db)
}

pub fn op_kind(op: &Op) -> &'static str {
    match op {
        Op::Tx(_) => "tx",
        Op::Compact => "compact",
        Op::CreateIndex(..) => "create_index",
        Op::Reopen { close: true } => "close_reopen",
        Op::Reopen { close: false } => "drop_reopen",
    }
}

pub fn history_json(ops: &[Op]) -> serde_json::Value {
    serde_json::Value::Array(ops.iter().map(|o| match o {
        Op::Tx(t) => serde_json::json!({"tx": {"creates": t.creates.len(), "first_ext": t.creates.first().map(|c| c.0), "edges": t.edges, "node_props": t.node_props.iter().map(|(n,k,v)| format!("{n}.{}={}", KEYS[*k], pv(v))).collect::<Vec<_>>(),
            "edge_props": t.edge_props.len(), "tomb_edges": t.tomb_edges, "tomb_nodes": t.tomb_nodes, "vectors": t.vectors.iter().map(|(n, _)| *n).collect::<Vec<_>>()}}),
        other => serde_json::json!(op_kind(other)),
    }).collect())
}

// ------------------------------------------------------------------ dump

pub fn pv(v: &PV) -> String {
    let e = v.encode();
    if e.len() > 40 {
        // long values: length + cheap hash
        let mut h: u64 = 1469598103934665603;
        for b in &e { h = (h ^ *b as u64).wrapping_mul(1099511628211); }
        format!("#{}:{:016x}", e.len(), h)
    } else {
        e.iter().map(|b| format!("{:02x}", b)).collect()
    }
}

pub const PROBE_VALUES: &[i64] = &[-5, -1, 0, 1, 2, 3, 5];
pub const PROBE_VECS: &[[f32; 4]] = &[[0.0, 0.0, 0.0, 0.0], [1.0, -1.0, 2.0, 0.5], [-4.0, 4.0, -4.0, 4.0]];

/// Canonical logical dump through the public API: nodes (external id, labels, properties),
/// relationships in both directions with properties, index seeks, vector searches, counts.
pub fn dump(db: &Db) -> Vec<String> {
    let mut out = Vec::new();
    let s = db.snapshot();
    let mut nodes: Vec<u32> = s.nodes().collect();
    nodes.sort_unstable();
    let name = |id: u32| s.resolve_label_name(id).unwrap_or_else(|| format!("?{id}"));
    for &n in &nodes {
        let mut labels: Vec<String> = s.resolve_node_labels(n).unwrap_or_default().into_iter().map(name).collect();
        labels.sort();
        let props: Vec<String> = s.node_properties(n).unwrap_or_default().iter().map(|(k, v)| format!("{k}={}", pv(v))).collect();
        // single-key reads must agree with the map
        let single: Vec<String> = KEYS.iter().filter_map(|k| s.node_property(n, k).map(|v| format!("{k}={}", pv(&v)))).collect();
        out.push(format!("N {n} ext={:?} labels={:?} props={:?} single={:?}", s.resolve_external(n), labels, props, single));
    }
    for &n in &nodes {
        // a panic inside one traversal (other properties' defects) is recorded as part of the dump
        let es = guarded(|| {
            let mut es: Vec<String> = s.neighbors(n, None).map(|e| {
                let p: Vec<String> = s.edge_properties(e).unwrap_or_default().iter().map(|(k, v)| format!("{k}={}", pv(v))).collect();
                format!("{}-{}->{} {:?}", e.src, name(e.rel), e.dst, p)
            }).collect();
            es.sort();
            es
        }).unwrap_or_else(|p| vec![format!("PANIC {p}")]);
        if !es.is_empty() { out.push(format!("OUT {n} {:?}", es)); }
        let is = guarded(|| {
            let mut is: Vec<String> = s.incoming_neighbors(n, None).map(|e| format!("{}-{}->{}", e.src, name(e.rel), e.dst)).collect();
            is.sort();
            is
        }).unwrap_or_else(|p| vec![format!("PANIC {p}")]);
        if !is.is_empty() { out.push(format!("IN {n} {:?}", is)); }
    }
    for l in LABELS {
        for k in KEYS {
            for v in PROBE_VALUES {
                if let Some(mut ids) = s.lookup_index(l, k, &PV::Int(*v)) {
                    ids.sort_unstable();
                    out.push(format!("IDX {l}.{k}={v} {:?}", ids));
                }
            }
        }
    }
    out.push(format!("COUNT nodes={} edges={}", s.node_count(None), s.edge_count(None)));
    drop(s);
    for q in PROBE_VECS {
        match db.search_vector(q, 3) {
            Ok(r) => out.push(format!("VEC {:?} {:?}", q, r.iter().map(|(id, d)| (*id, d.to_bits())).collect::<Vec<_>>())),
            Err(e) => out.push(format!("VEC {:?} err {}", q, e)),
        }
    }
    out
}

pub fn first_diff(a: &[String], b: &[String]) -> Option<String> {
    for i in 0..a.len().max(b.len()) {
        let x = a.get(i).map(|s| s.as_str()).unwrap_or("<missing>");
        let y = b.get(i).map(|s| s.as_str()).unwrap_or("<missing>");
        if x != y {
            let t = |s: &str| s.chars().take(300).collect::<String>();
            return Some(format!("line {i}: {} | vs | {}", t(x), t(y)));
        }
    }
    None
}

pub fn copy_db(from: &Path, to: &Path) {
    std::fs::create_dir_all(to).unwrap();
    std::fs::copy(ndb_path(from), ndb_path(to)).unwrap();
    if wal_path(from).exists() {
        std::fs::copy(wal_path(from), wal_path(to)).unwrap();
    }
}

/// scratch directory on tmpfs when there is one (the engine fsyncs several times per commit)
pub fn scratch() -> tempfile::TempDir {
    if Path::new("/dev/shm").is_dir() {
        if let Ok(d) = tempfile::tempdir_in("/dev/shm") { return d; }
    }
    tempfile::tempdir().unwrap()
}

/// catch panics of code using a Db
pub fn guarded<T>(f: impl FnOnce() -> T) -> Result<T, String> {
    vh::catch(std::panic::AssertUnwindSafe(f))
}

// ------------------------------------------------------------------ page file parsing

pub fn u16le(b: &[u8], o: usize) -> u64 { u16::from_le_bytes(b[o..o + 2].try_into().unwrap()) as u64 }
pub fn u32le(b: &[u8], o: usize) -> u64 { u32::from_le_bytes(b[o..o + 4].try_into().unwrap()) as u64 }
pub fn u64le(b: &[u8], o: usize) -> u64 { u64::from_le_bytes(b[o..o + 8].try_into().unwrap()) }

#[derive(Clone, Debug)]
pub enum BtNode {
    Leaf { right: u64, payloads: Vec<u64> },
    Internal { right: u64, leftmost: u64, children: Vec<u64> },
}

fn varint(b: &[u8]) -> Option<(usize, usize)> {
    let mut v: u32 = 0;
    let mut shift = 0;
    for (i, &x) in b.iter().enumerate() {
        v |= ((x & 0x7F) as u32).checked_shl(shift)?;
        if x & 0x80 == 0 { return Some((v as usize, i + 1)); }
        shift += 7;
        if shift > 28 { return None; }
    }
    None
}

/// independent re-parse of a B-tree page (layout of index/btree.rs)
pub fn parse_bt(p: &[u8]) -> Option<BtNode> {
    if &p[0..4] != b"NDBI" || p[5] != 1 { return None; }
    let count = u16le(p, 6) as usize;
    let right = u64le(p, 16);
    match p[4] {
        0 => {
            let mut payloads = Vec::new();
            for i in 0..count {
                let off = u16le(p, 24 + 2 * i) as usize;
                let (klen, vl) = varint(&p[off..])?;
                let end = off + vl + klen;
                if end + 8 > PAGE_SIZE { return None; }
                payloads.push(u64le(p, end));
            }
            Some(BtNode::Leaf { right, payloads })
        }
        1 => {
            let leftmost = u64le(p, 24);
            let mut children = Vec::new();
            for i in 0..count {
                let off = u16le(p, 32 + 2 * i) as usize;
                if off + 8 >= PAGE_SIZE { return None; }
                children.push(u64le(p, off));
            }
            Some(BtNode::Internal { right, leftmost, children })
        }
        _ => None,
    }
}

pub struct PageFile {
    pub bytes: Vec<u8>,
}
impl PageFile {
    pub fn read(path: &Path) -> Self { PageFile { bytes: std::fs::read(path).unwrap() } }
    pub fn n_pages(&self) -> u64 { (self.bytes.len() / PAGE_SIZE) as u64 }
    pub fn page(&self, id: u64) -> &[u8] { &self.bytes[id as usize * PAGE_SIZE..(id as usize + 1) * PAGE_SIZE] }
    pub fn bit(&self, id: u64) -> bool {
        if self.n_pages() < 2 || id >= (PAGE_SIZE as u64) * 8 { return false; }
        self.page(1)[(id / 8) as usize] & (1 << (id % 8)) != 0
    }
    pub fn allocated(&self) -> Vec<u64> {
        (0..(PAGE_SIZE as u64 * 8)).filter(|i| self.bit(*i)).collect()
    }
}

#[derive(Clone, Debug, Default)]
pub struct WalRoots {
    pub segments: Vec<u64>, // meta page ids of the current manifest
    pub properties_root: u64,
    pub stats_root: u64,
    pub epoch: u64,
}

/// the roots the log names (same scan as engine.rs scan_recovery_state / vacuum.rs scan_wal_roots)
pub fn wal_roots(wal: &Path) -> WalRoots {
    use nervusdb_storage::wal::{Wal, WalRecord};
    let mut st = WalRoots::default();
    if !wal.exists() { return st; }
    let committed = Wal::replay_committed_from_path(wal).unwrap_or_default();
    for tx in &committed {
        for op in &tx.ops {
            match op {
                WalRecord::ManifestSwitch { epoch, segments, properties_root, stats_root } => {
                    if *epoch >= st.epoch {
                        st.epoch = *epoch;
                        st.segments = segments.iter().map(|s| s.meta_page_id).collect();
                        st.properties_root = *properties_root;
                        st.stats_root = *stats_root;
                    }
                }
                WalRecord::Checkpoint { epoch, properties_root, stats_root, .. } => {
                    if *epoch == st.epoch {
                        st.properties_root = *properties_root;
                        st.stats_root = *stats_root;
                    }
                }
                _ => {}
            }
        }
    }
    st
}

/// catalog page: (name, id, root) entries
pub fn parse_catalog(p: &[u8]) -> Option<Vec<(String, u64, u64)>> {
    if &p[0..8] != b"NDBXCAT1" { return None; }
    let count = u16le(p, 8) as usize;
    let mut off = 16;
    let mut out = Vec::new();
    for _ in 0..count {
        if off + 2 > PAGE_SIZE { return None; }
        let nl = u16le(p, off) as usize;
        off += 2;
        if off + nl + 12 > PAGE_SIZE { return None; }
        let name = String::from_utf8_lossy(&p[off..off + nl]).to_string();
        off += nl;
        let id = u32le(p, off);
        off += 4;
        let root = u64le(p, off);
        off += 8;
        out.push((name, id, root));
    }
    out.sort();
    Some(out)
}
