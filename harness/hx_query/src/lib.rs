//! Shared code of the Query-area harness binaries (c19, c22, c33, c11):
//! model values, random property graphs loaded into a real `nervusdb::Db` and dumped back
//! through `GraphSnapshot`, a typed expression generator with Cypher and Coq printers, and
//! the runner (`prepare` + `execute_streaming`).
use nervusdb::Db;
use nervusdb::query::{ExecuteOptions, Params, Value, WriteableGraph, prepare};
use nervusdb_api::{GraphSnapshot, PropertyValue};
use std::collections::BTreeMap;
use vh::*;

// ------------------------------------------------------------------ values

#[derive(Clone, Debug, PartialEq)]
pub enum MV {
    Null,
    Bool(bool),
    Int(i64),
    Float(u64),
    Str(String),
    List(Vec<MV>),
    Map(Vec<(String, MV)>),
    Node(u32),
    Rel(u32, u32, u32),
    Path(Vec<u32>, Vec<(u32, u32, u32)>),
    Other(String),
}

pub fn mv_of_value(v: &Value) -> MV {
    match v {
        Value::Null => MV::Null,
        Value::Bool(b) => MV::Bool(*b),
        Value::Int(i) => MV::Int(*i),
        Value::Float(f) => MV::Float(f.to_bits()),
        Value::String(s) => MV::Str(s.clone()),
        Value::List(l) => MV::List(l.iter().map(mv_of_value).collect()),
        Value::Map(m) => MV::Map(m.iter().map(|(k, v)| (k.clone(), mv_of_value(v))).collect()),
        Value::NodeId(id) => MV::Node(*id),
        Value::EdgeKey(e) => MV::Rel(e.src, e.rel, e.dst),
        Value::Path(p) => MV::Path(p.nodes.clone(), p.edges.iter().map(|e| (e.src, e.rel, e.dst)).collect()),
        other => MV::Other(format!("{:?}", other)),
    }
}
pub fn mv_of_prop(v: &PropertyValue) -> MV {
    match v {
        PropertyValue::Null => MV::Null,
        PropertyValue::Bool(b) => MV::Bool(*b),
        PropertyValue::Int(i) => MV::Int(*i),
        PropertyValue::Float(f) => MV::Float(f.to_bits()),
        PropertyValue::String(s) => MV::Str(s.clone()),
        PropertyValue::List(l) => MV::List(l.iter().map(mv_of_prop).collect()),
        PropertyValue::Map(m) => MV::Map(m.iter().map(|(k, v)| (k.clone(), mv_of_prop(v))).collect()),
        other => MV::Other(format!("{:?}", other)),
    }
}
pub fn prop_of_mv(v: &MV) -> PropertyValue {
    match v {
        MV::Null => PropertyValue::Null,
        MV::Bool(b) => PropertyValue::Bool(*b),
        MV::Int(i) => PropertyValue::Int(*i),
        MV::Float(b) => PropertyValue::Float(f64::from_bits(*b)),
        MV::Str(s) => PropertyValue::String(s.clone()),
        MV::List(l) => PropertyValue::List(l.iter().map(prop_of_mv).collect()),
        _ => PropertyValue::Null,
    }
}
pub fn value_of_mv(v: &MV) -> Value {
    match v {
        MV::Null => Value::Null,
        MV::Bool(b) => Value::Bool(*b),
        MV::Int(i) => Value::Int(*i),
        MV::Float(b) => Value::Float(f64::from_bits(*b)),
        MV::Str(s) => Value::String(s.clone()),
        MV::List(l) => Value::List(l.iter().map(value_of_mv).collect()),
        _ => Value::Null,
    }
}

/// a double as a Coq PrimFloat term
pub fn coq_float(bits: u64) -> String {
    let neg = bits >> 63 == 1;
    let exp = ((bits >> 52) & 0x7ff) as i64;
    let frac = bits & 0x000f_ffff_ffff_ffff;
    if exp == 0x7ff {
        return if frac != 0 { "nan".into() } else if neg { "neg_infinity".into() } else { "infinity".into() };
    }
    if exp == 0 && frac == 0 {
        return if neg { "(-0)%float".into() } else { "0%float".into() };
    }
    let (m, e) = if exp == 0 { (frac, -1074) } else { (frac | (1 << 52), exp - 1075) };
    let sign = if e < 0 { "-" } else { "+" };
    format!("({}0x{:x}p{}{})%float", if neg { "-" } else { "" }, m, sign, e.abs())
}

pub fn coq_value(v: &MV) -> String {
    match v {
        MV::Null => "VNull".into(),
        MV::Bool(b) => format!("(VBool {})", coq_bool(*b)),
        MV::Int(i) => format!("(VInt {})", coq_z(*i as i128)),
        MV::Float(b) => format!("(VFloat {})", coq_float(*b)),
        MV::Str(s) => format!("(VStr {})", coq_bytes(s.as_bytes())),
        MV::List(l) => format!("(VList {})", coq_list(l, coq_value)),
        MV::Map(m) => format!("(VMap {})", coq_list(m, |(k, v)| format!("({}, {})", coq_bytes(k.as_bytes()), coq_value(v)))),
        MV::Node(id) => format!("(VNode {})", coq_n(*id as u128)),
        MV::Rel(s, t, d) => format!("(VRel {} {} {})", coq_n(*s as u128), coq_n(*t as u128), coq_n(*d as u128)),
        MV::Path(ns, es) => format!(
            "(VPath {} {})",
            coq_list(ns, |n| coq_n(*n as u128)),
            coq_list(es, |(s, t, d)| format!("({}, {}, {})", coq_n(*s as u128), coq_n(*t as u128), coq_n(*d as u128)))
        ),
        MV::Other(_) => "VNull".into(),
    }
}

/// canonical text for multiset comparison: floats as bit patterns, every NaN one value
pub fn canon(v: &MV) -> String {
    match v {
        MV::Float(b) => {
            let f = f64::from_bits(*b);
            if f.is_nan() { "f:nan".into() } else { format!("f:{:016x}", b) }
        }
        MV::List(l) => format!("[{}]", l.iter().map(canon).collect::<Vec<_>>().join(",")),
        MV::Map(m) => format!("{{{}}}", m.iter().map(|(k, v)| format!("{:?}:{}", k, canon(v))).collect::<Vec<_>>().join(",")),
        other => format!("{:?}", other),
    }
}
pub fn js_value(v: &MV) -> serde_json::Value {
    serde_json::Value::String(canon(v))
}

/// Cypher literal of a value (None when it has no literal form: NaN, infinities, graph entities)
pub fn cypher_lit(v: &MV) -> Option<String> {
    Some(match v {
        MV::Null => "null".into(),
        MV::Bool(b) => format!("{}", b),
        MV::Int(i) => {
            if *i == i64::MIN { return None; }
            if *i < 0 { format!("({})", i) } else { format!("{}", i) }
        }
        MV::Float(b) => {
            let f = f64::from_bits(*b);
            if !f.is_finite() { return None; }
            let s = format!("{:?}", f);
            if s.contains('e') || s.contains('E') { return None; }
            if f.is_sign_negative() { format!("({})", s) } else { s }
        }
        MV::Str(s) => {
            if s.chars().any(|c| c == '\'' || c == '\\' || c == '"' || (c as u32) < 0x20) { return None; }
            format!("'{}'", s)
        }
        MV::List(l) => {
            let mut parts = vec![];
            for x in l { parts.push(cypher_lit(x)?); }
            format!("[{}]", parts.join(", "))
        }
        _ => return None,
    })
}

// ------------------------------------------------------------------ graphs

pub const LABELS: [&str; 3] = ["L0", "L1", "L2"];
pub const TYPES: [&str; 2] = ["T0", "T1"];
pub const NODE_KEYS: [&str; 3] = ["k", "s", "f"];
pub const REL_KEYS: [&str; 1] = ["w"];
pub const UNKNOWN_LABEL_BASE: u32 = 4_000_000;

pub const INT_PALETTE: [i64; 12] = [0, 1, -1, 2, 3, 7, 12, -7, 9007199254740992, 9007199254740993, i64::MAX, i64::MIN + 1];
pub const FLOAT_PALETTE: [u64; 12] = [
    0x0000_0000_0000_0000, // 0.0
    0x8000_0000_0000_0000, // -0.0
    0x3FF0_0000_0000_0000, // 1.0
    0x3FF8_0000_0000_0000, // 1.5
    0xC002_0000_0000_0000, // -2.25
    0x4000_0000_0000_0000, // 2.0
    0x4340_0000_0000_0000, // 2^53
    0x43E0_0000_0000_0000, // 2^63
    0x7FF0_0000_0000_0000, // inf
    0xFFF0_0000_0000_0000, // -inf
    0x7FF8_0000_0000_0000, // NaN
    0x3FB9_9999_9999_999A, // 0.1
];
pub const STR_PALETTE: [&str; 9] = ["", "a", "abc", "ab", "true", "FALSE", "12", "-7", "\u{e9}a"];

pub fn gen_scalar(r: &mut Rng) -> MV {
    match r.below(10) {
        0 => MV::Null,
        1 => MV::Bool(r.chance(1, 2)),
        2..=4 => MV::Int(*r.pick(&INT_PALETTE)),
        5..=6 => MV::Float(*r.pick(&FLOAT_PALETTE)),
        7..=8 => MV::Str(r.pick(&STR_PALETTE).to_string()),
        _ => MV::List((0..r.below(3)).map(|_| MV::Int(r.range(0, 3))).collect()),
    }
}
/// small well-behaved scalars (no NaN / signed zero / huge): safe as grouping and DISTINCT keys
pub fn gen_plain_scalar(r: &mut Rng) -> MV {
    match r.below(8) {
        0 => MV::Null,
        1 => MV::Bool(r.chance(1, 2)),
        2..=4 => MV::Int(r.range(-2, 4)),
        5 => MV::Float(*r.pick(&[0x3FF0_0000_0000_0000u64, 0x3FF8_0000_0000_0000, 0xC002_0000_0000_0000, 0x4000_0000_0000_0000])),
        _ => MV::Str(r.pick(&["a", "ab", "abc", ""]).to_string()),
    }
}

#[derive(Clone, Debug)]
pub struct GNode {
    pub labels: Vec<usize>,
    pub props: Vec<(String, MV)>,
}
#[derive(Clone, Debug, Default)]
pub struct GSpec {
    pub nodes: Vec<GNode>,
    pub rels: Vec<(usize, usize, usize)>, // src index, type index, dst index
    pub rprops: Vec<((usize, usize, usize), Vec<(String, MV)>)>,
}

/// property values are typed by key most of the time (k numeric, s string, f boolean, w numeric) so that
/// predicates over them vary between rows; the rest is any scalar (mixed-type columns, NaN, signed zero, ...)
pub fn gen_prop(r: &mut Rng, key: &str, plain: bool) -> MV {
    if plain { return gen_plain_scalar(r); }
    match (key, r.below(10)) {
        ("k", 0..=5) | ("w", 0..=5) => MV::Int(r.range(0, 3)),
        ("k", 6) | ("w", 6) => MV::Float(*r.pick(&FLOAT_PALETTE)),
        ("k", 7) | ("w", 7) => MV::Int(*r.pick(&INT_PALETTE)),
        ("s", 0..=6) => MV::Str(r.pick(&STR_PALETTE).to_string()),
        ("f", 0..=6) => MV::Bool(r.chance(1, 2)),
        _ => gen_scalar(r),
    }
}

pub fn gen_graph(r: &mut Rng, plain: bool) -> GSpec {
    let n = 2 + r.below(5) as usize;
    let mut g = GSpec::default();
    for _ in 0..n {
        let mut labels = vec![];
        for l in 0..LABELS.len() {
            if r.chance(1, 2) { labels.push(l); }
        }
        let mut props = vec![];
        for k in NODE_KEYS {
            if r.chance(4, 5) {
                let v = gen_prop(r, k, plain);
                if v != MV::Null { props.push((k.to_string(), v)); }
            }
        }
        g.nodes.push(GNode { labels, props });
    }
    let m = 2 + r.below(9) as usize;
    for _ in 0..m {
        let e = match r.below(6) {
            0 if !g.rels.is_empty() => *r.pick(&g.rels), // parallel relationship
            1 => { let a = r.below(n as u64) as usize; (a, r.below(2) as usize, a) } // self loop
            _ => (r.below(n as u64) as usize, r.below(2) as usize, r.below(n as u64) as usize),
        };
        g.rels.push(e);
    }
    let mut keys: Vec<(usize, usize, usize)> = g.rels.clone();
    keys.sort();
    keys.dedup();
    for k in keys {
        if r.chance(2, 3) {
            let v = gen_prop(r, "w", plain);
            if v != MV::Null { g.rprops.push((k, vec![("w".to_string(), v)])); }
        }
    }
    g
}

/// the graph as the executor sees it, dumped through GraphSnapshot
#[derive(Clone, Debug, Default)]
pub struct MGraph {
    pub nodes: Vec<(u32, Vec<u32>, Vec<(String, MV)>)>,
    pub rels: Vec<(u32, u32, u32)>,
    pub rprops: Vec<((u32, u32, u32), Vec<(String, MV)>)>,
    pub label_ids: Vec<Option<u32>>,
    pub type_ids: Vec<Option<u32>>,
}

pub struct Loaded {
    pub _dir: tempfile::TempDir,
    pub db: Db,
    pub g: MGraph,
}

pub fn load_graph(spec: &GSpec) -> Loaded {
    let dir = tempfile::tempdir().unwrap();
    let db = Db::open(dir.path().join("g.ndb")).unwrap();
    {
        let mut txn = db.begin_write();
        let mut ids = vec![];
        for (i, n) in spec.nodes.iter().enumerate() {
            let first = match n.labels.first() {
                Some(l) => txn.get_or_create_label(LABELS[*l]).unwrap(),
                None => u32::MAX,
            };
            let id = txn.create_node(1000 + i as u64, first).unwrap();
            for l in n.labels.iter().skip(1) {
                let lid = txn.get_or_create_label(LABELS[*l]).unwrap();
                WriteableGraph::add_node_label(&mut txn, id, lid).unwrap();
            }
            for (k, v) in &n.props {
                txn.set_node_property(id, k.clone(), prop_of_mv(v)).unwrap();
            }
            ids.push(id);
        }
        for (s, t, d) in &spec.rels {
            let tid = txn.get_or_create_rel_type(TYPES[*t]).unwrap();
            txn.create_edge(ids[*s], tid, ids[*d]);
        }
        for ((s, t, d), props) in &spec.rprops {
            let tid = txn.get_or_create_rel_type(TYPES[*t]).unwrap();
            for (k, v) in props {
                txn.set_edge_property(ids[*s], tid, ids[*d], k.clone(), prop_of_mv(v)).unwrap();
            }
        }
        txn.commit().unwrap();
    }
    let g = dump_graph(&db);
    Loaded { _dir: dir, db, g }
}

pub fn dump_graph(db: &Db) -> MGraph {
    let snap = db.snapshot();
    let mut g = MGraph::default();
    let ids: Vec<u32> = snap.nodes().filter(|n| !snap.is_tombstoned_node(*n)).collect();
    for id in &ids {
        let labels: Vec<u32> = snap.resolve_node_labels(*id).unwrap_or_default().into_iter().filter(|l| *l != u32::MAX).collect();
        let props: Vec<(String, MV)> = snap.node_properties(*id).unwrap_or_default().iter().map(|(k, v)| (k.clone(), mv_of_prop(v))).collect();
        g.nodes.push((*id, labels, props));
    }
    for id in &ids {
        for e in snap.neighbors(*id, None) {
            g.rels.push((e.src, e.rel, e.dst));
        }
    }
    let mut keys = g.rels.clone();
    keys.sort();
    keys.dedup();
    for (s, t, d) in keys {
        let e = nervusdb_api::EdgeKey { src: s, rel: t, dst: d };
        let props: Vec<(String, MV)> = snap.edge_properties(e).unwrap_or_default().iter().map(|(k, v)| (k.clone(), mv_of_prop(v))).collect();
        if !props.is_empty() { g.rprops.push(((s, t, d), props)); }
    }
    g.label_ids = LABELS.iter().map(|l| snap.resolve_label_id(l)).collect();
    g.type_ids = TYPES.iter().map(|t| snap.resolve_rel_type_id(t)).collect();
    g
}

pub fn coq_props(p: &[(String, MV)]) -> String {
    coq_list(p, |(k, v)| format!("({}, {})", coq_bytes(k.as_bytes()), coq_value(v)))
}
pub fn coq_rkey(e: &(u32, u32, u32)) -> String {
    format!("({}, {}, {})", coq_n(e.0 as u128), coq_n(e.1 as u128), coq_n(e.2 as u128))
}
pub fn coq_graph(g: &MGraph) -> String {
    format!(
        "(mk_graph {} {} {})",
        coq_list(&g.nodes, |(id, ls, ps)| format!("(mk_node {} {} {})", coq_n(*id as u128), coq_list(ls, |l| coq_n(*l as u128)), coq_props(ps))),
        coq_list(&g.rels, coq_rkey),
        coq_list(&g.rprops, |(e, ps)| format!("({}, {})", coq_rkey(e), coq_props(ps)))
    )
}
pub fn js_graph(g: &MGraph) -> serde_json::Value {
    serde_json::json!({
        "nodes": g.nodes.iter().map(|(id, ls, ps)| serde_json::json!({"id": id, "labels": ls, "props": ps.iter().map(|(k, v)| (k.clone(), canon(v))).collect::<BTreeMap<_, _>>()})).collect::<Vec<_>>(),
        "rels": g.rels,
        "rprops": g.rprops.iter().map(|(e, ps)| serde_json::json!({"key": e, "props": ps.iter().map(|(k, v)| (k.clone(), canon(v))).collect::<BTreeMap<_, _>>()})).collect::<Vec<_>>(),
    })
}
/// model id of label index `l` (an id no node carries when the label does not exist)
pub fn label_model_id(g: &MGraph, l: usize) -> u32 {
    g.label_ids.get(l).copied().flatten().unwrap_or(UNKNOWN_LABEL_BASE + l as u32)
}
pub fn label_name(l: usize) -> String {
    if l < LABELS.len() { LABELS[l].to_string() } else { format!("LX{}", l) }
}

// ------------------------------------------------------------------ expressions

#[derive(Clone, Copy, Debug, PartialEq)]
pub enum Un { Not, Neg, IsNull, IsNotNull }
#[derive(Clone, Copy, Debug, PartialEq)]
pub enum Bin { Eq, Neq, Lt, Le, Gt, Ge, And, Or, Xor, Add, Sub, Mul, Div, Mod, In, StartsWith, EndsWith, Contains }
#[derive(Clone, Copy, Debug, PartialEq)]
pub enum Fun { ToInteger, ToBoolean, ToFloat, Size, Coalesce, Abs, Sign, Head, Last, Tail, Reverse, Range, Index, LabelsCount, Id, Length }

#[derive(Clone, Debug)]
pub enum Ex {
    Lit(MV),
    Var(usize),
    Param(usize),
    Prop(usize, String),
    HasLabel(Box<Ex>, usize),
    List(Vec<Ex>),
    Un(Un, Box<Ex>),
    Bin(Bin, Box<Ex>, Box<Ex>),
    Case(Vec<(Ex, Ex)>, Option<Box<Ex>>),
    Fn(Fun, Vec<Ex>),
}

pub fn var_name(i: usize) -> String { format!("v{}", i) }
pub fn param_name(i: usize) -> String { format!("p{}", i) }

pub fn cy_ex(e: &Ex) -> String {
    match e {
        Ex::Lit(v) => cypher_lit(v).expect("literal without a Cypher form"),
        Ex::Var(i) => var_name(*i),
        Ex::Param(i) => format!("${}", param_name(*i)),
        Ex::Prop(i, k) => format!("{}.{}", var_name(*i), k),
        Ex::HasLabel(a, l) => format!("({}:{})", cy_ex(a), label_name(*l)),
        Ex::List(es) => format!("[{}]", es.iter().map(cy_ex).collect::<Vec<_>>().join(", ")),
        Ex::Un(o, a) => match o {
            Un::Not => format!("(NOT {})", cy_ex(a)),
            Un::Neg => format!("(-{})", cy_ex(a)),
            Un::IsNull => format!("({} IS NULL)", cy_ex(a)),
            Un::IsNotNull => format!("({} IS NOT NULL)", cy_ex(a)),
        },
        Ex::Bin(o, a, b) => {
            let op = match o {
                Bin::Eq => "=", Bin::Neq => "<>", Bin::Lt => "<", Bin::Le => "<=", Bin::Gt => ">", Bin::Ge => ">=",
                Bin::And => "AND", Bin::Or => "OR", Bin::Xor => "XOR",
                Bin::Add => "+", Bin::Sub => "-", Bin::Mul => "*", Bin::Div => "/", Bin::Mod => "%",
                Bin::In => "IN", Bin::StartsWith => "STARTS WITH", Bin::EndsWith => "ENDS WITH", Bin::Contains => "CONTAINS",
            };
            format!("({} {} {})", cy_ex(a), op, cy_ex(b))
        }
        Ex::Case(ws, els) => {
            let mut s = String::from("CASE");
            for (c, t) in ws { s.push_str(&format!(" WHEN {} THEN {}", cy_ex(c), cy_ex(t))); }
            if let Some(e) = els { s.push_str(&format!(" ELSE {}", cy_ex(e))); }
            s.push_str(" END");
            s
        }
        Ex::Fn(f, args) => {
            let a: Vec<String> = args.iter().map(cy_ex).collect();
            match f {
                Fun::Index => format!("{}[{}]", a[0], a[1]),
                Fun::LabelsCount => format!("size(labels({}))", a[0]),
                _ => {
                    let name = match f {
                        Fun::ToInteger => "toInteger", Fun::ToBoolean => "toBoolean", Fun::ToFloat => "toFloat", Fun::Size => "size",
                        Fun::Coalesce => "coalesce", Fun::Abs => "abs", Fun::Sign => "sign", Fun::Head => "head", Fun::Last => "last",
                        Fun::Tail => "tail", Fun::Reverse => "reverse", Fun::Range => "range", Fun::Id => "id", Fun::Length => "length",
                        _ => unreachable!(),
                    };
                    format!("{}({})", name, a.join(", "))
                }
            }
        }
    }
}

pub fn coq_ex(e: &Ex, g: &MGraph) -> String {
    match e {
        Ex::Lit(v) => format!("(ELit {})", coq_value(v)),
        Ex::Var(i) => format!("(EVar {})", coq_n(*i as u128)),
        Ex::Param(i) => format!("(EParam {})", coq_n(*i as u128)),
        Ex::Prop(i, k) => format!("(EProp {} {})", coq_n(*i as u128), coq_bytes(k.as_bytes())),
        Ex::HasLabel(a, l) => format!("(EHasLabel {} {})", coq_ex(a, g), coq_n(label_model_id(g, *l) as u128)),
        Ex::List(es) => format!("(EList {})", coq_list(es, |x| coq_ex(x, g))),
        Ex::Un(o, a) => format!("(EUn {} {})", match o { Un::Not => "UNot", Un::Neg => "UNeg", Un::IsNull => "UIsNull", Un::IsNotNull => "UIsNotNull" }, coq_ex(a, g)),
        Ex::Bin(o, a, b) => format!("(EBin B{:?} {} {})", o, coq_ex(a, g), coq_ex(b, g)),
        Ex::Case(ws, els) => format!(
            "(ECase {} {})",
            coq_list(ws, |(c, t)| format!("({}, {})", coq_ex(c, g), coq_ex(t, g))),
            match els { Some(e) => coq_ex(e, g), None => "(ELit VNull)".into() }
        ),
        Ex::Fn(f, args) => format!("(EFn F{:?} {})", f, coq_list(args, |x| coq_ex(x, g))),
    }
}

/// static type of a variable / expression, as far as the generator tracks it
#[derive(Clone, Copy, Debug, PartialEq)]
pub enum Ty { Node, Rel, Path, Int, Num, Str, Bool, ListInt, Any }

#[derive(Clone, Debug)]
pub struct Scope {
    pub vars: Vec<(usize, Ty, bool)>, // variable, type, nullable
    pub params: Vec<(usize, MV)>,
    /// property values present in the graph, per key (only those with a Cypher literal form)
    pub kvals: BTreeMap<String, Vec<MV>>,
}

/// the property values of a graph per key, for predicates that compare against values that occur
pub fn graph_values(g: &MGraph) -> BTreeMap<String, Vec<MV>> {
    let mut m: BTreeMap<String, Vec<MV>> = BTreeMap::new();
    for (_, _, ps) in &g.nodes { for (k, v) in ps { if cypher_lit(v).is_some() { m.entry(k.clone()).or_default().push(v.clone()); } } }
    for (_, ps) in &g.rprops { for (k, v) in ps { if cypher_lit(v).is_some() { m.entry(k.clone()).or_default().push(v.clone()); } } }
    m
}

pub struct ExGen<'a> {
    pub r: &'a mut Rng,
    pub sc: &'a Scope,
    /// allow expressions that can raise runtime errors on some rows
    pub allow_errors: bool,
    pub kinds: BTreeMap<String, u64>,
}

impl<'a> ExGen<'a> {
    pub fn new(r: &'a mut Rng, sc: &'a Scope, allow_errors: bool) -> Self {
        ExGen { r, sc, allow_errors, kinds: BTreeMap::new() }
    }
    fn note(&mut self, k: &str) { *self.kinds.entry(k.to_string()).or_insert(0) += 1; }
    fn vars_of(&self, t: Ty) -> Vec<usize> {
        self.sc.vars.iter().filter(|(_, ty, _)| *ty == t).map(|(v, _, _)| *v).collect()
    }
    fn lit_int(&mut self) -> Ex {
        let v = if self.r.chance(1, 6) { *self.r.pick(&INT_PALETTE) } else { self.r.range(-1, 4) };
        Ex::Lit(MV::Int(if v == i64::MIN { 0 } else { v }))
    }
    fn lit_float(&mut self) -> Ex {
        loop {
            let v = MV::Float(*self.r.pick(&FLOAT_PALETTE));
            if cypher_lit(&v).is_some() { return Ex::Lit(v); }
        }
    }
    fn lit_str(&mut self) -> Ex { Ex::Lit(MV::Str(self.r.pick(&STR_PALETTE).to_string())) }

    /// an expression of unknown dynamic type (property access, variables, literals of any kind)
    pub fn any(&mut self, d: u32) -> Ex {
        let nodes = self.vars_of(Ty::Node);
        let rels = self.vars_of(Ty::Rel);
        let anys = self.vars_of(Ty::Any);
        match self.r.below(12) {
            0..=3 if !nodes.is_empty() => { self.note("prop"); let k = if self.r.chance(1, 2) { "k" } else { *self.r.pick(&NODE_KEYS) }; Ex::Prop(*self.r.pick(&nodes), k.to_string()) }
            4 if !rels.is_empty() => { self.note("prop"); Ex::Prop(*self.r.pick(&rels), "w".to_string()) }
            5..=6 if !anys.is_empty() => Ex::Var(*self.r.pick(&anys)),
            7 if !self.sc.params.is_empty() => { self.note("param"); Ex::Param(self.r.pick(&self.sc.params).0) }
            8 => self.lit_str(),
            9 => self.lit_float(),
            10 if d > 0 => { self.note("coalesce"); Ex::Fn(Fun::Coalesce, vec![self.any(d - 1), self.any(d - 1)]) }
            11 if d > 0 => { self.note("case"); Ex::Case(vec![(self.pred(d - 1), self.any(d - 1))], if self.r.chance(1, 2) { Some(Box::new(self.any(d - 1))) } else { None }) }
            _ => if self.r.chance(1, 6) { Ex::Lit(MV::Null) } else { self.lit_int() },
        }
    }
    /// certainly an integer or null at run time
    pub fn int(&mut self, d: u32) -> Ex {
        let ints = self.vars_of(Ty::Int);
        let nodes = self.vars_of(Ty::Node);
        match self.r.below(9) {
            0..=1 if !ints.is_empty() => Ex::Var(*self.r.pick(&ints)),
            2 if !nodes.is_empty() => { self.note("id"); Ex::Fn(Fun::Id, vec![Ex::Var(*self.r.pick(&nodes))]) }
            3 if !nodes.is_empty() => { self.note("labels"); Ex::Fn(Fun::LabelsCount, vec![Ex::Var(*self.r.pick(&nodes))]) }
            4 if d > 0 => { self.note("size"); Ex::Fn(Fun::Size, vec![self.list(d - 1)]) }
            5 if d > 0 => { self.note("mod"); Ex::Bin(Bin::Mod, Box::new(self.int(d - 1)), Box::new(self.int(d - 1))) }
            6 if d > 0 => { self.note("sign"); Ex::Fn(Fun::Sign, vec![self.num(d - 1)]) }
            7 if d > 0 => { self.note("tointeger"); Ex::Fn(Fun::ToInteger, vec![self.num(d - 1)]) }
            _ => self.lit_int(),
        }
    }
    /// a number (int or float, NaN and infinities included) or null
    pub fn num(&mut self, d: u32) -> Ex {
        let nums = self.vars_of(Ty::Num);
        match self.r.below(10) {
            0..=2 => self.int(d),
            3 => self.lit_float(),
            4 if !nums.is_empty() => Ex::Var(*self.r.pick(&nums)),
            5..=6 if d > 0 => {
                self.note("arith");
                let o = *self.r.pick(&[Bin::Add, Bin::Sub, Bin::Mul, Bin::Div]);
                Ex::Bin(o, Box::new(self.num(d - 1)), Box::new(self.num(d - 1)))
            }
            7 if d > 0 => { self.note("neg"); Ex::Un(Un::Neg, Box::new(self.num(d - 1))) }
            8 if d > 0 => { self.note("abs"); Ex::Fn(Fun::Abs, vec![self.num(d - 1)]) }
            9 if d > 0 => { self.note("tofloat"); Ex::Fn(Fun::ToFloat, vec![self.num(d - 1)]) }
            _ => self.lit_int(),
        }
    }
    pub fn string(&mut self, d: u32) -> Ex {
        let strs = self.vars_of(Ty::Str);
        match self.r.below(5) {
            0 if !strs.is_empty() => Ex::Var(*self.r.pick(&strs)),
            1 if d > 0 => { self.note("concat"); Ex::Bin(Bin::Add, Box::new(self.string(d - 1)), Box::new(self.string(d - 1))) }
            _ => self.lit_str(),
        }
    }
    /// a list (elements of any kind) or null
    pub fn list(&mut self, d: u32) -> Ex {
        let lists = self.vars_of(Ty::ListInt);
        match self.r.below(8) {
            0 if !lists.is_empty() => Ex::Var(*self.r.pick(&lists)),
            1 if d > 0 => { self.note("range"); Ex::Fn(Fun::Range, vec![Ex::Lit(MV::Int(self.r.range(-1, 2))), Ex::Lit(MV::Int(self.r.range(0, 5)))]) }
            2 if d > 0 => { self.note("tail"); Ex::Fn(Fun::Tail, vec![self.list(d - 1)]) }
            3 if d > 0 => { self.note("reverse"); Ex::Fn(Fun::Reverse, vec![self.list(d - 1)]) }
            4 if d > 0 => { self.note("listcat"); Ex::Bin(Bin::Add, Box::new(self.list(d - 1)), Box::new(self.list(d - 1))) }
            _ => {
                let n = self.r.below(4) as usize;
                let dd = d.saturating_sub(1);
                Ex::List((0..n).map(|_| if self.r.chance(1, 2) { self.any(dd) } else { self.num(dd) }).collect())
            }
        }
    }
    /// a predicate shaped like what the planner pushes below the match (query_api/ast_walk.rs
    /// extract_predicates): a top-level AND / OR chain of `x.key = literal-or-parameter` atoms over values that
    /// occur in the graph, some atoms negated or replaced by an arbitrary predicate
    pub fn pushdown_pred(&mut self) -> Ex {
        let nodes = self.vars_of(Ty::Node);
        let rels = self.vars_of(Ty::Rel);
        let n = 2 + self.r.below(2) as usize;
        let mut atoms: Vec<Ex> = vec![];
        for _ in 0..n {
            let a = if nodes.is_empty() && rels.is_empty() || self.r.chance(1, 5) { self.pred(1) } else {
                let (x, k) = if !nodes.is_empty() && (rels.is_empty() || self.r.chance(3, 4)) { (*self.r.pick(&nodes), if self.r.chance(2, 3) { "k".to_string() } else { self.r.pick(&NODE_KEYS).to_string() }) } else { (*self.r.pick(&rels), "w".to_string()) };
                let pool: Vec<MV> = self.sc.kvals.get(&k).cloned().unwrap_or_default().into_iter().filter(|v| !matches!(v, MV::Int(i) if *i < 0) && !matches!(v, MV::Float(_) | MV::List(_))).collect();
                let rhs = if !self.sc.params.is_empty() && self.r.chance(1, 5) { Ex::Param(self.r.pick(&self.sc.params).0) }
                          else if pool.is_empty() { Ex::Lit(MV::Int(self.r.range(0, 3))) } else { Ex::Lit(self.r.pick(&pool).clone()) };
                let eq = if self.r.chance(1, 4) { Ex::Bin(Bin::Eq, Box::new(rhs), Box::new(Ex::Prop(x, k))) } else { Ex::Bin(Bin::Eq, Box::new(Ex::Prop(x, k)), Box::new(rhs)) };
                if self.r.chance(1, 6) { Ex::Un(Un::Not, Box::new(eq)) } else { eq }
            };
            atoms.push(a);
        }
        self.note("pushdown-shape");
        let mut e = atoms.pop().unwrap();
        while let Some(a) = atoms.pop() {
            let o = if self.r.chance(1, 2) { Bin::Or } else { Bin::And };
            e = Ex::Bin(o, Box::new(a), Box::new(e));
        }
        e
    }

    /// boolean-or-null by construction
    pub fn pred(&mut self, d: u32) -> Ex {
        let nodes = self.vars_of(Ty::Node);
        let bools = self.vars_of(Ty::Bool);
        let c = self.r.below(34);
        match c {
            0..=3 => {
                self.note("cmp");
                let o = *self.r.pick(&[Bin::Eq, Bin::Neq, Bin::Lt, Bin::Le, Bin::Gt, Bin::Ge]);
                let (a, b) = match self.r.below(3) {
                    0 => (self.any(d.saturating_sub(1)), self.any(d.saturating_sub(1))),
                    1 => (self.any(d.saturating_sub(1)), self.num(d.saturating_sub(1))),
                    _ => (self.num(d.saturating_sub(1)), self.num(d.saturating_sub(1))),
                };
                Ex::Bin(o, Box::new(a), Box::new(b))
            }
            4..=6 if d > 0 => {
                self.note("logic");
                let o = *self.r.pick(&[Bin::And, Bin::Or, Bin::Or, Bin::Xor]);
                // operands are negated a third of the time (NOT over null-valued comparisons)
                let side = |me: &mut Self| { let q = me.pred(d - 1); if me.r.chance(1, 3) { Ex::Un(Un::Not, Box::new(q)) } else { q } };
                let (l, rr) = (side(self), side(self));
                Ex::Bin(o, Box::new(l), Box::new(rr))
            }
            7 if d > 0 => { self.note("not"); Ex::Un(Un::Not, Box::new(self.pred(d - 1))) }
            8 => { self.note("isnull"); Ex::Un(if self.r.chance(1, 2) { Un::IsNull } else { Un::IsNotNull }, Box::new(self.any(d.saturating_sub(1)))) }
            9 => { self.note("in"); Ex::Bin(Bin::In, Box::new(self.any(d.saturating_sub(1))), Box::new(self.list(d.saturating_sub(1)))) }
            10 => {
                self.note("strop");
                let o = *self.r.pick(&[Bin::StartsWith, Bin::EndsWith, Bin::Contains]);
                let a = if self.r.chance(1, 2) { self.any(d.saturating_sub(1)) } else { self.string(d.saturating_sub(1)) };
                Ex::Bin(o, Box::new(a), Box::new(self.string(d.saturating_sub(1))))
            }
            11 if !nodes.is_empty() => { self.note("haslabel"); Ex::HasLabel(Box::new(Ex::Var(*self.r.pick(&nodes))), self.r.below(4) as usize) }
            12 if d > 0 => {
                self.note("case");
                Ex::Case(vec![(self.pred(d - 1), self.pred(d - 1))], if self.r.chance(2, 3) { Some(Box::new(self.pred(d - 1))) } else { None })
            }
            13 => {
                self.note("toboolean");
                // strings and booleans convert; with allow_errors the argument may be anything (runtime error on other types)
                let a = if self.allow_errors && self.r.chance(1, 2) { self.any(d.saturating_sub(1)) } else if self.r.chance(1, 2) { self.string(d.saturating_sub(1)) } else { self.pred(d.saturating_sub(1)) };
                Ex::Fn(Fun::ToBoolean, vec![a])
            }
            14 => {
                self.note("index");
                // list[int] = x ; with allow_errors the index may be anything
                let idx = if self.allow_errors && self.r.chance(1, 2) { self.any(d.saturating_sub(1)) } else { self.int(d.saturating_sub(1)) };
                Ex::Bin(Bin::Eq, Box::new(Ex::Fn(Fun::Index, vec![self.list(d.saturating_sub(1)), idx])), Box::new(self.any(d.saturating_sub(1))))
            }
            15 if !bools.is_empty() => Ex::Var(*self.r.pick(&bools)),
            16 => { self.note("headlast"); Ex::Bin(Bin::Eq, Box::new(Ex::Fn(if self.r.chance(1, 2) { Fun::Head } else { Fun::Last }, vec![self.list(d.saturating_sub(1))])), Box::new(self.any(d.saturating_sub(1)))) }
            17 => { self.note("boollit"); Ex::Lit(if self.r.chance(1, 3) { MV::Null } else { MV::Bool(self.r.chance(1, 2)) }) }
            24..=27 if !nodes.is_empty() || !self.vars_of(Ty::Rel).is_empty() => {
                // a property against a value that occurs in the graph under the same key (=, <>, <, >=, IN)
                self.note("graphvalue");
                let rels = self.vars_of(Ty::Rel);
                let (x, k) = if !nodes.is_empty() && (rels.is_empty() || self.r.chance(3, 4)) { (*self.r.pick(&nodes), self.r.pick(&NODE_KEYS).to_string()) } else { (*self.r.pick(&rels), "w".to_string()) };
                let pool: Vec<MV> = self.sc.kvals.get(&k).cloned().unwrap_or_default();
                let pick = |r: &mut Rng| if pool.is_empty() { MV::Int(r.range(0, 3)) } else { r.pick(&pool).clone() };
                if self.r.chance(1, 3) {
                    let n = 1 + self.r.below(3);
                    let mut items: Vec<Ex> = (0..n).map(|_| Ex::Lit(pick(self.r))).collect();
                    if self.r.chance(1, 4) { items.push(Ex::Lit(MV::Null)); }
                    Ex::Bin(Bin::In, Box::new(Ex::Prop(x, k)), Box::new(Ex::List(items)))
                } else {
                    let o = *self.r.pick(&[Bin::Eq, Bin::Eq, Bin::Neq, Bin::Lt, Bin::Ge]);
                    Ex::Bin(o, Box::new(Ex::Prop(x, k)), Box::new(Ex::Lit(pick(self.r))))
                }
            }
            28..=29 if self.sc.vars.iter().any(|(_, _, nullable)| *nullable) => {
                // IS NULL / IS NOT NULL on a variable that an OPTIONAL MATCH or UNWIND may have left null
                self.note("isnull-var");
                let nv: Vec<usize> = self.sc.vars.iter().filter(|(_, _, n)| *n).map(|(v, _, _)| *v).collect();
                Ex::Un(if self.r.chance(1, 2) { Un::IsNull } else { Un::IsNotNull }, Box::new(Ex::Var(*self.r.pick(&nv))))
            }
            30..=31 if !nodes.is_empty() => {
                // a string predicate over a string that occurs in the graph
                self.note("strop-graph");
                let strs: Vec<String> = self.sc.kvals.get("s").map(|vs| vs.iter().filter_map(|v| if let MV::Str(s) = v { Some(s.clone()) } else { None }).collect()).unwrap_or_default();
                let base = if strs.is_empty() { "a".to_string() } else { self.r.pick(&strs).clone() };
                let chars: Vec<char> = base.chars().collect();
                let cut = if chars.is_empty() { 0 } else { 1 + self.r.below(chars.len() as u64) as usize };
                let o = *self.r.pick(&[Bin::StartsWith, Bin::EndsWith, Bin::Contains]);
                let part: String = match o { Bin::EndsWith => chars[chars.len() - cut..].iter().collect(), _ => chars[..cut].iter().collect() };
                Ex::Bin(o, Box::new(Ex::Prop(*self.r.pick(&nodes), "s".to_string())), Box::new(Ex::Lit(MV::Str(part))))
            }
            _ => {
                // a numeric property against a small literal: varies between rows on most graphs
                self.note("cmp");
                let rels = self.vars_of(Ty::Rel);
                let o = *self.r.pick(&[Bin::Eq, Bin::Neq, Bin::Lt, Bin::Le, Bin::Gt, Bin::Ge]);
                let lhs = if !nodes.is_empty() && (rels.is_empty() || self.r.chance(2, 3)) { Ex::Prop(*self.r.pick(&nodes), "k".to_string()) }
                          else if !rels.is_empty() { Ex::Prop(*self.r.pick(&rels), "w".to_string()) }
                          else { self.any(d.saturating_sub(1)) };
                let rhs = if self.r.chance(3, 4) { Ex::Lit(MV::Int(self.r.range(0, 3))) } else { self.num(d.saturating_sub(1)) };
                Ex::Bin(o, Box::new(lhs), Box::new(rhs))
            }
        }
    }
}

// ------------------------------------------------------------------ running queries

#[derive(Clone, Debug, PartialEq)]
pub enum Outcome {
    Rows(Vec<Vec<MV>>),
    /// error class: 1 InvalidArgumentType, 2 InvalidArgumentValue, 3 resource limit, 4 other runtime, 5 prepare (syntax/type) error, 6 panic
    Err(u8, String),
}

pub fn classify_err(msg: &str) -> u8 {
    if msg.contains("ResourceLimitExceeded") { 3 }
    else if msg.contains("InvalidArgumentType") && msg.contains("runtime error") { 1 }
    else if msg.contains("InvalidArgumentValue") && msg.contains("runtime error") { 2 }
    else { 4 }
}

pub fn make_params(ps: &[(usize, MV)], opts: Option<ExecuteOptions>) -> Params {
    let mut params = Params::new();
    for (i, v) in ps { params.insert(param_name(*i), value_of_mv(v)); }
    if let Some(o) = opts { params.set_execute_options(o); }
    params
}

/// prepare + execute_streaming + collect::<Result<Vec<_>>>(); column values in RETURN order
pub fn run_query(db: &Db, q: &str, params: &Params) -> Outcome {
    let db_ref = std::panic::AssertUnwindSafe(db);
    let p_ref = std::panic::AssertUnwindSafe(params);
    let res = catch(move || {
        let prep = match prepare(q) {
            Ok(p) => p,
            Err(e) => return Outcome::Err(5, e.to_string()),
        };
        let snap = db_ref.snapshot();
        let mut rows = vec![];
        for item in prep.execute_streaming(&snap, &p_ref) {
            match item {
                Ok(row) => rows.push(row.columns().iter().map(|(_, v)| mv_of_value(v)).collect::<Vec<_>>()),
                Err(e) => { let m = e.to_string(); return Outcome::Err(classify_err(&m), m); }
            }
        }
        Outcome::Rows(rows)
    });
    match res { Ok(o) => o, Err(m) => Outcome::Err(6, m) }
}

pub fn canon_row(r: &[MV]) -> String { r.iter().map(canon).collect::<Vec<_>>().join("|") }
pub fn multiset(rows: &[Vec<MV>]) -> Vec<String> {
    let mut v: Vec<String> = rows.iter().map(|r| canon_row(r)).collect();
    v.sort();
    v
}

/// a row as a Coq `row`: column i is variable `vars[i]`
pub fn coq_row(r: &[MV], vars: &[usize]) -> String {
    let cells: Vec<String> = r.iter().enumerate().map(|(i, v)| format!("({}, {})", coq_n(*vars.get(i).unwrap_or(&(900 + i)) as u128), coq_value(v))).collect();
    format!("[{}]", cells.join("; "))
}
pub fn coq_rows(rows: &[Vec<MV>], vars: &[usize]) -> String {
    format!("[{}]", rows.iter().map(|r| coq_row(r, vars)).collect::<Vec<_>>().join("; "))
}
pub fn coq_outcome(o: &Outcome, vars: &[usize]) -> String {
    match o {
        Outcome::Rows(rows) => format!("(IRows {})", coq_rows(rows, vars)),
        Outcome::Err(c, _) => format!("(IErr {})", coq_n(*c as u128)),
    }
}
pub fn js_outcome(o: &Outcome) -> serde_json::Value {
    match o {
        Outcome::Rows(rows) => serde_json::json!({"rows": rows.iter().map(|r| canon_row(r)).collect::<Vec<_>>()}),
        Outcome::Err(c, m) => serde_json::json!({"error_class": c, "message": m}),
    }
}
pub fn coq_params(ps: &[(usize, MV)]) -> String {
    coq_list(ps, |(i, v)| format!("({}, {})", coq_n(*i as u128), coq_value(v)))
}
pub fn mentions_other(rows: &[Vec<MV>]) -> bool {
    fn other(v: &MV) -> bool {
        match v { MV::Other(_) => true, MV::List(l) => l.iter().any(other), MV::Map(m) => m.iter().any(|(_, v)| other(v)), _ => false }
    }
    rows.iter().any(|r| r.iter().any(other))
}

// ------------------------------------------------------------------ queries (mirror of Query/Clauses.v)

#[derive(Clone, Copy, Debug, PartialEq)]
pub enum Dir { Out, In, Both }
#[derive(Clone, Debug)]
pub struct NPat { pub var: usize, pub labels: Vec<usize> }
#[derive(Clone, Debug)]
pub struct RPat { pub var: usize, pub types: Vec<usize>, pub dir: Dir }
#[derive(Clone, Debug)]
pub struct Pattern { pub start: NPat, pub hops: Vec<(RPat, NPat)> }
#[derive(Clone, Debug, Default)]
pub struct Proj {
    pub items: Vec<(usize, Ex)>,
    pub distinct: bool,
    pub order: Vec<(Ex, bool)>,
    pub skip: Option<usize>,
    pub limit: Option<usize>,
}
#[derive(Clone, Debug)]
pub enum Agg { CountStar, Count(Ex), Sum(Ex), Min(Ex), Max(Ex), Collect(Ex) }
#[derive(Clone, Debug)]
pub enum Clause {
    Match(bool, Vec<Pattern>, Option<Ex>),
    Unwind(Ex, usize),
    With(Proj, Option<Ex>),
    /// keys, aggregates, projection over key/aggregate columns, WHERE; `ret` = printed as RETURN (no WHERE)
    Agg(Vec<(usize, Ex)>, Vec<(usize, Agg)>, Proj, Option<Ex>, bool),
    Return(Proj),
}
#[derive(Clone, Debug)]
pub enum Query { Single(Vec<Clause>), Union(bool, Box<Query>, Box<Query>) }

fn cy_npat(p: &NPat) -> String {
    format!("({}{})", var_name(p.var), p.labels.iter().map(|l| format!(":{}", label_name(*l))).collect::<String>())
}
fn cy_rpat(p: &RPat) -> String {
    let t = if p.types.is_empty() { String::new() } else { format!(":{}", p.types.iter().map(|t| TYPES[*t].to_string()).collect::<Vec<_>>().join("|")) };
    let body = format!("[{}{}]", var_name(p.var), t);
    match p.dir { Dir::Out => format!("-{}->", body), Dir::In => format!("<-{}-", body), Dir::Both => format!("-{}-", body) }
}
pub fn cy_pattern(p: &Pattern) -> String {
    let mut s = cy_npat(&p.start);
    for (r, n) in &p.hops { s.push_str(&cy_rpat(r)); s.push_str(&cy_npat(n)); }
    s
}
fn cy_agg(a: &Agg) -> String {
    match a {
        Agg::CountStar => "count(*)".into(),
        Agg::Count(e) => format!("count({})", cy_ex(e)),
        Agg::Sum(e) => format!("sum({})", cy_ex(e)),
        Agg::Min(e) => format!("min({})", cy_ex(e)),
        Agg::Max(e) => format!("max({})", cy_ex(e)),
        Agg::Collect(e) => format!("collect({})", cy_ex(e)),
    }
}
fn cy_proj_tail(p: &Proj) -> String {
    let mut s = String::new();
    if !p.order.is_empty() {
        s.push_str(" ORDER BY ");
        s.push_str(&p.order.iter().map(|(e, asc)| format!("{}{}", cy_ex(e), if *asc { "" } else { " DESC" })).collect::<Vec<_>>().join(", "));
    }
    if let Some(k) = p.skip { s.push_str(&format!(" SKIP {}", k)); }
    if let Some(k) = p.limit { s.push_str(&format!(" LIMIT {}", k)); }
    s
}
fn cy_proj(kw: &str, p: &Proj) -> String {
    format!("{}{} {}{}", kw, if p.distinct { " DISTINCT" } else { "" },
        p.items.iter().map(|(x, e)| format!("{} AS {}", cy_ex(e), var_name(*x))).collect::<Vec<_>>().join(", "), cy_proj_tail(p))
}
pub fn cy_clause(c: &Clause) -> String {
    match c {
        Clause::Match(opt, ps, w) => format!("{}MATCH {}{}", if *opt { "OPTIONAL " } else { "" },
            ps.iter().map(cy_pattern).collect::<Vec<_>>().join(", "),
            match w { Some(e) => format!(" WHERE {}", cy_ex(e)), None => String::new() }),
        Clause::Unwind(e, x) => format!("UNWIND {} AS {}", cy_ex(e), var_name(*x)),
        Clause::With(p, w) => format!("{}{}", cy_proj("WITH", p), match w { Some(e) => format!(" WHERE {}", cy_ex(e)), None => String::new() }),
        Clause::Agg(keys, aggs, p, w, ret) => {
            // the projection `p` is the identity over the key and aggregate columns, in this order
            let mut items: Vec<String> = keys.iter().map(|(x, e)| format!("{} AS {}", cy_ex(e), var_name(*x))).collect();
            items.extend(aggs.iter().map(|(x, a)| format!("{} AS {}", cy_agg(a), var_name(*x))));
            format!("{}{} {}{}{}", if *ret { "RETURN" } else { "WITH" }, if p.distinct { " DISTINCT" } else { "" }, items.join(", "), cy_proj_tail(p),
                match w { Some(e) => format!(" WHERE {}", cy_ex(e)), None => String::new() })
        }
        Clause::Return(p) => cy_proj("RETURN", p),
    }
}
pub fn cy_query(q: &Query) -> String {
    match q {
        Query::Single(cs) => cs.iter().map(cy_clause).collect::<Vec<_>>().join(" "),
        Query::Union(all, a, b) => format!("{} UNION{} {}", cy_query(a), if *all { " ALL" } else { "" }, cy_query(b)),
    }
}

fn coq_npat(p: &NPat, g: &MGraph) -> String {
    format!("(mk_npat {} {})", coq_n(p.var as u128), coq_list(&p.labels, |l| coq_n(label_model_id(g, *l) as u128)))
}
fn coq_rpat(p: &RPat, g: &MGraph) -> String {
    // a type that does not exist gets an id no relationship carries
    let ids: Vec<u32> = p.types.iter().map(|t| g.type_ids.get(*t).copied().flatten().unwrap_or(UNKNOWN_LABEL_BASE + 100 + *t as u32)).collect();
    format!("(mk_rpat {} {} {})", coq_n(p.var as u128), coq_list(&ids, |t| coq_n(*t as u128)), match p.dir { Dir::Out => "DOut", Dir::In => "DIn", Dir::Both => "DBoth" })
}
fn coq_pattern(p: &Pattern, g: &MGraph) -> String {
    format!("(mk_pattern {} {})", coq_npat(&p.start, g), coq_list(&p.hops, |(r, n)| format!("({}, {})", coq_rpat(r, g), coq_npat(n, g))))
}
fn coq_opt_nat(o: &Option<usize>) -> String { match o { Some(k) => format!("(Some {}%nat)", k), None => "None".into() } }
fn coq_opt_ex(o: &Option<Ex>, g: &MGraph) -> String { match o { Some(e) => format!("(Some {})", coq_ex(e, g)), None => "None".into() } }
fn coq_items(items: &[(usize, Ex)], g: &MGraph) -> String {
    coq_list(items, |(x, e)| format!("({}, {})", coq_n(*x as u128), coq_ex(e, g)))
}
fn coq_proj(p: &Proj, g: &MGraph) -> String {
    format!("(mk_proj {} {} {} {} {})", coq_items(&p.items, g), coq_bool(p.distinct),
        coq_list(&p.order, |(e, asc)| format!("({}, {})", coq_ex(e, g), coq_bool(*asc))), coq_opt_nat(&p.skip), coq_opt_nat(&p.limit))
}
fn coq_agg(a: &Agg, g: &MGraph) -> String {
    match a {
        Agg::CountStar => "ACountStar".into(),
        Agg::Count(e) => format!("(ACount {})", coq_ex(e, g)),
        Agg::Sum(e) => format!("(ASum {})", coq_ex(e, g)),
        Agg::Min(e) => format!("(AMin {})", coq_ex(e, g)),
        Agg::Max(e) => format!("(AMax {})", coq_ex(e, g)),
        Agg::Collect(e) => format!("(ACollect {})", coq_ex(e, g)),
    }
}
pub fn coq_clause(c: &Clause, g: &MGraph) -> String {
    match c {
        Clause::Match(opt, ps, w) => format!("(CMatch {} {} {})", coq_bool(*opt), coq_list(ps, |p| coq_pattern(p, g)), coq_opt_ex(w, g)),
        Clause::Unwind(e, x) => format!("(CUnwind {} {})", coq_ex(e, g), coq_n(*x as u128)),
        Clause::With(p, w) => format!("(CWith {} {})", coq_proj(p, g), coq_opt_ex(w, g)),
        Clause::Agg(keys, aggs, p, w, _) => format!("(CAgg {} {} {} {})", coq_items(keys, g),
            coq_list(aggs, |(x, a)| format!("({}, {})", coq_n(*x as u128), coq_agg(a, g))), coq_proj(p, g), coq_opt_ex(w, g)),
        Clause::Return(p) => format!("(CReturn {})", coq_proj(p, g)),
    }
}
pub fn coq_query(q: &Query, g: &MGraph) -> String {
    match q {
        Query::Single(cs) => format!("(QSingle {})", coq_list(cs, |c| coq_clause(c, g))),
        Query::Union(all, a, b) => format!("(QUnion {} {} {})", coq_bool(*all), coq_query(a, g), coq_query(b, g)),
    }
}
/// identity projection over columns `xs` (the `p` of an aggregating WITH/RETURN)
pub fn ident_proj(xs: &[usize]) -> Proj {
    Proj { items: xs.iter().map(|x| (*x, Ex::Var(*x))).collect(), ..Default::default() }
}
pub fn empty_mgraph() -> MGraph {
    MGraph { label_ids: vec![None; LABELS.len()], type_ids: vec![None; TYPES.len()], ..Default::default() }
}
