//! C22 — runtime errors are never swallowed: generated queries in which exactly one row raises a
//! runtime error, wrapped in every result operator.  Oracle on the engine: if the failing row is
//! consumed the query must report an error.  The same queries go to Coq, where the faithful model
//! (Query/Clauses.v) must predict the engine's outcome.
use hx_query::*;
use serde_json::json;
use std::collections::{BTreeMap, BTreeSet};
use vh::*;

/// an expression over v0 that raises a runtime error exactly on the "bad" value, and a pool of good values
fn failing(r: &mut Rng) -> (&'static str, Ex, MV, Vec<MV>) {
    let v = Ex::Var(0);
    match r.below(4) {
        0 => ("toBoolean(int)", Ex::Fn(Fun::ToBoolean, vec![v]), MV::Int(r.range(0, 5)),
              vec![MV::Str("true".into()), MV::Str("false".into()), MV::Bool(true), MV::Null, MV::Str("abc".into())]),
        1 => ("toInteger(bool)", Ex::Fn(Fun::ToInteger, vec![v]), MV::Bool(r.chance(1, 2)),
              vec![MV::Int(1), MV::Int(7), MV::Float(0x3FF8_0000_0000_0000), MV::Null, MV::Str("12".into())]),
        2 => ("toFloat(bool)", Ex::Fn(Fun::ToFloat, vec![v]), MV::Bool(r.chance(1, 2)),
              vec![MV::Int(1), MV::Int(2), MV::Float(0x3FF8_0000_0000_0000), MV::Null]),
        _ => ("list[string]", Ex::Fn(Fun::Index, vec![Ex::List(vec![Ex::Lit(MV::Int(10)), Ex::Lit(MV::Int(20)), Ex::Lit(MV::Int(30))]), v]), MV::Str("a".into()),
              vec![MV::Int(0), MV::Int(1), MV::Int(2), MV::Int(-1), MV::Null, MV::Int(9)]),
    }
}

fn proj1(e: Ex) -> Proj { Proj { items: vec![(1, e)], ..Default::default() } }

fn main() {
    quiet_panics();
    let a = args();
    let mut r = Rng::new(a.seed);
    let mut cw = CaseWriter::new(&a.out, "Corr.C22", 100);
    let mut rep = Report::new(&a.out);
    let mut hist = BTreeMap::<String, u64>::new();
    let mut nontrivial = BTreeSet::<String>::new();
    let mut fails = 0u64;
    let mut evaluations = 0u64;
    let ld = load_graph(&GSpec::default());
    let g = empty_mgraph();
    let params = make_params(&[], None);
    const WRAPPERS: usize = 30;

    // corpus first: the witnesses of the repaired defects (5cbdabf) and of the known finding
    let corpus: Vec<(usize, usize, usize)> = vec![(1, 0, 0), (3, 1, 0), (4, 0, 0), (9, 0, 1), (7, 1, 1), (8, 2, 1), (29, 0, 0), (21, 1, 0), (26, 0, 0)]; // (wrapper, bad position, k)

    for idx in 0..a.n {
        let (fname, f, bad, good) = failing(&mut r);
        let n = match r.below(9) { 0..=2 => 1, 3..=4 => 2, 5 => 3, 6 => 4, 7 => 5, _ => 8 } as usize;
        let pos = match r.below(3) { 0 => 0, 1 => n - 1, _ => r.below(n as u64) as usize };
        let (w, bad_pos, k) = if idx < corpus.len() { corpus[idx] } else { (idx % WRAPPERS, pos, r.below(n as u64 + 1) as usize) };
        let n = if idx < corpus.len() { n.max(3) } else { n };
        let bad_pos = bad_pos.min(n - 1);
        let mut vals: Vec<MV> = (0..n).map(|_| r.pick(&good).clone()).collect();
        vals[bad_pos] = bad.clone();
        let unwind = Clause::Unwind(Ex::List(vals.iter().map(|v| Ex::Lit(v.clone())).collect()), 0);
        let asc = r.chance(1, 2);
        // which rows does the wrapper pull?  all, except under a bare LIMIT
        let mut consumed = true;
        let mut ordered = false;
        let mut known: Option<&str> = None;
        let mut text_override: Option<String> = None;
        let (wname, q): (&str, Query) = match w {
            0 => ("return", Query::Single(vec![unwind, Clause::Return(proj1(f.clone()))])),
            1 => ("return-distinct", Query::Single(vec![unwind, Clause::Return(Proj { distinct: true, ..proj1(f.clone()) })])),
            2 => ("with-distinct", Query::Single(vec![unwind, Clause::With(Proj { distinct: true, ..proj1(f.clone()) }, None), Clause::Return(proj1(Ex::Var(1)))])),
            3 => ("union", Query::Union(false, Box::new(Query::Single(vec![unwind, Clause::Return(proj1(f.clone()))])), Box::new(Query::Single(vec![Clause::Return(proj1(Ex::Lit(MV::Bool(true))))])))),
            4 => ("union-right", Query::Union(false, Box::new(Query::Single(vec![Clause::Return(proj1(Ex::Lit(MV::Bool(true))))])), Box::new(Query::Single(vec![unwind, Clause::Return(proj1(f.clone()))])))),
            5 => ("union-all", Query::Union(true, Box::new(Query::Single(vec![unwind, Clause::Return(proj1(f.clone()))])), Box::new(Query::Single(vec![Clause::Return(proj1(Ex::Lit(MV::Int(1))))])))),
            6 => { ordered = true; ("order-by", Query::Single(vec![unwind, Clause::With(proj1(f.clone()), None), Clause::Return(Proj { order: vec![(Ex::Var(1), asc)], ..proj1(Ex::Var(1)) })])) }
            7 => { ordered = true; ("order-by-limit", Query::Single(vec![unwind, Clause::With(proj1(f.clone()), None), Clause::Return(Proj { order: vec![(Ex::Var(1), asc)], limit: Some(k.max(1)), ..proj1(Ex::Var(1)) })])) }
            8 => ("with-order-by-skip", Query::Single(vec![unwind, Clause::With(Proj { order: vec![(Ex::Var(1), asc)], skip: Some(k), ..proj1(f.clone()) }, None), Clause::Return(proj1(Ex::Var(1)))])),
            9 => ("skip", Query::Single(vec![unwind, Clause::With(Proj { skip: Some(k), ..proj1(f.clone()) }, None), Clause::Return(proj1(Ex::Var(1)))])),
            10 => ("return-skip", Query::Single(vec![unwind, Clause::Return(Proj { skip: Some(k), ..proj1(f.clone()) })])),
            11 => { consumed = bad_pos < k; ("limit", Query::Single(vec![unwind, Clause::Return(Proj { limit: Some(k), ..proj1(f.clone()) })])) }
            12 => { consumed = bad_pos < k; ("with-limit", Query::Single(vec![unwind, Clause::With(Proj { limit: Some(k), ..proj1(f.clone()) }, None), Clause::Return(proj1(Ex::Var(1)))])) }
            13 => ("count", Query::Single(vec![unwind, Clause::Agg(vec![], vec![(1, Agg::Count(f.clone()))], ident_proj(&[1]), None, true)])),
            14 => ("collect", Query::Single(vec![unwind, Clause::Agg(vec![], vec![(1, Agg::Collect(f.clone()))], ident_proj(&[1]), None, true)])),
            15 => ("min-max", Query::Single(vec![unwind, Clause::Agg(vec![], vec![(1, Agg::Min(f.clone())), (2, Agg::Max(f.clone()))], ident_proj(&[1, 2]), None, true)])),
            16 => ("aggregate-over-error-rows", Query::Single(vec![unwind, Clause::With(proj1(f.clone()), None), Clause::Agg(vec![], vec![(2, Agg::CountStar)], ident_proj(&[2]), None, true)])),
            17 => ("group-key", Query::Single(vec![unwind, Clause::Agg(vec![(1, f.clone())], vec![(2, Agg::CountStar)], ident_proj(&[1, 2]), None, true)])),
            18 => ("unwind", Query::Single(vec![unwind, Clause::With(proj1(f.clone()), None), Clause::Unwind(Ex::List(vec![Ex::Var(1)]), 2), Clause::Return(Proj { items: vec![(2, Ex::Var(2))], ..Default::default() })])),
            19 => ("unwind-expr", Query::Single(vec![unwind, Clause::Unwind(Ex::List(vec![f.clone()]), 1), Clause::Return(proj1(Ex::Var(1)))])),
            20 => ("where", Query::Single(vec![unwind, Clause::With(Proj { items: vec![(0, Ex::Var(0))], ..Default::default() }, Some(Ex::Un(Un::IsNotNull, Box::new(f.clone())))), Clause::Return(proj1(Ex::Var(0)))])),
            21 => ("count-star-then-collect", Query::Single(vec![unwind, Clause::Agg(vec![], vec![(1, Agg::CountStar), (2, Agg::Collect(f.clone()))], ident_proj(&[1, 2]), None, true)])),
            22 => ("count-star-then-count", Query::Single(vec![unwind, Clause::Agg(vec![], vec![(1, Agg::CountStar), (2, Agg::Count(f.clone()))], ident_proj(&[1, 2]), None, true)])),
            23 => ("collect-then-count-star", Query::Single(vec![unwind, Clause::Agg(vec![], vec![(1, Agg::Collect(f.clone())), (2, Agg::CountStar)], ident_proj(&[1, 2]), None, true)])),
            24 => ("three-aggregates-failing-last", Query::Single(vec![unwind, Clause::Agg(vec![], vec![(1, Agg::Count(Ex::Var(0))), (2, Agg::CountStar), (3, Agg::Max(f.clone()))], ident_proj(&[1, 2, 3]), None, true)])),
            25 => ("with-count-star-then-min", Query::Single(vec![unwind, Clause::Agg(vec![], vec![(1, Agg::CountStar), (2, Agg::Min(f.clone()))], ident_proj(&[1, 2]), None, false), Clause::Return(Proj { items: vec![(1, Ex::Var(1)), (2, Ex::Var(2))], ..Default::default() })])),
            26 => {
                // the failing expression is only a sort key (over the projected column), never projected
                let key = match &f { Ex::Fn(fun, args) => { let mut a = args.clone(); let last = a.len() - 1; a[last] = Ex::Var(1); Ex::Fn(*fun, a) } other => other.clone() };
                ("order-by-unprojected-key", Query::Single(vec![unwind, Clause::Return(Proj { order: vec![(key, asc)], ..proj1(Ex::Var(0)) })]))
            }
            27 => {
                let key = match &f { Ex::Fn(fun, args) => { let mut a = args.clone(); let last = a.len() - 1; a[last] = Ex::Var(1); Ex::Fn(*fun, a) } other => other.clone() };
                ("with-order-by-unprojected-key", Query::Single(vec![unwind, Clause::With(Proj { order: vec![(key, asc)], ..proj1(Ex::Var(0)) }, None), Clause::Return(proj1(Ex::Var(1)))]))
            }
            28 => {
                // the sort key reads the input variable, which the projection does not keep (pass-through column in the plan): engine only
                let lits = vals.iter().map(|v| cypher_lit(v).unwrap()).collect::<Vec<_>>().join(", ");
                text_override = Some(format!("UNWIND [{}] AS v0 RETURN v0 AS v1 ORDER BY {}{}", lits, cy_ex(&f), if asc { "" } else { " DESC" }));
                ("order-by-input-variable-key", Query::Single(vec![]))
            }
            _ => {
                // K-C22-exists: the failing expression sits inside an EXISTS { } subquery (not in the Coq query language)
                known = Some("K-C22-exists");
                let lits = vals.iter().map(|v| cypher_lit(v).unwrap()).collect::<Vec<_>>().join(", ");
                text_override = Some(format!("UNWIND [{}] AS v0 WITH v0 WHERE EXISTS {{ WITH v0 RETURN {} AS v1 }} RETURN v0 AS v1", lits, cy_ex(&f)));
                ("exists-subquery", Query::Single(vec![]))
            }
        };
        let text = text_override.clone().unwrap_or_else(|| cy_query(&q));
        let out = run_query(&ld.db, &text, &params);
        evaluations += 1;
        *hist.entry(format!("wrapper:{}", wname)).or_insert(0) += 1;
        *hist.entry(format!("failing:{}", fname)).or_insert(0) += 1;
        *hist.entry(format!("rows:{}", if n >= 4 { "many".to_string() } else { n.to_string() })).or_insert(0) += 1;
        *hist.entry(format!("failing-row-position:{}", if n == 1 { "only" } else if bad_pos == 0 { "first" } else if bad_pos == n - 1 { "last" } else { "middle" })).or_insert(0) += 1;
        *hist.entry(match &out { Outcome::Rows(_) => "outcome:rows".to_string(), Outcome::Err(c, _) => format!("outcome:error-class-{}", c) }).or_insert(0) += 1;
        *hist.entry(if consumed { "failing-row:consumed" } else { "failing-row:beyond-limit" }.to_string()).or_insert(0) += 1;
        let input = json!({"query": text, "wrapper": wname, "failing_expression": fname, "bad_position": bad_pos, "k": k, "consumed": consumed, "outcome": js_outcome(&out)});
        if idx < 6 { rep.case(idx, input.clone()); }
        if let Outcome::Err(5, m) = &out {
            // the generator must not produce queries the compiler rejects: that would silently weaken the check
            fails += 1;
            rep.fail(idx, None, &format!("generated query rejected at prepare: {}", m), input.clone());
            continue;
        }
        nontrivial.insert(text.clone());
        // ---- direct search: the property on the engine's outcome
        if consumed {
            match &out {
                Outcome::Err(1, _) | Outcome::Err(2, _) => {}
                Outcome::Rows(_) => {
                    fails += 1;
                    rep.fail(idx, known, "a consumed row raises a runtime error but the query returns rows (error swallowed)", input.clone());
                }
                Outcome::Err(c, m) => {
                    fails += 1;
                    rep.fail(idx, None, &format!("unexpected error class {}: {}", c, m), input.clone());
                }
            }
        }
        // ---- the same query for the faithful model
        if text_override.is_none() {
            cw.push(format!("{{| cg := {}; cquery := {}; cordered := {}; i_out := {} |}}", coq_graph(&g), coq_query(&q, &g), coq_bool(ordered), coq_outcome(&out, &[1, 2])));
        }
    }
    cw.flush();
    rep.stats(json!({
        "evaluations": evaluations,
        "corr_cases": cw.total,
        "distinct_nontrivial": nontrivial.len(),
        "rule": "UNWIND of 1, 2, 3-5 or 8 literals (one row a third of the time) of which exactly one - first, last, only or anywhere - makes toBoolean/toInteger/toFloat/list-index raise a runtime error, at a random position, wrapped in one of 30 operator contexts (multi-aggregate projections with count(*) before / after the failing aggregate, ORDER BY keys that are not projected, RETURN, DISTINCT, UNION left/right/ALL, ORDER BY with and without LIMIT/SKIP, SKIP, LIMIT, count/collect/min/max, aggregation over error rows, grouping key, UNWIND, WHERE, EXISTS subquery); non-trivial = accepted by the compiler, distinct by query text",
        "histogram": hist,
        "direct_failures": fails,
        "case_files": cw.files.iter().map(|p| p.to_string_lossy().to_string()).collect::<Vec<_>>(),
    }));
    rep.finish();
}
