//! scratch probe: run Cypher statements given on the command line against a small fixed graph
use nervusdb::Db;
use nervusdb::query::{ExecuteOptions, Params, WriteableGraph, prepare};
use nervusdb_api::{GraphSnapshot, PropertyValue};

fn main() {
    let dir = tempfile::tempdir().unwrap();
    let db = Db::open(dir.path().join("p.ndb")).unwrap();
    {
        let mut txn = db.begin_write();
        let l0 = txn.get_or_create_label("L0").unwrap();
        let l1 = txn.get_or_create_label("L1").unwrap();
        let t0 = txn.get_or_create_rel_type("T0").unwrap();
        let t1 = txn.get_or_create_rel_type("T1").unwrap();
        let a = txn.create_node(1, l0).unwrap();
        let b = txn.create_node(2, l1).unwrap();
        let c = txn.create_node(3, u32::MAX).unwrap();
        WriteableGraph::add_node_label(&mut txn, a, l1).unwrap();
        txn.set_node_property(a, "k".into(), PropertyValue::Int(1)).unwrap();
        txn.set_node_property(b, "k".into(), PropertyValue::Float(f64::NAN)).unwrap();
        txn.set_node_property(c, "s".into(), PropertyValue::String("abc".into())).unwrap();
        txn.create_edge(a, t0, b);
        txn.create_edge(a, t0, b);
        txn.create_edge(a, t1, a);
        txn.create_edge(b, t1, c);
        txn.set_edge_property(a, t0, b, "w".into(), PropertyValue::Int(7)).unwrap();
        txn.commit().unwrap();
    }
    let snap = db.snapshot();
    println!("nodes: {:?}", snap.nodes().collect::<Vec<_>>());
    for n in snap.nodes() {
        println!(" {} labels {:?} out {:?} in {:?}", n, snap.resolve_node_labels(n), snap.neighbors(n, None).collect::<Vec<_>>(), snap.incoming_neighbors(n, None).collect::<Vec<_>>());
    }
    let mut mir = 0usize;
    let mut mc = 0usize;
    for q in std::env::args().skip(1) {
        if let Some(v) = q.strip_prefix("--rows=") { mir = v.parse().unwrap(); continue; }
        if let Some(v) = q.strip_prefix("--coll=") { mc = v.parse().unwrap(); continue; }
        let mut params = Params::new();
        let mut o = ExecuteOptions::default();
        if mir > 0 { o.max_intermediate_rows = mir; }
        if mc > 0 { o.max_collection_items = mc; }
        params.set_execute_options(o);
        params.insert("p", nervusdb::query::Value::Int(1));
        println!("Q: {}", q);
        match prepare(&q) {
            Err(e) => println!("  PREPARE-ERR {}", e),
            Ok(p) => {
                if let Some(s) = p.explain_string() { println!("{}", s); }
                for r in p.execute_streaming(&snap, &params) {
                    match r { Ok(row) => println!("  {:?}", row.columns()), Err(e) => println!("  ERR {}", e) }
                }
            }
        }
    }
}
