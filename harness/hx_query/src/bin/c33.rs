//! C33 — execution limits fail cleanly: generated queries with large intermediate results
//! (cartesian products, UNWIND of ranges, expansions, aggregation) run without limits and under
//! random row / collection limits.  Oracle on the engine: the limited outcome is the identical
//! complete result or a resource-limit error.  Coq: the faithful model (unlimited) must equal the
//! engine's unlimited result, a limited result must equal it too.
use hx_query::*;
use nervusdb::query::ExecuteOptions;
use serde_json::json;
use std::collections::{BTreeMap, BTreeSet};
use vh::*;

fn range_ex(lo: i64, hi: i64) -> Ex { Ex::Fn(Fun::Range, vec![Ex::Lit(MV::Int(lo)), Ex::Lit(MV::Int(hi))]) }
fn ret(items: Vec<(usize, Ex)>) -> Proj { Proj { items, ..Default::default() } }
fn hop(a: usize, r: usize, b: usize, dir: Dir) -> Pattern {
    Pattern { start: NPat { var: a, labels: vec![] }, hops: vec![(RPat { var: r, types: vec![], dir }, NPat { var: b, labels: vec![] })] }
}

fn main() {
    quiet_panics();
    let a = args();
    let mut r = Rng::new(a.seed);
    let mut cw = CaseWriter::new(&a.out, "Corr.C33", 40);
    let mut rep = Report::new(&a.out);
    let mut hist = BTreeMap::<String, u64>::new();
    let mut nontrivial = BTreeSet::<String>::new();
    let mut fails = 0u64;
    let mut evaluations = 0u64;
    let mut loaded: Option<Loaded> = None;
    const SHAPES: usize = 10;
    for idx in 0..a.n {
        if idx % 10 == 0 || loaded.is_none() { loaded = Some(load_graph(&gen_graph(&mut r, true))); }
        let ld = loaded.as_ref().unwrap();
        let (x, y) = (r.range(1, 20), r.range(1, 20));
        let mut ordered = false;
        let mut direct_only: Option<String> = None;
        // corpus first: the probe of DESIGN.md §8 (truncated result under DISTINCT before 5cbdabf)
        let shape = if idx == 0 { 1 } else { idx % SHAPES };
        let (x, y) = if idx == 0 { (20, 20) } else { (x, y) };
        let (sname, q): (&str, Query) = match shape {
            0 => ("cartesian", Query::Single(vec![Clause::Unwind(range_ex(1, x), 0), Clause::Unwind(range_ex(1, y), 1), Clause::Return(ret(vec![(2, Ex::Var(0)), (3, Ex::Var(1))]))])),
            1 => ("cartesian-distinct", Query::Single(vec![Clause::Unwind(range_ex(1, x), 0), Clause::Unwind(range_ex(1, y), 1), Clause::Return(Proj { distinct: true, ..ret(vec![(2, Ex::Var(0))]) })])),
            2 => ("aggregate", Query::Single(vec![Clause::Unwind(range_ex(1, x * 3), 0), Clause::Agg(vec![(1, Ex::Bin(Bin::Mod, Box::new(Ex::Var(0)), Box::new(Ex::Lit(MV::Int(3)))))], vec![(2, Agg::CountStar), (3, Agg::Sum(Ex::Var(0)))], ident_proj(&[1, 2, 3]), None, true)])),
            3 => ("collect", Query::Single(vec![Clause::Unwind(range_ex(1, x * 2), 0), Clause::Agg(vec![], vec![(1, Agg::Collect(Ex::Var(0)))], ident_proj(&[1]), None, true)])),
            4 => { ordered = true; ("order-by-limit", Query::Single(vec![Clause::Unwind(range_ex(1, x * 2), 0), Clause::Return(Proj { order: vec![(Ex::Var(1), false)], limit: Some(y as usize), ..ret(vec![(1, Ex::Var(0))]) })])) }
            5 => ("skip", Query::Single(vec![Clause::Unwind(range_ex(1, x * 2), 0), Clause::With(Proj { skip: Some(y as usize), ..ret(vec![(1, Ex::Var(0))]) }, None), Clause::Return(ret(vec![(1, Ex::Var(1))]))])),
            6 => ("union", Query::Union(false, Box::new(Query::Single(vec![Clause::Unwind(range_ex(1, x), 0), Clause::Return(ret(vec![(1, Ex::Var(0))]))])), Box::new(Query::Single(vec![Clause::Unwind(range_ex(1, y), 0), Clause::Return(ret(vec![(1, Ex::Var(0))]))])))),
            7 => ("expand-x-unwind", Query::Single(vec![Clause::Match(false, vec![hop(0, 1, 2, Dir::Out)], None), Clause::Unwind(range_ex(1, x), 3), Clause::Return(ret(vec![(4, Ex::Var(0)), (5, Ex::Var(2)), (6, Ex::Var(3))]))])),
            8 => ("two-hop-count", Query::Single(vec![Clause::Match(false, vec![Pattern { start: NPat { var: 0, labels: vec![] }, hops: vec![(RPat { var: 1, types: vec![], dir: Dir::Both }, NPat { var: 2, labels: vec![] }), (RPat { var: 3, types: vec![], dir: Dir::Both }, NPat { var: 4, labels: vec![] })] }], None), Clause::Agg(vec![(5, Ex::Var(0))], vec![(6, Agg::CountStar)], ident_proj(&[5, 6]), None, true)])),
            _ => { direct_only = Some(format!("MATCH (v0)-[*1..{}]-(v2) RETURN v0 AS v3, count(*) AS v4", 1 + x % 3)); ("var-length-count", Query::Single(vec![])) }
        };
        let text = direct_only.clone().unwrap_or_else(|| cy_query(&q));
        let mir = match r.below(4) { 0 => r.range(1, 10), 1 => r.range(10, 60), 2 => r.range(60, 400), _ => 1_000_000 } as usize;
        let mci = match r.below(3) { 0 => r.range(1, 15), 1 => r.range(15, 60), _ => 1_000_000 } as usize;
        let (mir, mci) = if idx == 0 { (50, 1_000_000) } else { (mir, mci) };
        let o_full = run_query(&ld.db, &text, &make_params(&[], None));
        let opts = ExecuteOptions { max_intermediate_rows: mir, max_collection_items: mci, soft_timeout_ms: 0, max_apply_rows_per_outer: 200_000 };
        let o_lim = run_query(&ld.db, &text, &make_params(&[], Some(opts)));
        evaluations += 2;
        *hist.entry(format!("shape:{}", sname)).or_insert(0) += 1;
        let input = json!({"query": text, "graph": js_graph(&ld.g), "max_intermediate_rows": mir, "max_collection_items": mci, "unlimited": js_outcome(&o_full), "limited": js_outcome(&o_lim)});
        if idx < 4 { rep.case(idx, input.clone()); }
        let full_rows = match &o_full {
            Outcome::Rows(rows) => rows.clone(),
            Outcome::Err(c, m) => { fails += 1; rep.fail(idx, None, &format!("the unlimited run fails (class {}): {}", c, m), input.clone()); continue; }
        };
        nontrivial.insert(format!("{}|{}|{}", text, mir, mci));
        // ---- direct search: complete result or resource-limit error, nothing else
        match &o_lim {
            Outcome::Rows(rows) => {
                *hist.entry("limited:complete-result".into()).or_insert(0) += 1;
                let same = if ordered { rows.iter().map(|x| canon_row(x)).collect::<Vec<_>>() == full_rows.iter().map(|x| canon_row(x)).collect::<Vec<_>>() } else { multiset(rows) == multiset(&full_rows) };
                if !same {
                    fails += 1;
                    rep.fail(idx, None, &format!("the limited run returns {} rows that are not the complete result ({} rows): silently truncated or altered", rows.len(), full_rows.len()), input.clone());
                }
            }
            Outcome::Err(3, m) => {
                let kind = if m.contains("IntermediateRows") { "rows" } else if m.contains("CollectionItems") { "collection" } else { "other" };
                *hist.entry(format!("limited:limit-error-{}", kind)).or_insert(0) += 1;
            }
            Outcome::Err(c, m) => { fails += 1; rep.fail(idx, None, &format!("the limited run fails with a non-limit error (class {}): {}", c, m), input.clone()); }
        }
        if direct_only.is_none() {
            cw.push(format!("{{| cg := {}; cquery := {}; cordered := {}; i_full := {}; i_lim := {} |}}", coq_graph(&ld.g), coq_query(&q, &ld.g), coq_bool(ordered),
                coq_outcome(&o_full, &[10, 11, 12]), coq_outcome(&o_lim, &[10, 11, 12])));
        }
    }
    cw.flush();
    rep.stats(json!({
        "evaluations": evaluations,
        "corr_cases": cw.total,
        "distinct_nontrivial": nontrivial.len(),
        "rule": "10 query shapes with large intermediate results (cartesian UNWIND of ranges with and without DISTINCT, grouped aggregation, collect, ORDER BY+LIMIT, SKIP, UNION, expansion x UNWIND, two undirected hops + count, variable-length expansion + count) on random graphs, each run with default options and with random max_intermediate_rows (1..400 or off) and max_collection_items (1..60 or off), soft timeout off; non-trivial = unlimited run succeeds, distinct by (query, limits)",
        "histogram": hist,
        "direct_failures": fails,
        "case_files": cw.files.iter().map(|p| p.to_string_lossy().to_string()).collect::<Vec<_>>(),
    }));
    rep.finish();
}
