//! C33 — execution limits fail cleanly: generated queries with large intermediate results
//! (cartesian products, UNWIND of ranges, expansions, aggregation) run without limits and under
//! random row / collection limits.  Oracle on the engine: the limited outcome is the identical
//! complete result or a resource-limit error.  Coq: the faithful model (unlimited) must equal the
//! engine's unlimited result, a limited result must equal it too.
use hx_query::*;
use nervusdb::query::ExecuteOptions;
use serde_json::json;
use std::collections::{BTreeMap, BTreeSet};
use vh::*;

fn range_ex(lo: i64, hi: i64) -> Ex { Ex::Fn(Fun::Range, vec![Ex::Lit(MV::Int(lo)), Ex::Lit(MV::Int(hi))]) }
fn ret(items: Vec<(usize, Ex)>) -> Proj { Proj { items, ..Default::default() } }
fn hop(a: usize, r: usize, b: usize, dir: Dir) -> Pattern {
    Pattern { start: NPat { var: a, labels: vec![] }, hops: vec![(RPat { var: r, types: vec![], dir }, NPat { var: b, labels: vec![] })] }
}

fn main() {
    quiet_panics();
    let a = args();
    let mut r = Rng::new(a.seed);
    let mut cw = CaseWriter::new(&a.out, "Corr.C33", 40);
    let mut rep = Report::new(&a.out);
    let mut hist = BTreeMap::<String, u64>::new();
    let mut nontrivial = BTreeSet::<String>::new();
    let mut fails = 0u64;
    let mut evaluations = 0u64;
    let mut loaded: Option<Loaded> = None;
    const SHAPES: usize = 14;
    for idx in 0..a.n {
        if idx % 10 == 0 || loaded.is_none() { loaded = Some(load_graph(&gen_graph(&mut r, true))); }
        let ld = loaded.as_ref().unwrap();
        let (x, y) = (r.range(1, 20), r.range(1, 20));
        let mut ordered = false;
        let mut direct_only: Option<String> = None;
        // lower bounds known by construction: rows some plan node certainly emits, a collection certainly built, rows per outer row of a CALL
        let (mut min_rows, mut min_coll, mut per_outer) = (0usize, 0usize, 0usize);
        let mut known: Option<&str> = None;
        // corpus first: the probe of DESIGN.md §8 (truncated result under DISTINCT before 5cbdabf)
        let shape = if idx == 0 { 1 } else { idx % SHAPES };
        let (x, y) = if idx == 0 { (20, 20) } else { (x, y) };
        let (sname, q): (&str, Query) = match shape {
            0 => ("cartesian", Query::Single(vec![Clause::Unwind(range_ex(1, x), 0), Clause::Unwind(range_ex(1, y), 1), Clause::Return(ret(vec![(2, Ex::Var(0)), (3, Ex::Var(1))]))])),
            1 => ("cartesian-distinct", Query::Single(vec![Clause::Unwind(range_ex(1, x), 0), Clause::Unwind(range_ex(1, y), 1), Clause::Return(Proj { distinct: true, ..ret(vec![(2, Ex::Var(0))]) })])),
            2 => ("aggregate", Query::Single(vec![Clause::Unwind(range_ex(1, x * 3), 0), Clause::Agg(vec![(1, Ex::Bin(Bin::Mod, Box::new(Ex::Var(0)), Box::new(Ex::Lit(MV::Int(3)))))], vec![(2, Agg::CountStar), (3, Agg::Sum(Ex::Var(0)))], ident_proj(&[1, 2, 3]), None, true)])),
            3 => ("collect", Query::Single(vec![Clause::Unwind(range_ex(1, x * 2), 0), Clause::Agg(vec![], vec![(1, Agg::Collect(Ex::Var(0)))], ident_proj(&[1]), None, true)])),
            4 => { ordered = true; ("order-by-limit", Query::Single(vec![Clause::Unwind(range_ex(1, x * 2), 0), Clause::Return(Proj { order: vec![(Ex::Var(1), false)], limit: Some(y as usize), ..ret(vec![(1, Ex::Var(0))]) })])) }
            5 => ("skip", Query::Single(vec![Clause::Unwind(range_ex(1, x * 2), 0), Clause::With(Proj { skip: Some(y as usize), ..ret(vec![(1, Ex::Var(0))]) }, None), Clause::Return(ret(vec![(1, Ex::Var(1))]))])),
            6 => ("union", Query::Union(false, Box::new(Query::Single(vec![Clause::Unwind(range_ex(1, x), 0), Clause::Return(ret(vec![(1, Ex::Var(0))]))])), Box::new(Query::Single(vec![Clause::Unwind(range_ex(1, y), 0), Clause::Return(ret(vec![(1, Ex::Var(0))]))])))),
            7 => ("expand-x-unwind", Query::Single(vec![Clause::Match(false, vec![hop(0, 1, 2, Dir::Out)], None), Clause::Unwind(range_ex(1, x), 3), Clause::Return(ret(vec![(4, Ex::Var(0)), (5, Ex::Var(2)), (6, Ex::Var(3))]))])),
            8 => ("two-hop-count", Query::Single(vec![Clause::Match(false, vec![Pattern { start: NPat { var: 0, labels: vec![] }, hops: vec![(RPat { var: 1, types: vec![], dir: Dir::Both }, NPat { var: 2, labels: vec![] }), (RPat { var: 3, types: vec![], dir: Dir::Both }, NPat { var: 4, labels: vec![] })] }], None), Clause::Agg(vec![(5, Ex::Var(0))], vec![(6, Agg::CountStar)], ident_proj(&[5, 6]), None, true)])),
            9 => { direct_only = Some(format!("MATCH (v0)-[*1..{}]-(v2) RETURN v0 AS v3, count(*) AS v4", 1 + x % 3)); ("var-length-count", Query::Single(vec![])) }
            10 => {
                // CALL { } subquery: y rows per outer row
                per_outer = y as usize; min_rows = (x * y) as usize; min_coll = x.max(y) as usize;
                direct_only = Some(format!("UNWIND range(1, {}) AS v0 CALL {{ WITH v0 UNWIND range(1, {}) AS v1 RETURN v1 }} RETURN v0 AS v2, v1 AS v3", x, y));
                ("call-subquery", Query::Single(vec![]))
            }
            11 => {
                // x outer rows, each subquery run emits y+3 rows of which one reaches the outer query: the query-wide sum
                // x * (y+3) exceeds a limit that no single subquery run exceeds
                let z = y + 3;
                min_rows = (x * z) as usize; min_coll = x.max(z) as usize; per_outer = 1;
                direct_only = Some(format!("UNWIND range(1, {}) AS v0 CALL {{ WITH v0 UNWIND range(1, {}) AS v1 RETURN count(v1) AS v2 }} RETURN v0 AS v3, v2 AS v4", x, z));
                ("call-aggregating-subquery", Query::Single(vec![]))
            }
            12 => {
                // EXISTS { } pulls the first row of the subquery, which appears only after y+3 unwound rows, once per outer row
                known = Some("K-C33-exists");
                let z = y + 3;
                min_rows = (x * z) as usize; min_coll = x.max(z) as usize;
                direct_only = Some(format!("UNWIND range(1, {x}) AS v0 WITH v0 WHERE EXISTS {{ WITH v0 UNWIND range(1, {n}) AS v1 WITH v1 WHERE v1 >= {n} RETURN v1 }} RETURN v0 AS v2", x = x, n = z));
                ("exists-subquery-rows", Query::Single(vec![]))
            }
            _ => {
                // K-C33-exists: a limit error raised inside EXISTS { } becomes NULL and the row is dropped (same root as K-C22-exists)
                known = Some("K-C33-exists");
                min_coll = (5 * y) as usize;
                direct_only = Some(format!("UNWIND [1, 2] AS v0 WITH v0 WHERE EXISTS {{ WITH v0 RETURN size(range(1, {})) AS v1 }} RETURN v0 AS v2", 5 * y));
                ("exists-subquery-collection", Query::Single(vec![]))
            }
        };
        match shape {
            0 | 1 => { min_rows = (x * y) as usize; min_coll = x.max(y) as usize; }
            2 => { min_rows = (3 * x) as usize; min_coll = (3 * x) as usize; }
            3 | 4 | 5 => { min_rows = (2 * x) as usize; min_coll = (2 * x) as usize; }
            6 => { min_rows = (x + y) as usize; min_coll = x.max(y) as usize; }
            _ => {}
        }
        let text = direct_only.clone().unwrap_or_else(|| cy_query(&q));
        let mir = match r.below(4) { 0 => r.range(1, 10), 1 => r.range(10, 60), 2 => r.range(60, 400), _ => 1_000_000 } as usize;
        let mci = match r.below(3) { 0 => r.range(1, 15), 1 => r.range(15, 60), _ => 1_000_000 } as usize;
        let (mir, mci) = if idx == 0 { (50, 1_000_000) } else { (mir, mci) };
        let o_full = run_query(&ld.db, &text, &make_params(&[], None));
        let cap = match r.below(4) { 0 => r.range(1, 12) as usize, 1 => usize::MAX, 2 => usize::MAX - 1, _ => 200_000 };
        let opts = ExecuteOptions { max_intermediate_rows: mir, max_collection_items: mci, soft_timeout_ms: 0, max_apply_rows_per_outer: cap };
        let o_lim = run_query(&ld.db, &text, &make_params(&[], Some(opts)));
        evaluations += 2;
        *hist.entry(format!("shape:{}", sname)).or_insert(0) += 1;
        let input = json!({"query": text, "graph": js_graph(&ld.g), "max_intermediate_rows": mir, "max_collection_items": mci, "max_apply_rows_per_outer": cap.to_string(), "unlimited": js_outcome(&o_full), "limited": js_outcome(&o_lim)});
        if idx < 4 { rep.case(idx, input.clone()); }
        let full_rows = match &o_full {
            Outcome::Rows(rows) => rows.clone(),
            Outcome::Err(c, m) => { fails += 1; rep.fail(idx, None, &format!("the unlimited run fails (class {}): {}", c, m), input.clone()); continue; }
        };
        nontrivial.insert(format!("{}|{}|{}", text, mir, mci));
        // ---- direct search: complete result or resource-limit error, nothing else
        // the limits must be enforced: if by construction more rows are emitted / a larger collection is built / a CALL returns more
        // rows per outer row than allowed, the outcome must be the resource-limit error (also inside CALL { } and EXISTS { })
        let must_fail = min_rows.max(full_rows.len()) > mir || min_coll > mci || per_outer > cap;
        if must_fail { *hist.entry("limits:certainly-exceeded".into()).or_insert(0) += 1; }
        match &o_lim {
            Outcome::Rows(rows) => {
                let same = if ordered { rows.iter().map(|x| canon_row(x)).collect::<Vec<_>>() == full_rows.iter().map(|x| canon_row(x)).collect::<Vec<_>>() } else { multiset(rows) == multiset(&full_rows) };
                // the known class covers only its symptom: rows are MISSING because the limit error inside EXISTS { } became NULL;
                // a complete result although a limit is certainly exceeded (limit not enforced) is never tagged
                let tag = if !same && rows.len() < full_rows.len() { known } else { None };
                if must_fail {
                    fails += 1;
                    rep.fail(idx, tag, &format!("a limit is certainly exceeded (rows >= {}, collection >= {}, rows per outer >= {}) but the query returns {} of {} rows and no resource-limit error", min_rows.max(full_rows.len()), min_coll, per_outer, rows.len(), full_rows.len()), input.clone());
                    continue;
                }
                *hist.entry("limited:complete-result".into()).or_insert(0) += 1;
                if !same {
                    fails += 1;
                    rep.fail(idx, tag, &format!("the limited run returns {} rows that are not the complete result ({} rows): silently truncated or altered", rows.len(), full_rows.len()), input.clone());
                }
            }
            Outcome::Err(3, m) => {
                let kind = if m.contains("IntermediateRows") { "rows" } else if m.contains("CollectionItems") { "collection" } else { "other" };
                *hist.entry(format!("limited:limit-error-{}", kind)).or_insert(0) += 1;
            }
            Outcome::Err(c, m) => { fails += 1; rep.fail(idx, None, &format!("the limited run fails with a non-limit error (class {}): {}", c, m), input.clone()); }
        }
        if direct_only.is_none() {
            cw.push(format!("{{| cg := {}; cquery := {}; cordered := {}; i_full := {}; i_lim := {} |}}", coq_graph(&ld.g), coq_query(&q, &ld.g), coq_bool(ordered),
                coq_outcome(&o_full, &[10, 11, 12]), coq_outcome(&o_lim, &[10, 11, 12])));
        }
    }
    cw.flush();
    rep.stats(json!({
        "evaluations": evaluations,
        "corr_cases": cw.total,
        "distinct_nontrivial": nontrivial.len(),
        "rule": "14 query shapes with large intermediate results (CALL { } subqueries with many rows per outer row and with an aggregating subquery, EXISTS { } subqueries whose first row / collection needs many items, cartesian UNWIND of ranges with and without DISTINCT, grouped aggregation, collect, ORDER BY+LIMIT, SKIP, UNION, expansion x UNWIND, two undirected hops + count, variable-length expansion + count) on random graphs, each run with default options and with random max_intermediate_rows (1..400 or off) and max_collection_items (1..60 or off) and max_apply_rows_per_outer (1..12, 200000, usize::MAX-1, usize::MAX), soft timeout off; besides complete-or-limit-error the limit must fire when it is exceeded by construction; non-trivial = unlimited run succeeds, distinct by (query, limits)",
        "histogram": hist,
        "direct_failures": fails,
        "case_files": cw.files.iter().map(|p| p.to_string_lossy().to_string()).collect::<Vec<_>>(),
    }));
    rep.finish();
}
