//! C19 — WHERE partitions rows by truth value: direct search on the engine + Coq cases.
//! For a generated base query Q and predicate p the engine runs
//!   Q RETURN vars | Q WHERE p | Q WHERE NOT p | Q WHERE p IS NULL | Q RETURN vars, p
//! and the multisets are compared; the same data goes to Coq, where the model's
//! eval / filter_where run on the engine's base rows.
use hx_query::*;
use serde_json::json;
use std::collections::{BTreeMap, BTreeSet};
use vh::*;

struct Base {
    text: String,          // clauses up to the point where WHERE goes
    vars: Vec<(usize, Ty, bool)>,
    direct: bool,          // WHERE directly after MATCH (else after WITH vars)
    shape: &'static str,
    /// inline property map of the pattern: (variable, key, constant)
    inline: Option<(usize, String, MV)>,
}

fn lab(r: &mut Rng) -> String {
    match r.below(12) { 0 => ":L0".into(), 1 => ":L1".into(), 2 => ":L2".into(), 3 => ":L0:L1".into(), _ => String::new() }
}
fn typ(r: &mut Rng) -> String {
    match r.below(9) { 0 => ":T0".into(), 1 => ":T1".into(), 2 => ":T0|T1".into(), _ => String::new() }
}
fn arrow(r: &mut Rng, rel: &str) -> String {
    match r.below(4) { 0 => format!("<-[{}]-", rel), 1 => format!("-[{}]-", rel), _ => format!("-[{}]->", rel) }
}

fn inline_const(r: &mut Rng, kv: &BTreeMap<String, Vec<MV>>, key: &str) -> MV {
    let pool: Vec<MV> = kv.get(key).cloned().unwrap_or_default().into_iter().filter(|v| matches!(v, MV::Int(i) if *i >= 0) || matches!(v, MV::Str(_) | MV::Bool(_))).collect();
    if pool.is_empty() || r.chance(1, 5) { MV::Int(r.range(0, 3)) } else { r.pick(&pool).clone() }
}

fn gen_base(r: &mut Rng, kv: &BTreeMap<String, Vec<MV>>) -> Base {
    match r.below(13) {
        10 => {
            // inline property map on a node pattern: MATCH (v0:L {k: c1})
            let key = if r.chance(2, 3) { "k" } else { *r.pick(&NODE_KEYS) };
            let c1 = inline_const(r, kv, key);
            let l0 = lab(r);
            Base { text: format!("MATCH (v0{} {{{}: {}}})", l0, key, cypher_lit(&c1).unwrap()), vars: vec![(0, Ty::Node, false)], direct: true, shape: "node-inline-map", inline: Some((0, key.to_string(), c1)) }
        }
        11 => {
            // inline map on the start or end node of a hop
            let key = if r.chance(2, 3) { "k" } else { *r.pick(&NODE_KEYS) };
            let c1 = inline_const(r, kv, key);
            let on = if r.chance(1, 2) { 0 } else { 2 };
            let ty = typ(r);
            let m = format!(" {{{}: {}}}", key, cypher_lit(&c1).unwrap());
            let t = format!("MATCH (v0{}){}(v2{})", if on == 0 { m.clone() } else { String::new() }, arrow(r, &format!("v1{}", ty)), if on == 2 { m } else { String::new() });
            Base { text: t, vars: vec![(0, Ty::Node, false), (1, Ty::Rel, false), (2, Ty::Node, false)], direct: true, shape: "hop-node-inline-map", inline: Some((on, key.to_string(), c1)) }
        }
        12 => {
            // inline map on the relationship pattern
            let c1 = inline_const(r, kv, "w");
            let ty = typ(r);
            let t = format!("MATCH (v0){}(v2)", arrow(r, &format!("v1{} {{w: {}}}", ty, cypher_lit(&c1).unwrap())));
            Base { text: t, vars: vec![(0, Ty::Node, false), (1, Ty::Rel, false), (2, Ty::Node, false)], direct: true, shape: "hop-rel-inline-map", inline: Some((1, "w".to_string(), c1)) }
        }
        0..=1 => Base { text: format!("MATCH (v0{})", lab(r)), vars: vec![(0, Ty::Node, false)], direct: r.chance(3, 4), shape: "node", inline: None },
        2..=4 => {
            let (l0, ty, l2) = (lab(r), typ(r), lab(r));
            let t = format!("MATCH (v0{}){}(v2{})", l0, arrow(r, &format!("v1{}", ty)), l2);
            Base { text: t, vars: vec![(0, Ty::Node, false), (1, Ty::Rel, false), (2, Ty::Node, false)], direct: r.chance(3, 4), shape: "hop", inline: None }
        }
        5..=6 => {
            let (l0, ty, l2) = (lab(r), typ(r), lab(r));
            let t = format!("MATCH (v0{}) OPTIONAL MATCH (v0){}(v2{})", l0, arrow(r, &format!("v1{}", ty)), l2);
            Base { text: t, vars: vec![(0, Ty::Node, false), (1, Ty::Rel, true), (2, Ty::Node, true)], direct: false, shape: "optional", inline: None }
        }
        7 => {
            let n = 1 + r.below(5);
            let items: Vec<String> = (0..n).map(|_| loop { let v = gen_scalar(r); if let Some(s) = cypher_lit(&v) { break s; } }).collect();
            Base { text: format!("UNWIND [{}] AS v0", items.join(", ")), vars: vec![(0, Ty::Any, true)], direct: false, shape: "unwind", inline: None }
        }
        8 => {
            let n = 1 + r.below(3);
            let items: Vec<String> = (0..n).map(|_| loop { let v = gen_scalar(r); if let Some(s) = cypher_lit(&v) { break s; } }).collect();
            Base { text: format!("MATCH (v0{}) UNWIND [{}] AS v1", lab(r), items.join(", ")), vars: vec![(0, Ty::Node, false), (1, Ty::Any, true)], direct: false, shape: "node+unwind", inline: None }
        }
        _ => {
            let (t1, t3, l4) = (typ(r), typ(r), lab(r));
            let a1 = arrow(r, &format!("v1{}", t1));
            let a3 = arrow(r, &format!("v3{}", t3));
            let t = format!("MATCH (v0){}(v2){}(v4{})", a1, a3, l4);
            Base { text: t, vars: vec![(0, Ty::Node, false), (1, Ty::Rel, false), (2, Ty::Node, false), (3, Ty::Rel, false), (4, Ty::Node, false)], direct: r.chance(1, 2), shape: "two-hop", inline: None }
        }
    }
}

fn main() {
    if std::env::var("VERIF_LOUD").is_err() { quiet_panics(); }
    let a = args();
    let mut r = Rng::new(a.seed);
    let mut cw = CaseWriter::new(&a.out, "Corr.C19", 60);
    let mut rep = Report::new(&a.out);
    let mut hist = BTreeMap::<String, u64>::new();
    let mut nontrivial = BTreeSet::<String>::new();
    let mut fails = 0u64;
    let mut kinds = BTreeMap::<String, u64>::new();
    let mut evaluations = 0u64;
    let bump = |h: &mut BTreeMap<String, u64>, k: &str| *h.entry(k.to_string()).or_insert(0) += 1;

    // corpus first: hand-written cases (index-seek push-down, null handling, NaN)
    let corpus: Vec<(&str, Vec<(usize, Ty, bool)>, bool, Ex)> = vec![
        ("MATCH (v0 {k: 1})", vec![(0, Ty::Node, false)], true,
         Ex::Bin(Bin::Eq, Box::new(Ex::Prop(0, "k".into())), Box::new(Ex::Lit(MV::Int(2))))),
        ("MATCH (v0)-[v1 {w: 1}]->(v2)", vec![(0, Ty::Node, false), (1, Ty::Rel, false), (2, Ty::Node, false)], true,
         Ex::Bin(Bin::And, Box::new(Ex::Bin(Bin::Eq, Box::new(Ex::Prop(1, "w".into())), Box::new(Ex::Lit(MV::Int(0))))), Box::new(Ex::Un(Un::IsNotNull, Box::new(Ex::Var(0)))))),
        ("MATCH (v0:L0)", vec![(0, Ty::Node, false)], true,
         Ex::Bin(Bin::Eq, Box::new(Ex::Prop(0, "k".into())), Box::new(Ex::Lit(MV::Int(1))))),
        ("MATCH (v0)", vec![(0, Ty::Node, false)], true,
         Ex::Bin(Bin::Lt, Box::new(Ex::Prop(0, "k".into())), Box::new(Ex::Lit(MV::Float(0x3FF8_0000_0000_0000))))),
        ("MATCH (v0) OPTIONAL MATCH (v0)-[v1]->(v2)", vec![(0, Ty::Node, false), (1, Ty::Rel, true), (2, Ty::Node, true)], false,
         Ex::Bin(Bin::Eq, Box::new(Ex::Prop(2, "k".into())), Box::new(Ex::Prop(0, "k".into())))),
    ];

    let per_graph = 12usize;
    let mut loaded: Option<Loaded> = None;
    for idx in 0..a.n {
        if idx % per_graph == 0 || loaded.is_none() {
            let spec = gen_graph(&mut r, false);
            loaded = Some(load_graph(&spec));
        }
        let ld = loaded.as_ref().unwrap();
        let params_v: Vec<(usize, MV)> = vec![(0, gen_scalar(&mut r)), (1, MV::Int(r.range(-1, 3)))];
        let (base, pred) = if idx < corpus.len() {
            let (t, v, d, p) = &corpus[idx];
            (Base { text: t.to_string(), vars: v.clone(), direct: *d, shape: "corpus", inline: None }, p.clone())
        } else {
            let kv = graph_values(&ld.g);
            let base = gen_base(&mut r, &kv);
            let sc = Scope { vars: base.vars.clone(), params: params_v.clone(), kvals: graph_values(&ld.g) };
            let allow_errors = r.chance(1, 6);
            let depth = 1 + r.below(3) as u32;
            let mut g = ExGen::new(&mut r, &sc, allow_errors);
            let p = if let (Some((x, key, c1)), true) = (&base.inline, g.r.chance(4, 5)) {
                // a top-level equality conjunct on the inline-constrained variable and key: same constant, another constant,
                // literal or parameter ($p1 is an integer), alone or under AND with other conjuncts, on either side
                let c2 = match g.r.below(4) {
                    0 => Ex::Lit(c1.clone()),
                    1 => Ex::Param(1),
                    _ => { let pool: Vec<MV> = kv.get(key).cloned().unwrap_or_default().into_iter().filter(|v| v != c1 && (matches!(v, MV::Int(i) if *i >= 0) || matches!(v, MV::Str(_) | MV::Bool(_)))).collect();
                           Ex::Lit(if pool.is_empty() { match c1 { MV::Int(i) => MV::Int(if *i == i64::MAX { *i - 1 } else { *i + 1 }), _ => MV::Int(0) } } else { g.r.pick(&pool).clone() }) }
                };
                let eq = if g.r.chance(1, 4) { Ex::Bin(Bin::Eq, Box::new(c2), Box::new(Ex::Prop(*x, key.clone()))) } else { Ex::Bin(Bin::Eq, Box::new(Ex::Prop(*x, key.clone())), Box::new(c2)) };
                g.kinds.entry("inline-map+where-equality".to_string()).and_modify(|c| *c += 1).or_insert(1);
                match g.r.below(4) {
                    0 => eq,
                    1 => Ex::Bin(Bin::And, Box::new(eq), Box::new(g.pred(1))),
                    2 => Ex::Bin(Bin::And, Box::new(g.pred(1)), Box::new(eq)),
                    _ => Ex::Bin(Bin::And, Box::new(Ex::Bin(Bin::And, Box::new(g.pred(1)), Box::new(eq))), Box::new(g.pred(1))),
                }
            } else if base.direct && g.r.chance(1, 3) { g.pushdown_pred() } else { g.pred(depth) };
            for (k, v) in g.kinds { *kinds.entry(k).or_insert(0) += v; }
            (base, p)
        };
        let var_ids: Vec<usize> = base.vars.iter().map(|v| v.0).collect();
        let ret = var_ids.iter().map(|v| format!("{} AS {}", var_name(*v), var_name(*v))).collect::<Vec<_>>().join(", ");
        let with = var_ids.iter().map(|v| var_name(*v)).collect::<Vec<_>>().join(", ");
        let p_text = cy_ex(&pred);
        let filt = |p: &str| if base.direct { format!("{} WHERE {} RETURN {}", base.text, p, ret) } else { format!("{} WITH {} WHERE {} RETURN {}", base.text, with, p, ret) };
        let q_base = format!("{} RETURN {}", base.text, ret);
        let q_true = filt(&p_text);
        let q_false = filt(&format!("(NOT {})", p_text));
        let q_null = filt(&format!("({} IS NULL)", p_text));
        let q_val = if base.direct { format!("{} RETURN {}, {} AS pv", base.text, ret, p_text) } else { format!("{} WITH {} RETURN {}, {} AS pv", base.text, with, ret, p_text) };
        let params = make_params(&params_v, None);
        let o_base = run_query(&ld.db, &q_base, &params);
        let o_true = run_query(&ld.db, &q_true, &params);
        let o_false = run_query(&ld.db, &q_false, &params);
        let o_null = run_query(&ld.db, &q_null, &params);
        let o_val = run_query(&ld.db, &q_val, &params);
        evaluations += 5;
        bump(&mut hist, &format!("shape:{}", base.shape));
        bump(&mut hist, if base.direct { "where:direct" } else { "where:after-with" });
        let input = json!({"graph": js_graph(&ld.g), "params": params_v.iter().map(|(i, v)| (param_name(*i), canon(v))).collect::<BTreeMap<_, _>>(),
            "q_base": q_base, "q_true": q_true, "q_false": q_false, "q_null": q_null, "q_val": q_val,
            "base": js_outcome(&o_base), "true": js_outcome(&o_true), "false": js_outcome(&o_false), "null": js_outcome(&o_null), "val": js_outcome(&o_val)});
        if idx < 6 { rep.case(idx, input.clone()); }

        let all = [&o_base, &o_true, &o_false, &o_null, &o_val];
        if all.iter().any(|o| matches!(o, Outcome::Err(5, _))) {
            bump(&mut hist, "outcome:rejected-at-prepare");
            // a predicate the compiler rejects must be rejected in all its three filter forms
            let rej: Vec<bool> = [&o_true, &o_false, &o_null].iter().map(|o| matches!(o, Outcome::Err(5, _))).collect();
            if matches!(o_base, Outcome::Rows(_)) && !(rej[0] && rej[1] && rej[2]) && !matches!(o_val, Outcome::Err(5, _)) {
                bump(&mut hist, "outcome:rejected-inconsistently");
            }
            continue;
        }
        if all.iter().any(|o| matches!(o, Outcome::Err(6, _))) {
            fails += 1;
            rep.fail(idx, None, "the engine panicked on one of the five queries", input.clone());
            continue;
        }
        let base_rows = match &o_base { Outcome::Rows(rows) => rows.clone(), Outcome::Err(..) => { bump(&mut hist, "outcome:base-error"); continue; } };
        if mentions_other(&base_rows) { bump(&mut hist, "outcome:unmodelled-value"); continue; }

        // ---- direct search: the property itself on the engine's outputs
        match (&o_true, &o_false, &o_null, &o_val) {
            (Outcome::Rows(t), Outcome::Rows(f), Outcome::Rows(n), Outcome::Rows(vals)) => {
                let nv = var_ids.len();
                let ill: Vec<Vec<MV>> = vals.iter().filter(|row| !matches!(row[nv], MV::Bool(_) | MV::Null)).map(|row| row[..nv].to_vec()).collect();
                let mut union: Vec<Vec<MV>> = vec![];
                union.extend(t.iter().cloned());
                union.extend(f.iter().cloned());
                union.extend(n.iter().cloned());
                union.extend(ill.iter().cloned());
                // each filtered result is a sub-multiset of the unfiltered result (a filter never invents rows)
                for (name, part) in [("WHERE p", t), ("WHERE NOT p", f), ("WHERE p IS NULL", n)] {
                    let mut rest = multiset(&base_rows);
                    let extra = multiset(part).into_iter().filter(|row| match rest.iter().position(|b| b == row) { Some(i) => { rest.remove(i); false } None => true }).count();
                    if extra > 0 {
                        fails += 1;
                        rep.fail(idx, None, &format!("{} returns {} row(s) that the unfiltered query does not return", name, extra), input.clone());
                    }
                }
                if multiset(&union) != multiset(&base_rows) {
                    fails += 1;
                    rep.fail(idx, None, &format!("WHERE p / NOT p / p IS NULL do not partition the rows: {} + {} + {} (+{} ill-typed) vs {} rows", t.len(), f.len(), n.len(), ill.len(), base_rows.len()), input.clone());
                }
                if multiset(&vals.iter().map(|row| row[..nv].to_vec()).collect::<Vec<_>>()) != multiset(&base_rows) {
                    fails += 1;
                    rep.fail(idx, None, "RETURN vars, p returns other rows than RETURN vars", input.clone());
                }
                if !ill.is_empty() { bump(&mut hist, "predicate:ill-typed-on-some-row"); }
                let pvs: BTreeSet<String> = vals.iter().map(|row| canon(&row[nv])).collect();
                if !vals.is_empty() {
                    if pvs.len() == 1 && pvs.contains("Null") { bump(&mut hist, "predicate:always-null"); }
                    else if pvs.len() == 1 { bump(&mut hist, "predicate:constant"); }
                    else { bump(&mut hist, "predicate:varies"); }
                    for v in &pvs { bump(&mut hist, &format!("pvalue:{}", if v.starts_with("Bool") || v == "Null" { v.as_str() } else { "other" })); }
                    let parts = (!t.is_empty()) as u8 + (!f.is_empty()) as u8 + (!n.is_empty()) as u8;
                    bump(&mut hist, &format!("nonempty-partitions:{}", parts));
                    nontrivial.insert(q_true.clone());
                } else {
                    bump(&mut hist, "outcome:no-base-rows");
                }
            }
            _ => {
                // p raises a runtime error on some row: all filter forms must report an error
                let errs: Vec<bool> = [&o_true, &o_false, &o_null, &o_val].iter().map(|o| matches!(o, Outcome::Err(..))).collect();
                bump(&mut hist, "outcome:runtime-error");
                if !(errs[0] && errs[1] && errs[2] && errs[3]) {
                    // a filter pushed below an expansion may see rows the unfiltered query never produces (and vice versa)
                    bump(&mut hist, "outcome:runtime-error-not-in-all-forms");
                    if errs[3] && !(errs[0] && errs[1] && errs[2]) {
                        fails += 1;
                        rep.fail(idx, None, "p raises a runtime error on a row of the query but a filtered form returns rows", input.clone());
                    }
                }
            }
        }

        // ---- the same data for the model
        let pv = 99usize;
        let mut val_vars = var_ids.clone();
        val_vars.push(pv);
        cw.push(format!(
            "{{| cg := {}; cparams := {}; cpred := {}; cpv := {}; cbase := {}; i_true := {}; i_false := {}; i_null := {}; i_val := {} |}}",
            coq_graph(&ld.g), coq_params(&params_v), coq_ex(&pred, &ld.g), coq_n(pv as u128), coq_rows(&base_rows, &var_ids),
            coq_outcome(&o_true, &var_ids), coq_outcome(&o_false, &var_ids), coq_outcome(&o_null, &var_ids), coq_outcome(&o_val, &val_vars)
        ));
        // remember which harness index a Coq case index is
        rep.line(json!({"kind": "map", "coq_index": cw.total - 1, "idx": idx, "q_true": q_true}));
    }
    cw.flush();
    for (k, v) in kinds { hist.insert(format!("expr:{}", k), v); }
    rep.stats(json!({
        "evaluations": evaluations,
        "corr_cases": cw.total,
        "distinct_nontrivial": nontrivial.len(),
        "rule": "a case = random graph (<=5 nodes, parallel relationships, self loops, mixed-type properties incl. NaN/±0/±inf/2^53±1) x base query (node / hop in 3 directions / inline property maps on node and relationship patterns combined with WHERE equalities on the same key / OPTIONAL MATCH / UNWIND / node+UNWIND / two hops; labels, types) x typed predicate (depth 1-3); 5 engine runs per case; non-trivial = base query has rows and the predicate evaluates without error, distinct by query text",
        "histogram": hist,
        "direct_failures": fails,
        "case_files": cw.files.iter().map(|p| p.to_string_lossy().to_string()).collect::<Vec<_>>(),
    }));
    rep.finish();
}
