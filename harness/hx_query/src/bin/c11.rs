//! C11 — read results match the reference semantics: generated graph x query pairs.
//! Coq: engine = Faithful model (Query/Clauses.v) on every case, Faithful = Reference outside the
//! known-finding classes.  Direct search (no reference needed): relationship uniqueness across
//! comma-separated patterns, DISTINCT before the SKIP/LIMIT window, no double counting of parallel
//! relationships inside one chain; a failure is tagged known only if its class predicate holds.
use hx_query::*;
use serde_json::json;
use std::collections::{BTreeMap, BTreeSet};
use vh::*;

fn np(r: &mut Rng, v: usize) -> NPat { NPat { var: v, labels: if r.chance(1, 4) { vec![r.below(3) as usize] } else { vec![] } } }
fn rp(r: &mut Rng, v: usize) -> RPat {
    RPat { var: v, types: match r.below(5) { 0 => vec![0], 1 => vec![1], _ => vec![] }, dir: *r.pick(&[Dir::Out, Dir::Out, Dir::In, Dir::Both]) }
}
fn ret_vars(vs: &[usize]) -> Vec<(usize, Ex)> { vs.iter().enumerate().map(|(i, v)| (20 + i, Ex::Var(*v))).collect() }
fn mult(g: &MGraph, k: &(u32, u32, u32)) -> usize { g.rels.iter().filter(|e| *e == k).count() }
fn window(rows: &[Vec<MV>], skip: Option<usize>, limit: Option<usize>) -> Vec<Vec<MV>> {
    rows.iter().skip(skip.unwrap_or(0)).take(limit.unwrap_or(usize::MAX)).cloned().collect()
}

fn main() {
    quiet_panics();
    let a = args();
    let mut r = Rng::new(a.seed);
    let mut cw = CaseWriter::new(&a.out, "Corr.C11", 40);
    let mut rep = Report::new(&a.out);
    let mut hist = BTreeMap::<String, u64>::new();
    let mut nontrivial = BTreeSet::<String>::new();
    let mut fails = 0u64;
    let mut evaluations = 0u64;
    let mut loaded: Option<Loaded> = None;
    for idx in 0..a.n {
        if idx % 8 == 0 || loaded.is_none() {
            // the first graph is the witness graph of DESIGN.md §8: two parallel relationships and a self loop
            let spec = if idx == 0 {
                GSpec { nodes: vec![GNode { labels: vec![], props: vec![] }, GNode { labels: vec![], props: vec![] }], rels: vec![(0, 0, 1), (0, 0, 1), (0, 0, 0)], rprops: vec![] }
            } else { gen_graph(&mut r, true) };
            loaded = Some(load_graph(&spec));
        }
        let ld = loaded.as_ref().unwrap();
        let g = &ld.g;
        let params_v: Vec<(usize, MV)> = vec![(0, MV::Int(r.range(0, 3)))];
        let fam = if idx < 3 { [4, 5, 3][idx] } else { idx % 7 };
        let mut ordered = false;
        let mut collects = false;
        let mut class_pred: Option<&str> = None;
        let has_par = g.rels.iter().any(|k| mult(g, k) >= 2);
        let pred = |r: &mut Rng, vars: Vec<(usize, Ty, bool)>| -> Option<Ex> {
            if r.chance(1, 2) { return None; }
            let sc = Scope { vars, params: params_v.clone(), kvals: graph_values(g) };
            let depth = 1 + r.below(2) as u32;
            let mut eg = ExGen::new(r, &sc, false);
            Some(eg.pred(depth))
        };
        let (fname, q): (&str, Query) = match fam {
            0 => {
                let pat = Pattern { start: np(&mut r, 0), hops: vec![(rp(&mut r, 1), np(&mut r, 2))] };
                let w = pred(&mut r, vec![(0, Ty::Node, false), (1, Ty::Rel, false), (2, Ty::Node, false)]);
                ("hop", Query::Single(vec![Clause::Match(false, vec![pat], w), Clause::Return(Proj { items: ret_vars(&[0, 1, 2]), ..Default::default() })]))
            }
            1 => {
                let pat = Pattern { start: NPat { var: 0, labels: vec![] }, hops: vec![(rp(&mut r, 1), np(&mut r, 2))] };
                let w = pred(&mut r, vec![(0, Ty::Node, false), (1, Ty::Rel, false), (2, Ty::Node, false)]);
                ("optional", Query::Single(vec![Clause::Match(false, vec![Pattern { start: np(&mut r, 0), hops: vec![] }], None), Clause::Match(true, vec![pat], w),
                    Clause::Return(Proj { items: ret_vars(&[0, 1, 2]), ..Default::default() })]))
            }
            2 => {
                let pat = Pattern { start: np(&mut r, 0), hops: vec![(rp(&mut r, 1), np(&mut r, 2))] };
                let arg = Ex::Prop(2, "k".into());
                let agg = match r.below(4) { 0 => Agg::Count(arg), 1 => Agg::Min(arg), 2 => Agg::Max(arg), _ => { collects = true; Agg::Collect(Ex::Fn(Fun::Id, vec![Ex::Var(2)])) } };
                ("aggregate", Query::Single(vec![Clause::Match(false, vec![pat], None),
                    Clause::Agg(vec![(10, Ex::Var(0))], vec![(11, Agg::CountStar), (12, agg)], ident_proj(&[10, 11, 12]), None, true)]))
            }
            3 => {
                if has_par { class_pred = Some("K-C11-parallel"); }
                let pat = Pattern { start: np(&mut r, 0), hops: vec![(rp(&mut r, 1), np(&mut r, 2)), (rp(&mut r, 3), np(&mut r, 4))] };
                ("two-hop", Query::Single(vec![Clause::Match(false, vec![pat], None), Clause::Return(Proj { items: ret_vars(&[0, 1, 2, 3, 4]), ..Default::default() })]))
            }
            4 => {
                class_pred = Some("K-C11-crosspattern");
                let shared = r.chance(1, 2) || idx == 0;
                let p1 = Pattern { start: NPat { var: 0, labels: vec![] }, hops: vec![(RPat { var: 1, types: vec![], dir: Dir::Out }, NPat { var: 2, labels: vec![] })] };
                let p2 = Pattern { start: NPat { var: if shared { 0 } else { 4 }, labels: vec![] }, hops: vec![(RPat { var: 3, types: vec![], dir: Dir::Out }, NPat { var: if shared { 2 } else { 5 }, labels: vec![] })] };
                let vs: Vec<usize> = if shared { vec![0, 1, 2, 3] } else { vec![0, 1, 2, 3, 4, 5] };
                ("comma-patterns", Query::Single(vec![Clause::Match(false, vec![p1, p2], None), Clause::Return(Proj { items: ret_vars(&vs), ..Default::default() })]))
            }
            5 => {
                let n = 3 + r.below(5) as usize;
                let vals: Vec<Ex> = (0..n).map(|_| Ex::Lit(MV::Int(r.range(1, 3)))).collect();
                let (skip, limit) = match r.below(4) { 0 => (None, None), 1 => (Some(r.below(3) as usize), None), 2 => (None, Some(1 + r.below(3) as usize)), _ => (Some(1), Some(2)) };
                let distinct = idx == 1 || r.chance(2, 3);
                let order = if r.chance(1, 2) { ordered = true; vec![(Ex::Var(20), r.chance(1, 2))] } else { vec![] };
                ("distinct-window", Query::Single(vec![Clause::Unwind(Ex::List(vals), 0), Clause::Return(Proj { items: vec![(20, Ex::Var(0))], distinct, order, skip, limit })]))
            }
            _ => {
                let n = 2 + r.below(4) as usize;
                let vals: Vec<Ex> = (0..n).map(|_| Ex::Lit(gen_plain_scalar(&mut r))).collect();
                let w = pred(&mut r, vec![(1, Ty::Any, true)]);
                ("unwind-with-where", Query::Single(vec![Clause::Unwind(Ex::List(vals), 0), Clause::With(Proj { items: vec![(1, Ex::Var(0))], ..Default::default() }, w),
                    Clause::Return(Proj { items: vec![(20, Ex::Var(1))], ..Default::default() })]))
            }
        };
        let text = cy_query(&q);
        let params = make_params(&params_v, None);
        let out = run_query(&ld.db, &text, &params);
        evaluations += 1;
        *hist.entry(format!("family:{}", fname)).or_insert(0) += 1;
        *hist.entry(match &out { Outcome::Rows(rows) => if rows.is_empty() { "outcome:no-rows".to_string() } else { "outcome:rows".to_string() }, Outcome::Err(c, _) => format!("outcome:error-class-{}", c) }).or_insert(0) += 1;
        let input = json!({"query": text, "graph": js_graph(g), "params": params_v.iter().map(|(i, v)| (param_name(*i), canon(v))).collect::<BTreeMap<_, _>>(), "outcome": js_outcome(&out)});
        if idx < 4 { rep.case(idx, input.clone()); }
        let rows = match &out {
            Outcome::Rows(rows) => rows.clone(),
            Outcome::Err(5, _) => { *hist.entry("rejected-at-prepare".into()).or_insert(0) += 1; continue; }
            Outcome::Err(6, m) => { fails += 1; rep.fail(idx, None, &format!("the engine panicked: {}", m), input.clone()); continue; }
            Outcome::Err(..) => vec![],
        };
        if mentions_other(&rows) { continue; }
        if !rows.is_empty() { nontrivial.insert(text.clone()); }
        let key_of = |v: &MV| match v { MV::Rel(s, t, d) => Some((*s, *t, *d)), _ => None };
        // ---- direct search 1: no relationship twice within one MATCH (comma-separated patterns)
        if fam == 4 {
            let bad = rows.iter().filter(|row| match (key_of(&row[1]), key_of(&row[3])) { (Some(k1), Some(k2)) => k1 == k2 && mult(g, &k1) == 1, _ => false }).count();
            if bad > 0 {
                fails += 1;
                rep.fail(idx, class_pred, &format!("{} rows bind two relationship variables of one MATCH to the same single relationship", bad), input.clone());
            }
        }
        // ---- direct search 2: a chain must not count a pair of parallel relationships more often than there are ordered pairs
        if fam == 3 {
            let mut groups = BTreeMap::<String, (usize, (u32, u32, u32))>::new();
            for row in &rows {
                if let (Some(k1), Some(k2)) = (key_of(&row[1]), key_of(&row[3])) {
                    if k1 == k2 { let e = groups.entry(canon_row(row)).or_insert((0, k1)); e.0 += 1; }
                }
            }
            let over = groups.values().filter(|(c, k)| { let m = mult(g, k); *c > m * (m.max(1) - 1) }).count();
            if over > 0 {
                fails += 1;
                rep.fail(idx, class_pred, &format!("{} distinct rows traverse one relationship key twice more often than its multiplicity allows", over), input.clone());
            }
        }
        // ---- direct search 3: DISTINCT applies before SKIP/LIMIT
        if fam == 5 {
            if let Query::Single(cs) = &q {
                if let Clause::Return(p) = &cs[1] {
                    if p.distinct {
                        let unwindowed = Query::Single(vec![cs[0].clone(), Clause::Return(Proj { skip: None, limit: None, ..p.clone() })]);
                        if let Outcome::Rows(all) = run_query(&ld.db, &cy_query(&unwindowed), &params) {
                            evaluations += 1;
                            let expect = window(&all, p.skip, p.limit);
                            let same = if ordered { expect == rows } else { expect.len() == rows.len() };
                            if !same {
                                fails += 1;
                                rep.fail(idx, class_pred, &format!("RETURN DISTINCT with SKIP/LIMIT returns {} rows, the window over the distinct rows has {}", rows.len(), expect.len()), input.clone());
                            }
                        }
                    }
                }
            }
        }
        cw.push(format!("{{| cg := {}; cparams := {}; cquery := {}; cordered := {}; ccollect := {}; i_out := {} |}}", coq_graph(g), coq_params(&params_v), coq_query(&q, g), coq_bool(ordered), coq_bool(collects), coq_outcome(&out, &[20, 21, 22, 23, 24, 25])));
    }
    cw.flush();
    rep.stats(json!({
        "evaluations": evaluations,
        "corr_cases": cw.total,
        "distinct_nontrivial": nontrivial.len(),
        "rule": "random graphs (2-6 nodes, labels, parallel relationships, self loops, plain scalar properties) x 7 query families (one hop in 3 directions with labels/types and a typed WHERE; OPTIONAL MATCH with WHERE; grouped aggregation; two-hop chain; two comma-separated patterns; DISTINCT/ORDER BY/SKIP/LIMIT; UNWIND-WITH-WHERE); non-trivial = the engine returns rows, distinct by query text. Variable-length patterns and named paths are not generated",
        "histogram": hist,
        "direct_failures": fails,
        "case_files": cw.files.iter().map(|p| p.to_string_lossy().to_string()).collect::<Vec<_>>(),
    }));
    rep.finish();
}
