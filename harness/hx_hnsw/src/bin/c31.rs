//! C31 — vector search is sound and durable: correspondence cases + direct search.
//!
//! One case = HNSW parameters (through the NERVUSDB_HNSW_* environment variables read
//! by GraphEngine::open), a history of set_vector / tombstone_node / close+open
//! operations on a fresh database driven through `nervusdb::Db`, and searches.
//! The levels drawn by `random_level` are taken from the `nervusdb_verif` hook
//! (optionally forced), so that the Coq model can replay the same history.
//! Vectors have small integer coordinates, so squared distances are exact integers.
use nervusdb::{Db, GraphSnapshot};
use nervusdb_storage::index::hnsw::logic::verif as hv;
use serde_json::json;
use std::collections::{BTreeMap, BTreeSet};
use vh::*;

#[derive(Clone, Debug)]
enum Op {
    Ins { id: u32, v: Vec<i32>, force: Option<u8> },
    Del(u32),
    Reopen { close: bool },
    Search { q: Vec<i32>, k: usize },
}

#[derive(Clone, Debug)]
struct Case {
    m: usize,
    efc: usize,
    efs: usize,
    nodes: u32,
    ops: Vec<Op>,
    tag: &'static str,
}

#[derive(Clone, Debug, PartialEq)]
enum IRes {
    Ok(Vec<(u32, u64)>),
    NotFound,
    Other(String),
}

fn d2(a: &[i32], b: &[i32]) -> u64 {
    a.iter().zip(b.iter()).map(|(x, y)| ((x - y) as i64 * (x - y) as i64) as u64).sum()
}
fn to_f32(v: &[i32]) -> Vec<f32> {
    v.iter().map(|x| *x as f32).collect()
}
fn ulp_close(a: f32, b: f64) -> bool {
    // |a - b| within one f32 ulp of a
    let lo = f32::from_bits(a.to_bits().saturating_sub(1)) as f64;
    let hi = f32::from_bits(a.to_bits() + 1) as f64;
    if a == 0.0 { b == 0.0 } else { lo <= b && b <= hi }
}

// ---------------------------------------------------------------- generators

fn gen_vec(r: &mut Rng, dim: usize, range: i64) -> Vec<i32> {
    (0..dim).map(|_| r.range(-range, range) as i32).collect()
}

fn gen_case(r: &mut Rng, tier: &str) -> Case {
    // regime: 0 small (<= 2m+1 vectors), 1 medium, 2 large
    let regime = match r.below(20) {
        0..=8 => 0,
        9..=17 => 1,
        _ => 2,
    };
    let m = match regime {
        0 => *r.pick(&[1usize, 2, 2, 3, 3, 4, 5, 8, 16]),
        1 => *r.pick(&[2usize, 3, 4, 5, 8, 16]),
        _ => *r.pick(&[2usize, 4, 8, 16, 16]),
    };
    let big = if tier == "thorough" { 200 } else { 120 };
    let n = match regime {
        0 => r.range(1, (2 * m + 1) as i64) as usize,
        1 => r.range(2 * m as i64 + 2, 60) as usize,
        _ => r.range(61, big) as usize,
    };
    let efc = match r.below(6) {
        0 => 1,
        1 => m,
        2 => 2 * m + 1,
        3 => 10,
        4 => 50,
        _ => 200,
    };
    let efs = match (regime, r.below(6)) {
        (0, 0..=3) => 200,
        (_, 0) => 1,
        (_, 1) => 3,
        (_, 2) => 10,
        (_, 3) => 50,
        _ => 200,
    };
    let dim = r.range(1, 4) as usize;
    let range = *r.pick(&[1i64, 2, 3, 8, 40]);
    let nodes = (n + 4) as u32;
    let reinserts = r.chance(1, 3);
    let deletes = r.chance(1, 3);
    let force = r.chance(1, 4);
    let malformed_dim = r.chance(1, 12);
    // ids in random order
    let mut fresh: Vec<u32> = (0..nodes).collect();
    for i in (1..fresh.len()).rev() {
        let j = r.below(i as u64 + 1) as usize;
        fresh.swap(i, j);
    }
    let mut ops = vec![];
    let mut have: Vec<u32> = vec![];
    let mut vecs: Vec<Vec<i32>> = vec![];
    let mut inserted = 0;
    while inserted < n {
        let re = reinserts && !have.is_empty() && r.chance(1, 8);
        let id = if re { *r.pick(&have) } else { fresh.pop().unwrap() };
        let mut v = if !vecs.is_empty() && r.chance(1, 6) {
            r.pick(&vecs).clone() // duplicate of an existing vector
        } else {
            gen_vec(r, dim, range)
        };
        if malformed_dim && r.chance(1, 6) {
            let d = r.range(0, 5) as usize;
            v = gen_vec(r, d, range);
        }
        let f = if force { Some(*r.pick(&[0u8, 0, 0, 1, 1, 2, 3, 5, 16])) } else { None };
        ops.push(Op::Ins { id, v: v.clone(), force: f });
        if !re {
            have.push(id);
            inserted += 1;
        }
        vecs.push(v);
        if deletes && r.chance(1, 10) {
            let id = if r.chance(3, 4) { *r.pick(&have) } else { r.below(nodes as u64) as u32 };
            ops.push(Op::Del(id));
        }
        if r.chance(1, 30) {
            ops.push(Op::Reopen { close: r.chance(1, 2) });
        }
        if r.chance(1, 12) {
            let q = if r.chance(1, 3) { r.pick(&vecs).clone() } else { gen_vec(r, dim, range + 1) };
            let k = *r.pick(&[1usize, 1, 2, 3, 5, 10]);
            ops.push(Op::Search { q, k });
        }
    }
    // final probes, a reopen, the same probes again
    let nq = r.range(2, 5);
    let mut probes = vec![];
    for _ in 0..nq {
        let q = if r.chance(1, 3) { r.pick(&vecs).clone() } else { gen_vec(r, dim, range + 1) };
        let k = match r.below(8) {
            0 => 0,
            1 => 1,
            2 => 2,
            3 => 3,
            4 => 5,
            5 => 10,
            6 => n,
            _ => n + 5,
        };
        probes.push(Op::Search { q, k });
    }
    ops.extend(probes.iter().cloned());
    if r.chance(4, 5) {
        ops.push(Op::Reopen { close: r.chance(1, 2) });
        ops.extend(probes.iter().cloned());
        if r.chance(1, 3) {
            // keep inserting after the reopen
            for _ in 0..r.range(1, 4) {
                if let Some(id) = fresh.pop() {
                    ops.push(Op::Ins { id, v: gen_vec(r, dim, range), force: None });
                }
            }
            ops.extend(probes.iter().cloned());
        }
    }
    Case { m, efc, efs, nodes, ops, tag: ["small", "medium", "large"][regime] }
}

/// fixed cases that run first: witnesses of repaired defects and of the known findings
fn corpus() -> Vec<Case> {
    let mut cs = vec![];
    // (1) K-C31-root witness (repaired): default parameters, 60 vectors on a line, reopen, same probes.
    let mut ops = vec![];
    for i in 0..60u32 {
        ops.push(Op::Ins { id: i, v: vec![i as i32, 0], force: Some(0) });
    }
    let probes = vec![
        Op::Search { q: vec![50, 0], k: 3 },
        Op::Search { q: vec![0, 0], k: 1 },
        Op::Search { q: vec![59, 1], k: 5 },
    ];
    ops.extend(probes.iter().cloned());
    ops.push(Op::Reopen { close: false });
    ops.extend(probes.iter().cloned());
    ops.push(Op::Reopen { close: true });
    ops.extend(probes.iter().cloned());
    cs.push(Case { m: 16, efc: 200, efs: 200, nodes: 60, ops, tag: "corpus-root" });
    // (2) k = 0 (repaired: used to return one result)
    cs.push(Case {
        m: 16, efc: 200, efs: 200, nodes: 3,
        ops: vec![
            Op::Ins { id: 0, v: vec![1, 1], force: None },
            Op::Ins { id: 1, v: vec![2, 2], force: None },
            Op::Search { q: vec![0, 0], k: 0 },
            Op::Search { q: vec![0, 0], k: 1 },
        ],
        tag: "corpus-k0",
    });
    // (3) witness of the repaired defect K-C31-deleted (deleted nodes were returned)
    cs.push(Case {
        m: 16, efc: 200, efs: 200, nodes: 3,
        ops: vec![
            Op::Ins { id: 0, v: vec![0, 0], force: None },
            Op::Ins { id: 1, v: vec![5, 5], force: None },
            Op::Del(0),
            Op::Search { q: vec![0, 0], k: 1 },
            Op::Reopen { close: true },
            Op::Search { q: vec![0, 0], k: 2 },
        ],
        tag: "corpus-deleted",
    });
    // (4) levels above the current top layer, ties, duplicates, small m
    cs.push(Case {
        m: 2, efc: 3, efs: 2, nodes: 12,
        ops: {
            let mut o = vec![];
            let lv = [0u8, 3, 1, 0, 5, 0, 2, 0, 0, 1, 16, 0];
            for i in 0..12u32 {
                o.push(Op::Ins { id: 11 - i, v: vec![(i % 4) as i32, (i / 4) as i32], force: Some(lv[i as usize]) });
            }
            o.push(Op::Search { q: vec![1, 1], k: 4 });
            o.push(Op::Search { q: vec![3, 2], k: 12 });
            o.push(Op::Reopen { close: false });
            o.push(Op::Search { q: vec![1, 1], k: 4 });
            o.push(Op::Search { q: vec![3, 2], k: 12 });
            o
        },
        tag: "corpus-layers",
    });
    // (5) re-inserted vectors in the small regime
    cs.push(Case {
        m: 2, efc: 200, efs: 200, nodes: 5,
        ops: vec![
            Op::Ins { id: 0, v: vec![0], force: Some(0) },
            Op::Ins { id: 1, v: vec![10], force: Some(0) },
            Op::Ins { id: 2, v: vec![20], force: Some(0) },
            Op::Ins { id: 3, v: vec![30], force: Some(0) },
            Op::Ins { id: 0, v: vec![40], force: Some(0) },
            Op::Ins { id: 2, v: vec![-10], force: Some(0) },
            Op::Search { q: vec![0], k: 4 },
            Op::Search { q: vec![35], k: 4 },
            Op::Reopen { close: true },
            Op::Search { q: vec![0], k: 4 },
            Op::Search { q: vec![35], k: 4 },
        ],
        tag: "corpus-reinsert",
    });
    // (6) more than one leaf in the VECTOR tree (> 510 cells) with a re-inserted vector whose two
    //     cells straddle the split point; cheap parameters.  Also the witness of the repaired
    //     stale-root defect for the vector tree.
    {
        let mut ops = vec![];
        for i in 0..509u32 {
            ops.push(Op::Ins { id: i, v: vec![(i % 23) as i32, (i / 23) as i32], force: Some(0) });
        }
        ops.push(Op::Ins { id: 254, v: vec![40, 40], force: Some(0) });
        ops.push(Op::Ins { id: 600, v: vec![-3, -3], force: Some(0) });
        let probes = vec![
            Op::Search { q: vec![40, 40], k: 3 },
            Op::Search { q: vec![1, 11], k: 5 },
            Op::Search { q: vec![-3, -3], k: 2 },
        ];
        ops.extend(probes.iter().cloned());
        ops.push(Op::Reopen { close: true });
        ops.extend(probes.iter().cloned());
        cs.push(Case { m: 2, efc: 2, efs: 40, nodes: 601, ops, tag: "corpus-vecsplit" });
    }
    cs
}

// ---------------------------------------------------------------- running a case

struct Outcome {
    coq_ops: Vec<String>,
    js_ops: Vec<serde_json::Value>,
    fails: Vec<(Option<&'static str>, String)>,
    n_search: usize,
    n_nonempty: usize,
    levels_pos: usize,
    max_vectors: usize,
}

fn set_env(m: usize, efc: usize, efs: usize) {
    unsafe {
        std::env::set_var("NERVUSDB_HNSW_M", m.to_string());
        std::env::set_var("NERVUSDB_HNSW_EF_CONSTRUCTION", efc.to_string());
        std::env::set_var("NERVUSDB_HNSW_EF_SEARCH", efs.to_string());
    }
}

fn coq_vec(v: &[i32]) -> String {
    coq_list(v, |x| coq_z(*x as i128))
}
fn coq_pairs(v: &[(u32, u64)]) -> String {
    coq_list(v, |(i, d)| format!("({}, {})", coq_n(*i as u128), coq_n(*d as u128)))
}

fn run_case(c: &Case, base: &std::path::Path) -> Result<Outcome, String> {
    let dir = tempfile::Builder::new().prefix("c31-").tempdir_in(base).map_err(|e| e.to_string())?;
    let path = dir.path().join("db");
    set_env(c.m, c.efc, c.efs);
    hv::clear_forced_levels();
    let _ = hv::take_levels();
    let mut db = Some(Db::open(&path).map_err(|e| format!("open: {e}"))?);
    {
        let d = db.as_ref().unwrap();
        let mut t = d.begin_write();
        let l = t.get_or_create_label("V").map_err(|e| e.to_string())?;
        for i in 0..c.nodes {
            let iid = t.create_node(1000 + i as u64, l).map_err(|e| e.to_string())?;
            if iid != i {
                return Err(format!("internal id {iid} for the {i}-th node"));
            }
        }
        t.commit().map_err(|e| e.to_string())?;
    }
    let mut out = Outcome { coq_ops: vec![], js_ops: vec![], fails: vec![], n_search: 0, n_nonempty: 0, levels_pos: 0, max_vectors: 0 };
    let mut stored: BTreeMap<u32, Vec<i32>> = BTreeMap::new();
    let mut ever: BTreeMap<u32, Vec<Vec<i32>>> = BTreeMap::new();
    let mut deleted: BTreeSet<u32> = BTreeSet::new();
    let mut reinserted = false;
    // results of the searches since the last mutation, to compare across a reopen
    let mut since_mut: Vec<(Vec<i32>, usize, IRes)> = vec![];
    let mut after_reopen: Option<Vec<(Vec<i32>, usize, IRes)>> = None;
    for op in &c.ops {
        match op {
            Op::Ins { id, v, force } => {
                let d = db.as_ref().unwrap();
                if let Some(l) = force {
                    hv::force_levels(&[*l]);
                }
                let mut t = d.begin_write();
                let r = t.set_vector(*id, to_f32(v));
                let r2 = t.commit();
                let lv = hv::take_levels();
                hv::clear_forced_levels();
                if let Err(e) = r {
                    out.fails.push((None, format!("set_vector({id}) failed: {e}")));
                    return Ok(out);
                }
                if let Err(e) = r2 {
                    out.fails.push((None, format!("commit after set_vector({id}) failed: {e}")));
                    return Ok(out);
                }
                if lv.len() != 1 {
                    return Err(format!("level hook recorded {} levels for one insert", lv.len()));
                }
                if lv[0] > 0 {
                    out.levels_pos += 1;
                }
                if stored.contains_key(id) {
                    reinserted = true;
                }
                stored.insert(*id, v.clone());
                ever.entry(*id).or_default().push(v.clone());
                out.max_vectors = out.max_vectors.max(stored.len());
                out.coq_ops.push(format!("CIns {} {} {}%nat", coq_n(*id as u128), coq_vec(v), lv[0]));
                out.js_ops.push(json!({"ins": id, "v": v, "level": lv[0]}));
                since_mut.clear();
                after_reopen = None;
            }
            Op::Del(id) => {
                let d = db.as_ref().unwrap();
                let mut t = d.begin_write();
                t.tombstone_node(*id);
                t.commit().map_err(|e| format!("commit delete: {e}"))?;
                deleted.insert(*id);
                out.coq_ops.push(format!("CDel {}", coq_n(*id as u128)));
                out.js_ops.push(json!({"del": id}));
            }
            Op::Reopen { close } => {
                let d = db.take().unwrap();
                if *close {
                    d.close().map_err(|e| format!("close: {e}"))?;
                } else {
                    drop(d);
                }
                db = Some(Db::open(&path).map_err(|e| format!("reopen: {e}"))?);
                out.coq_ops.push("CReopen".into());
                out.js_ops.push(json!({"reopen": if *close { "close" } else { "drop" }}));
                after_reopen = Some(std::mem::take(&mut since_mut));
            }
            Op::Search { q, k } => {
                let d = db.as_ref().unwrap();
                let qf = to_f32(q);
                let raw = catch(std::panic::AssertUnwindSafe(|| d.search_vector(&qf, *k)));
                let mut dists: Vec<f32> = vec![];
                let ir = match raw {
                    Err(p) => IRes::Other(format!("panic: {p}")),
                    Ok(Err(e)) => {
                        let s = e.to_string();
                        if s.contains("Vector not found") { IRes::NotFound } else { IRes::Other(s) }
                    }
                    Ok(Ok(v)) => {
                        let mut r = vec![];
                        for (id, dist) in &v {
                            let sq = ((*dist as f64) * (*dist as f64)).round();
                            let dd = if sq.is_finite() && sq >= 0.0 { sq as u64 } else { u64::MAX };
                            // an empty zip sums to -0.0 and sqrt(-0.0) = -0.0: a zero distance
                            let zero = *dist == 0.0 && dd == 0;
                            if !(zero || (dd <= 1 << 16 && (dd as f32).sqrt().to_bits() == dist.to_bits())) {
                                out.fails.push((None, format!("reported distance {dist:?} (bits {:#x}) of node {id} is not the f32 square root of an integer <= 2^16", dist.to_bits())));
                            }
                            r.push((*id, dd));
                            dists.push(*dist);
                        }
                        IRes::Ok(r)
                    }
                };
                out.n_search += 1;
                // spec side: brute force over the stored vectors, order (d2, id)
                let mut all: Vec<(u64, u32)> = stored.iter().filter(|(id, _)| !deleted.contains(*id)).map(|(id, v)| (d2(q, v), *id)).collect();
                all.sort();
                let bf: Vec<(u32, u64)> = all.iter().take(*k).map(|(d, i)| (*i, *d)).collect();
                let coq_ir = match &ir {
                    IRes::Ok(r) => format!("(IOk {})", coq_pairs(r)),
                    IRes::NotFound => "INotFound".to_string(),
                    IRes::Other(_) => "IOther".to_string(),
                };
                out.coq_ops.push(format!("CSearch {} {}%nat {} {}", coq_vec(q), k, coq_ir, coq_pairs(&bf)));
                out.js_ops.push(json!({"search": q, "k": k, "impl": format!("{:?}", ir), "brute_force": bf}));
                // ---- direct search: the property on the implementation's output
                let n = stored.len();
                let n_live = stored.keys().filter(|id| !deleted.contains(*id)).count();
                match &ir {
                    IRes::Ok(r) => {
                        if !r.is_empty() {
                            out.n_nonempty += 1;
                        }
                        if r.len() > *k {
                            out.fails.push((None, format!("{} results for k = {}", r.len(), k)));
                        }
                        let ids: BTreeSet<u32> = r.iter().map(|x| x.0).collect();
                        if ids.len() != r.len() {
                            out.fails.push((None, format!("duplicate node in the result {:?}", r)));
                        }
                        let live: BTreeSet<u32> = d.snapshot().nodes().collect();
                        for (j, (id, dd)) in r.iter().enumerate() {
                            match stored.get(id) {
                                None => out.fails.push((None, format!("result node {id} has no stored vector"))),
                                Some(v) => {
                                    let exact = d2(q, v);
                                    if !ulp_close(dists[j], (exact as f64).sqrt()) {
                                        // distance of an older vector of a re-inserted node?
                                        let stale = ever.get(id).map(|vs| vs.iter().any(|w| d2(q, w) == *dd)).unwrap_or(false);
                                        let cls = if stale && ever[id].len() > 1 { Some("K-C31-stale-vector") } else { None };
                                        out.fails.push((cls, format!("node {id}: reported distance {} but exact distance is sqrt({exact})", dists[j])));
                                    }
                                    if !live.contains(id) {
                                        out.fails.push((None, format!("result node {id} does not exist (deleted: {})", deleted.contains(id))));
                                    }
                                }
                            }
                            if j > 0 && dists[j - 1] > dists[j] {
                                out.fails.push((None, format!("results not sorted by distance: {:?}", dists)));
                            }
                        }
                        // exactness for small indexes
                        let _ = n_live;
                        if n <= 2 * c.m + 1 && c.efs >= n {
                            let got: Vec<u64> = r.iter().map(|x| x.1).collect();
                            let want: Vec<u64> = bf.iter().map(|x| x.1).collect();
                            if got != want {
                                let cls = if reinserted { Some("K-C31-reinsert") } else { None };
                                out.fails.push((cls, format!("index holds {n} <= 2m+1 = {} vectors but the result distances {:?} are not the k nearest {:?}", 2 * c.m + 1, got, want)));
                            }
                        }
                    }
                    IRes::NotFound => out.fails.push((None, "search failed: Vector not found".into())),
                    IRes::Other(s) => out.fails.push((None, format!("search failed: {s}"))),
                }
                // unchanged by reopening
                if let Some(before) = &after_reopen {
                    if let Some((_, _, rb)) = before.iter().find(|(qq, kk, _)| qq == q && kk == k) {
                        if *rb != ir {
                            let cls = if reinserted { Some("K-C31-stale-vector") } else { None };
                            out.fails.push((cls, format!("result changed by reopening: before {:?}, after {:?}", rb, ir)));
                        }
                    }
                }
                since_mut.push((q.clone(), *k, ir));
            }
        }
    }
    drop(db);
    Ok(out)
}

fn main() {
    let a = args();
    quiet_panics();
    let mut r = Rng::new(a.seed);
    let mut cw = CaseWriter::new(&a.out, "Corr.C31", 3);
    let mut rep = Report::new(&a.out);
    let mut hist = BTreeMap::<String, u64>::new();
    let mut distinct = BTreeSet::<String>::new();
    let base = if std::path::Path::new("/dev/shm").is_dir() { std::path::PathBuf::from("/dev/shm") } else { std::env::temp_dir() };
    let corpus = corpus();
    let mut searches = 0usize;
    let mut nfail = 0usize;
    for idx in 0..a.n {
        let c = if idx < corpus.len() { corpus[idx].clone() } else { gen_case(&mut r, &a.tier) };
        let o = match run_case(&c, &base) {
            Ok(o) => o,
            Err(e) => {
                rep.fail(idx, None, &format!("harness could not run the case: {e}"), json!({"m": c.m, "tag": c.tag}));
                nfail += 1;
                continue;
            }
        };
        let term = format!(
            "{{| c_m := {}%nat; c_efc := {}%nat; c_efs := {}%nat; c_ops := [\n    {}] |}}",
            c.m, c.efc, c.efs, o.coq_ops.join(";\n    ")
        );
        cw.push(term);
        let input = json!({"m": c.m, "ef_construction": c.efc, "ef_search": c.efs, "nodes": c.nodes, "tag": c.tag, "ops": o.js_ops});
        if idx < corpus.len() + 1 {
            rep.case(idx, input.clone());
        }
        *hist.entry(format!("regime:{}", c.tag)).or_insert(0) += 1;
        *hist.entry(format!("m:{}", c.m)).or_insert(0) += 1;
        *hist.entry(format!("vectors:{}", match o.max_vectors { 0..=5 => "1-5", 6..=33 => "6-33", 34..=60 => "34-60", _ => "61+" })).or_insert(0) += 1;
        *hist.entry("ops:insert".into()).or_insert(0) += c.ops.iter().filter(|o| matches!(o, Op::Ins { .. })).count() as u64;
        *hist.entry("ops:delete".into()).or_insert(0) += c.ops.iter().filter(|o| matches!(o, Op::Del(_))).count() as u64;
        *hist.entry("ops:reopen".into()).or_insert(0) += c.ops.iter().filter(|o| matches!(o, Op::Reopen { .. })).count() as u64;
        *hist.entry("ops:search".into()).or_insert(0) += o.n_search as u64;
        *hist.entry("inserts-above-layer-0".into()).or_insert(0) += o.levels_pos as u64;
        searches += o.n_search;
        if o.n_nonempty > 0 && o.max_vectors >= 2 {
            distinct.insert(format!("{:?}", o.js_ops));
        }
        let mut seen = BTreeSet::new();
        for (cls, what) in &o.fails {
            // one report line per (case, class)
            if seen.insert(cls.map(|s| s.to_string())) {
                rep.fail(idx, *cls, what, input.clone());
                if cls.is_none() {
                    nfail += 1;
                }
            }
            *hist.entry(format!("direct-failure:{}", cls.unwrap_or("unknown"))).or_insert(0) += 1;
        }
    }
    cw.flush();
    rep.stats(json!({
        "evaluations": a.n,
        "corr_cases": a.n,
        "searches": searches,
        "distinct_nontrivial": distinct.len(),
        "rule": "one case = a history (set_vector with the drawn level, delete, close/open, search) on a fresh database; integer vectors of dimension 1-4, coordinate ranges 1..40 (ties and duplicates frequent), m in 1..16, ef in 1..200; regimes small (<= 2m+1 vectors) 45%, medium (<= 60) 45%, large 10%; re-insertion / deletion / forced levels each in a third to a quarter of the cases; non-trivial = at least two vectors and at least one non-empty search result, distinct by the whole history",
        "histogram": hist,
        "direct_failures_unknown": nfail,
        "case_files": cw.files.iter().map(|p| p.to_string_lossy().to_string()).collect::<Vec<_>>(),
    }));
    rep.finish();
}
