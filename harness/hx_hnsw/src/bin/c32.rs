//! C32 — node identities are unique and allocation never fails: correspondence + direct search.
//!
//! One case = a history of creating Cypher statements run through nervusdb_query with a
//! CONTROLLED clock (hook nervusdb_query::verif_clock: one sample per created node),
//! grouped into transactions that are committed or abandoned, with compaction and
//! close/reopen in between.  After every commit / abandon / compact / reopen the id map
//! is dumped as (internal id, external id) through GraphSnapshot::resolve_external.
use nervusdb::{Db, GraphSnapshot};
use nervusdb_query::{Params, prepare, verif_clock};
use serde_json::json;
use std::collections::{BTreeMap, BTreeSet};
use vh::*;

#[derive(Clone, Debug)]
struct Stmt {
    cypher: String,
    nn: u64,
    ne: u64,
    rows: u64,
    clocks: Vec<i64>,
}

#[derive(Clone, Debug)]
enum Op {
    Txn { stmts: Vec<Stmt>, commit: bool },
    Compact,
    Reopen { close: bool },
}

struct Case {
    ops: Vec<Op>,
    clock_mode: &'static str,
}

const BASE: i64 = 1_700_000_000_000_000_000;

struct Clock {
    mode: &'static str,
    now: i64,
}
impl Clock {
    fn sample(&mut self, r: &mut Rng) -> i64 {
        match self.mode {
            "real" => {
                self.now += r.range(200, 5000);
                self.now
            }
            "slow" => {
                self.now += r.range(0, 1);
                self.now
            }
            "coarse-us" => {
                self.now += r.range(100, 900);
                self.now / 1000 * 1000
            }
            "coarse-ms" => {
                self.now += r.range(200, 5000);
                self.now / 1_000_000 * 1_000_000
            }
            "stalled" => {
                if r.chance(1, 40) {
                    self.now += r.range(1, 3000);
                }
                self.now
            }
            _ => {
                // backwards: mostly advancing, sometimes stepping back
                if r.chance(1, 6) {
                    self.now -= r.range(1, 2000);
                } else {
                    self.now += r.range(0, 800);
                }
                self.now
            }
        }
    }
    fn between_statements(&mut self, r: &mut Rng) {
        match self.mode {
            "real" | "coarse-us" | "coarse-ms" => self.now += r.range(1_000, 3_000_000),
            "slow" => self.now += r.range(0, 3),
            "stalled" => {}
            _ => self.now += r.range(-1500, 3000),
        }
    }
}

fn gen_stmt(r: &mut Rng, clock: &mut Clock, fresh: &mut u64, big: bool) -> Stmt {
    let n = if big { r.range(300, 1500) as u64 } else { *r.pick(&[1u64, 1, 2, 3, 5, 8, 20, 40]) };
    *fresh += 1;
    let (cypher, nn, ne, rows) = match r.below(if big { 2 } else { 6 }) {
        0 | 1 => (format!("UNWIND range(1, {n}) AS i CREATE (:L {{i: i}})"), 1, 0, n),
        2 => ("CREATE (:A {name: 'x'})".to_string(), 1, 0, 1),
        3 => (format!("UNWIND range(1, {n}) AS i CREATE (:A {{i: i}})-[:R]->(:B)"), 2, 1, n),
        4 => ("CREATE (:A)-[:R]->(:B)-[:S]->(:C)".to_string(), 3, 2, 1),
        _ => (format!("MERGE (:M {{k: {}}})", *fresh), 1, 0, 1),
    };
    let clocks = (0..rows * nn).map(|_| clock.sample(r)).collect();
    Stmt { cypher, nn, ne, rows, clocks }
}

fn gen_case(r: &mut Rng) -> Case {
    let mode = *r.pick(&["real", "slow", "coarse-us", "coarse-ms", "stalled", "backwards", "backwards", "stalled"]);
    let mut clock = Clock { mode, now: BASE + r.range(0, 1_000_000_000) };
    let volume = r.chance(1, 10);
    let ntx = if volume { r.range(1, 3) } else { r.range(2, 10) };
    let mut ops = vec![];
    let mut fresh = 0u64;
    for _ in 0..ntx {
        let ns = *r.pick(&[1usize, 1, 1, 2, 3]);
        let mut stmts = vec![];
        for _ in 0..ns {
            let big = volume && r.chance(1, 2);
            stmts.push(gen_stmt(r, &mut clock, &mut fresh, big));
            clock.between_statements(r);
        }
        ops.push(Op::Txn { stmts, commit: r.chance(5, 6) });
        if !volume && r.chance(1, 6) {
            ops.push(Op::Compact);
        }
        if r.chance(1, 6) {
            ops.push(Op::Reopen { close: r.chance(1, 2) });
        }
    }
    ops.push(Op::Reopen { close: true });
    Case { ops, clock_mode: mode }
}

fn one(cypher: &str, clocks: &[i64]) -> Stmt {
    Stmt { cypher: cypher.into(), nn: 1, ne: 0, rows: clocks.len() as u64, clocks: clocks.to_vec() }
}

/// witnesses of the known finding K-C32-clock (they run first)
fn corpus() -> Vec<Case> {
    vec![
        // stalled clock across two statements / two transactions
        Case {
            ops: vec![
                Op::Txn { stmts: vec![one("CREATE (:A)", &[BASE + 5])], commit: true },
                Op::Txn { stmts: vec![one("CREATE (:A)", &[BASE + 5])], commit: true },
                Op::Reopen { close: true },
            ],
            clock_mode: "corpus-stalled",
        },
        // two statements in one transaction with the same sample
        Case {
            ops: vec![Op::Txn { stmts: vec![one("CREATE (:A)", &[BASE + 7]), one("CREATE (:B)", &[BASE + 7])], commit: true }],
            clock_mode: "corpus-same-txn",
        },
        // clock stepping back by one inside a statement
        Case {
            ops: vec![Op::Txn { stmts: vec![one("UNWIND range(1, 2) AS i CREATE (:L {i: i})", &[BASE + 5, BASE + 4])], commit: true }],
            clock_mode: "corpus-backwards",
        },
        // strictly increasing clock: ids t,t+2,t+4 then a statement at t+4
        Case {
            ops: vec![
                Op::Txn { stmts: vec![one("UNWIND range(1, 3) AS i CREATE (:L {i: i})", &[BASE + 10, BASE + 11, BASE + 12])], commit: true },
                Op::Compact,
                Op::Txn { stmts: vec![one("CREATE (:A)", &[BASE + 14])], commit: true },
            ],
            clock_mode: "corpus-increasing",
        },
        // relationships advance the counter: rows of 2 nodes + 1 relationship, stalled clock -> t, t+1, t+3, t+4
        Case {
            ops: vec![
                Op::Txn {
                    stmts: vec![Stmt { cypher: "UNWIND range(1, 2) AS i CREATE (:A {i: i})-[:R]->(:B)".into(), nn: 2, ne: 1, rows: 2, clocks: vec![BASE + 100; 4] }],
                    commit: true,
                },
                Op::Txn { stmts: vec![one("CREATE (:A)", &[BASE + 102])], commit: true },
                Op::Txn { stmts: vec![one("CREATE (:A)", &[BASE + 103])], commit: true },
            ],
            clock_mode: "corpus-rel-counter",
        },
    ]
}

fn wanted(s: &Stmt) -> Vec<u64> {
    let mut out = vec![];
    let (mut count, mut j) = (0u64, 0u64);
    for t in &s.clocks {
        out.push(count.wrapping_add(*t as u64));
        j += 1;
        if j >= s.nn {
            count += 1 + s.ne;
            j = 0;
        } else {
            count += 1;
        }
    }
    out
}

fn dump(db: &Db, upto: u32) -> Vec<(u32, u64)> {
    let snap = db.snapshot();
    let mut v = vec![];
    for iid in 0..upto {
        if let Some(e) = snap.resolve_external(iid) {
            v.push((iid, e));
        }
    }
    v
}

fn coq_dump(d: &[(u32, u64)]) -> String {
    coq_list(d, |(i, e)| format!("({}, {})", coq_n(*i as u128), coq_n(*e as u128)))
}

struct Outcome {
    coq_ops: Vec<String>,
    js_ops: Vec<serde_json::Value>,
    fails: Vec<(Option<&'static str>, String)>,
    stmts: usize,
    stmts_failed: usize,
    nodes: usize,
}

fn run_case(c: &Case, base: &std::path::Path) -> Result<Outcome, String> {
    let dir = tempfile::Builder::new().prefix("c32-").tempdir_in(base).map_err(|e| e.to_string())?;
    let path = dir.path().join("db");
    let mut db = Some(Db::open(&path).map_err(|e| format!("open: {e}"))?);
    verif_clock::clear_samples();
    let _ = verif_clock::take_used();
    let mut out = Outcome { coq_ops: vec![], js_ops: vec![], fails: vec![], stmts: 0, stmts_failed: 0, nodes: 0 };
    let mut committed: Vec<u64> = vec![];
    let mut last_dump: Vec<(u32, u64)> = vec![];
    let mut attempted: u32 = 0;
    let check_dump = |what: &str, d: &[(u32, u64)], last: &mut Vec<(u32, u64)>, fails: &mut Vec<(Option<&'static str>, String)>| {
        let exts: BTreeSet<u64> = d.iter().map(|x| x.1).collect();
        if exts.len() != d.len() {
            fails.push((None, format!("after {what}: two nodes share an external id")));
        }
        for (pos, (iid, _)) in d.iter().enumerate() {
            if *iid as usize != pos {
                fails.push((None, format!("after {what}: internal ids are not dense (position {pos} holds {iid})")));
                break;
            }
        }
        if d.len() < last.len() || d[..last.len()] != last[..] {
            fails.push((None, format!("after {what}: an existing node changed its identity or disappeared from the id map")));
        }
        *last = d.to_vec();
    };
    for op in &c.ops {
        match op {
            Op::Txn { stmts, commit } => {
                let d = db.as_ref().unwrap();
                let mut txn = d.begin_write();
                let mut pending: Vec<u64> = vec![];
                for s in stmts {
                    out.stmts += 1;
                    attempted += (s.rows * s.nn) as u32;
                    let snap = d.snapshot();
                    let q = prepare(&s.cypher).map_err(|e| format!("prepare {}: {e}", s.cypher))?;
                    verif_clock::push_samples(&s.clocks);
                    let res = catch(std::panic::AssertUnwindSafe(|| q.execute_write(&snap, &mut txn, &Params::new())));
                    let used = verif_clock::take_used();
                    let left = verif_clock::clear_samples();
                    let w = wanted(s);
                    // harness-side mirror of the class predicate `collides`
                    let mut seen: BTreeSet<u64> = committed.iter().chain(pending.iter()).copied().collect();
                    let mut first_collision = None;
                    for (i, e) in w.iter().enumerate() {
                        if !seen.insert(*e) {
                            first_collision = Some(i);
                            break;
                        }
                    }
                    let ok = matches!(res, Ok(Ok(_)));
                    let claimed = first_collision.unwrap_or(w.len());
                    pending.extend_from_slice(&w[..claimed]);
                    if ok {
                        if left != 0 || used.len() != s.clocks.len() {
                            return Err(format!("statement {} consumed {} of {} samples: the shape model of the harness is wrong", s.cypher, used.len(), s.clocks.len()));
                        }
                    } else {
                        out.stmts_failed += 1;
                        let msg = match &res {
                            Err(p) => format!("panic: {p}"),
                            Ok(Err(e)) => e.to_string(),
                            _ => unreachable!(),
                        };
                        let is_dup = msg.contains("external id already exists") || msg.contains("duplicate external id");
                        let cls = if first_collision.is_some() && is_dup && used.len() == claimed + 1 { Some("K-C32-clock") } else { None };
                        out.fails.push((cls, format!("creating nodes failed because of identity allocation: `{}` -> {msg} (clock {})", s.cypher, c.clock_mode)));
                    }
                    out.coq_ops.push(format!(
                        "CStmt {} {} {} {}",
                        coq_n(s.nn as u128), coq_n(s.ne as u128),
                        coq_list(&s.clocks, |t| coq_n(*t as u128)), coq_bool(ok)
                    ));
                    out.js_ops.push(json!({"stmt": s.cypher, "clocks_minus_base": s.clocks.iter().map(|t| t - BASE).collect::<Vec<_>>(), "ok": ok}));
                }
                if *commit {
                    if let Err(e) = txn.commit() {
                        out.fails.push((None, format!("commit failed: {e}")));
                        return Ok(out);
                    }
                    committed.extend(pending);
                } else {
                    drop(txn);
                }
                let dmp = dump(d, attempted + 8);
                check_dump(if *commit { "commit" } else { "abandon" }, &dmp, &mut last_dump, &mut out.fails);
                out.coq_ops.push(format!("{} {}", if *commit { "CCommit" } else { "CAbandon" }, coq_dump(&dmp)));
                out.js_ops.push(json!({"end": if *commit { "commit" } else { "abandon" }, "nodes": dmp.len()}));
            }
            Op::Compact => {
                let d = db.as_ref().unwrap();
                match catch(std::panic::AssertUnwindSafe(|| d.compact())) {
                    Ok(Ok(())) => {}
                    Ok(Err(e)) => return Err(format!("compact: {e}")),
                    Err(p) => return Err(format!("compact panicked: {p}")),
                }
                let dmp = dump(d, attempted + 8);
                check_dump("compact", &dmp, &mut last_dump, &mut out.fails);
                out.coq_ops.push(format!("CCompact {}", coq_dump(&dmp)));
                out.js_ops.push(json!({"compact": dmp.len()}));
            }
            Op::Reopen { close } => {
                let d = db.take().unwrap();
                if *close {
                    d.close().map_err(|e| format!("close: {e}"))?;
                } else {
                    drop(d);
                }
                db = Some(Db::open(&path).map_err(|e| format!("reopen: {e}"))?);
                let dmp = dump(db.as_ref().unwrap(), attempted + 8);
                check_dump("reopen", &dmp, &mut last_dump, &mut out.fails);
                out.coq_ops.push(format!("CReopen {}", coq_dump(&dmp)));
                out.js_ops.push(json!({"reopen": dmp.len()}));
            }
        }
    }
    out.nodes = last_dump.len();
    Ok(out)
}

fn main() {
    let a = args();
    quiet_panics();
    let mut r = Rng::new(a.seed);
    let mut cw = CaseWriter::new(&a.out, "Corr.C32", 10);
    let mut rep = Report::new(&a.out);
    let mut hist = BTreeMap::<String, u64>::new();
    let mut distinct = BTreeSet::<String>::new();
    let base = if std::path::Path::new("/dev/shm").is_dir() { std::path::PathBuf::from("/dev/shm") } else { std::env::temp_dir() };
    let corpus = corpus();
    let mut unknown = 0usize;
    for idx in 0..a.n {
        let c = if idx < corpus.len() {
            Case { ops: corpus[idx].ops.clone(), clock_mode: corpus[idx].clock_mode }
        } else {
            gen_case(&mut r)
        };
        let o = match run_case(&c, &base) {
            Ok(o) => o,
            Err(e) => {
                rep.fail(idx, None, &format!("harness could not run the case: {e}"), json!({"clock": c.clock_mode}));
                unknown += 1;
                continue;
            }
        };
        cw.push(format!("{{| c_ops := [\n    {}] |}}", o.coq_ops.join(";\n    ")));
        let input = json!({"clock": c.clock_mode, "ops": o.js_ops});
        if idx < corpus.len() + 1 {
            rep.case(idx, input.clone());
        }
        *hist.entry(format!("clock:{}", c.clock_mode)).or_insert(0) += 1;
        *hist.entry("statements".into()).or_insert(0) += o.stmts as u64;
        *hist.entry("statements-failed".into()).or_insert(0) += o.stmts_failed as u64;
        *hist.entry(format!("nodes:{}", match o.nodes { 0..=9 => "0-9", 10..=99 => "10-99", 100..=511 => "100-511", _ => "512+" })).or_insert(0) += 1;
        *hist.entry("ops:compact".into()).or_insert(0) += c.ops.iter().filter(|o| matches!(o, Op::Compact)).count() as u64;
        *hist.entry("ops:reopen".into()).or_insert(0) += c.ops.iter().filter(|o| matches!(o, Op::Reopen { .. })).count() as u64;
        if o.nodes >= 2 && o.stmts >= 2 {
            distinct.insert(format!("{:?}", o.coq_ops));
        }
        let mut seen = BTreeSet::new();
        for (cls, what) in &o.fails {
            if seen.insert(cls.map(|s| s.to_string())) {
                rep.fail(idx, *cls, what, input.clone());
                if cls.is_none() {
                    unknown += 1;
                }
            }
            *hist.entry(format!("direct-failure:{}", cls.unwrap_or("unknown"))).or_insert(0) += 1;
        }
    }
    cw.flush();
    rep.stats(json!({
        "evaluations": a.n,
        "corr_cases": a.n,
        "distinct_nontrivial": distinct.len(),
        "rule": "one case = 2-10 transactions of 1-3 creating statements (UNWIND..CREATE of 1-40 nodes, node-relationship patterns, MERGE; 10% volume cases with 300-1500 nodes per statement) under a controlled clock (real, slow, coarse us/ms, stalled, stepping backwards), 1/6 abandoned, compaction and close/open in between; non-trivial = at least two statements and two committed nodes, distinct by the whole history",
        "histogram": hist,
        "direct_failures_unknown": unknown,
        "case_files": cw.files.iter().map(|p| p.to_string_lossy().to_string()).collect::<Vec<_>>(),
    }));
    rep.finish();
}
