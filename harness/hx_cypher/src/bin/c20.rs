//! C20 — ORDER BY sorts and SKIP/LIMIT slice it.
//! Runs `UNWIND $rows AS r WITH r.i AS i, r.a AS a, r.b AS b RETURN i, a, b ORDER BY a [DESC][, b [DESC]] SKIP s LIMIT l`
//! through the engine; writes Coq cases (Corr.C20: model = stable insertion sort by the
//! modelled comparator + firstn/skipn) and tests the property directly: permutation,
//! slice positions, sortedness w.r.t. an independent exact comparator, stability.
use hx_cypher::*;
use nervusdb_query::evaluator::order_compare;
use serde_json::json;
use std::cmp::Ordering;
use std::collections::{BTreeMap, BTreeSet};
use vh::*;

/// independent order of flat keys (null, bool, numbers incl. NaN, plain strings): Cypher orderability
/// as the engine documents it (string < boolean < number < NaN < null), numbers by exact value
fn flat_rank(v: &V) -> Option<u8> {
    Some(match v {
        V::String(_) => 5,
        V::Bool(_) => 6,
        V::Int(_) => 7,
        V::Float(f) if f.is_nan() => 8,
        V::Float(_) => 7,
        V::Null => 10,
        _ => return None,
    })
}
fn flat_cmp(a: &V, b: &V) -> Option<Ordering> {
    let (ra, rb) = (flat_rank(a)?, flat_rank(b)?);
    if ra != rb {
        return Some(ra.cmp(&rb));
    }
    Some(match (a, b) {
        (V::String(x), V::String(y)) => x.as_bytes().cmp(y.as_bytes()),
        (V::Bool(x), V::Bool(y)) => x.cmp(y),
        (V::Null, V::Null) => Ordering::Equal,
        _ if ra == 8 => Ordering::Equal,
        _ => exact_num_cmp(a, b)?,
    })
}
#[allow(dead_code)]
fn has_nan_in_map(v: &V, in_map: bool) -> bool {
    match v {
        V::Float(f) => in_map && f.is_nan(),
        V::List(l) => l.iter().any(|x| has_nan_in_map(x, in_map)),
        V::Map(m) => m.values().any(|x| has_nan_in_map(x, true)),
        _ => false,
    }
}

#[derive(Clone)]
struct Case {
    keys: Vec<(V, V)>, // (a, b) per row
    nkeys: usize,      // 1 or 2
    asc: [bool; 2],
    skip: usize,
    limit: usize,
}

fn query(c: &Case, sliced: bool) -> String {
    let d = |x: bool| if x { "" } else { " DESC" };
    let mut q = format!("UNWIND $rows AS r WITH r.i AS i, r.a AS a, r.b AS b RETURN i, a, b ORDER BY a{}", d(c.asc[0]));
    if c.nkeys == 2 {
        q += &format!(", b{}", d(c.asc[1]));
    }
    if sliced {
        q += &format!(" SKIP {} LIMIT {}", c.skip, c.limit);
    }
    q
}

fn main() {
    let a = args();
    quiet_panics();
    let mut r = Rng::new(a.seed);
    let eng = Engine::new();
    let mut orc = Oracle::new();
    let mut cw = CaseWriter::new(&a.out, "Corr.C20", 150);
    let mut rep = Report::new(&a.out);
    let mut hist = BTreeMap::<String, u64>::new();
    let mut distinct = BTreeSet::<String>::new();
    let mut fails = 0u64;
    let mut evals = 0u64;

    let s = |x: &str| V::String(x.to_string());
    let one = |vs: Vec<V>| -> Case {
        let n = vs.len();
        Case { keys: vs.into_iter().map(|v| (v, V::Null)).collect(), nkeys: 1, asc: [true, true], skip: 0, limit: n }
    };
    let nanmap = |f: f64| {
        let mut m = BTreeMap::new();
        m.insert("a".to_string(), V::Float(f));
        V::Map(m)
    };
    let corpus: Vec<Case> = vec![
        // repaired: int/float comparison by cast (was returned in this, unsorted, order)
        one(vec![V::Int((1 << 53) + 1), V::Float(9007199254740992.0), V::Int(1 << 53)]),
        one(vec![V::Int(i64::MAX), V::Float(9223372036854775808.0), V::Int(i64::MAX - 1), V::Float(9223372036854774784.0)]),
        // K-C20-temporal: a 3-cycle of the comparator
        one(vec![s("2020-x"), s("2020-01-02"), s("20200101")]),
        one(vec![s("20200101"), s("2020-x"), s("2020-01-02")]),
        // repaired (was K-C20-mapnan): maps containing NaN
        one(vec![nanmap(2.0), nanmap(f64::NAN), nanmap(1.0)]),
        // cross-type order, nulls and NaN placement
        one(vec![V::Null, V::Float(f64::NAN), V::Float(f64::INFINITY), V::Int(0), V::Bool(true), V::Bool(false), s("z"), s(""), V::List(vec![]), V::Map(BTreeMap::new()), V::NodeId(0)]),
    ];

    for idx in 0..a.n {
        let c = if idx < corpus.len() {
            corpus[idx].clone()
        } else {
            let n = r.below(9) as usize;
            // key palette per case: flat homogeneous-ish, flat mixed, or anything
            let style = r.below(10);
            let genk = |r: &mut Rng| -> V {
                match style {
                    0..=2 => match r.below(8) {
                        0 => V::Null,
                        1 => V::Float(f64::NAN),
                        2..=4 => V::Int(gen_int(r)),
                        _ => V::Float(f64::from_bits(gen_float_bits(r))),
                    },
                    3..=5 => gen_scalar(r, 0),
                    6 => gen_scalar(r, 60),
                    _ => gen_value(r, 2, 10),
                }
            };
            let mut keys: Vec<(V, V)> = vec![];
            for i in 0..n {
                let ka = if i > 0 && r.chance(2, 5) { if r.chance(1, 2) { keys[i - 1].0.clone() } else { mutate(&mut r, &keys[i - 1].0.clone()) } } else { genk(&mut r) };
                let kb = if r.chance(1, 2) { V::Int(r.range(0, 2)) } else { genk(&mut r) };
                keys.push((ka, kb));
            }
            Case { keys, nkeys: 1 + r.below(2) as usize, asc: [r.chance(1, 2), r.chance(1, 2)], skip: r.below(n as u64 + 2) as usize, limit: r.below(n as u64 + 2) as usize }
        };
        let n = c.keys.len();
        let rows_param = V::List(
            c.keys
                .iter()
                .enumerate()
                .map(|(i, (ka, kb))| {
                    let mut m = BTreeMap::new();
                    m.insert("i".to_string(), V::Int(i as i64));
                    m.insert("a".to_string(), ka.clone());
                    m.insert("b".to_string(), kb.clone());
                    V::Map(m)
                })
                .collect(),
        );
        let input = json!({"query": query(&c, true), "keys": c.keys.iter().map(|(x, y)| json!([js_value(x), js_value(y)])).collect::<Vec<_>>()});
        evals += 1;
        let (full, sliced) = match (eng.rows(&query(&c, false), &[("rows", rows_param.clone())]), eng.rows(&query(&c, true), &[("rows", rows_param.clone())])) {
            (Ok(f), Ok(s)) => (f, s),
            (e1, e2) => {
                fails += 1;
                rep.fail(idx, None, &format!("ORDER BY query failed: {:?} {:?}", e1.err(), e2.err()), input);
                continue;
            }
        };
        // ----- direct search -----
        let all_vals: Vec<&V> = c.keys.iter().flat_map(|(x, y)| if c.nkeys == 2 { vec![x, y] } else { vec![x] }).collect();
        let temporal = orc.any_temporal(&eng, &all_vals);
        let class = if temporal { Some("K-C20-temporal") } else { None };
        let idx_of = |row: &Vec<V>| match &row[0] { V::Int(i) => *i as usize, _ => usize::MAX };
        // permutation of the input
        let mut seen: Vec<usize> = full.iter().map(idx_of).collect();
        seen.sort();
        if seen != (0..n).collect::<Vec<_>>() || full.iter().any(|row| { let i = idx_of(row); i >= n || !same(&row[1], &c.keys[i].0) || !same(&row[2], &c.keys[i].1) }) {
            fails += 1;
            rep.fail(idx, None, "ORDER BY output is not a permutation of the input rows", input.clone());
            continue;
        }
        // SKIP s LIMIT l = positions s .. s+l-1
        let want: Vec<&Vec<V>> = full.iter().skip(c.skip).take(c.limit).collect();
        if want.len() != sliced.len() || want.iter().zip(&sliced).any(|(x, y)| x.len() != y.len() || x.iter().zip(y.iter()).any(|(p, q)| !same(p, q))) {
            fails += 1;
            rep.fail(idx, None, "SKIP/LIMIT output differs from positions s..s+l-1 of the ordered output", input.clone());
        }
        // sortedness: every pair i<j of the output must not be in descending order
        let row_cmp = |x: &Vec<V>, y: &Vec<V>, f: &dyn Fn(&V, &V) -> Option<Ordering>| -> Option<Ordering> {
            for k in 0..c.nkeys {
                let o = f(&x[1 + k], &y[1 + k])?;
                if o != Ordering::Equal {
                    return Some(if c.asc[k] { o } else { o.reverse() });
                }
            }
            Some(Ordering::Equal)
        };
        let mut unsorted_indep = false;
        let mut unsorted_own = false;
        let mut unstable = false;
        let mut flat = true;
        for i in 0..full.len() {
            for j in i + 1..full.len() {
                match row_cmp(&full[i], &full[j], &flat_cmp) {
                    Some(Ordering::Greater) => unsorted_indep = true,
                    Some(Ordering::Equal) => {
                        if idx_of(&full[i]) > idx_of(&full[j]) {
                            unstable = true;
                        }
                    }
                    Some(_) => {}
                    None => flat = false,
                }
                if row_cmp(&full[i], &full[j], &|p, q| Some(order_compare(p, q))) == Some(Ordering::Greater) {
                    unsorted_own = true;
                }
            }
        }
        if flat && !temporal && (unsorted_indep || unstable) {
            fails += 1;
            rep.fail(idx, None, if unsorted_indep { "ORDER BY output is not sorted (independent exact comparator, flat keys)" } else { "ORDER BY is not stable on equal keys" }, input.clone());
        } else if unsorted_own {
            fails += 1;
            rep.fail(idx, class, "ORDER BY output is not sorted w.r.t. the engine's own comparator (comparator not transitive on these keys)", input.clone());
        }
        // ----- correspondence case -----
        let mut ok_terms = true;
        let mut rows_c = vec![];
        for (i, (ka, kb)) in c.keys.iter().enumerate() {
            let (Some(ca), Some(cb)) = (coq_value(ka), coq_value(kb)) else { ok_terms = false; break };
            let keys = if c.nkeys == 2 { format!("[({}, {}); ({}, {})]", ca, coq_bool(c.asc[0]), cb, coq_bool(c.asc[1])) } else { format!("[({}, {})]", ca, coq_bool(c.asc[0])) };
            rows_c.push(format!("({}, [VInt {}; {}; {}])", keys, coq_z(i as i128), ca, cb));
        }
        let mut impl_c = vec![];
        for row in &sliced {
            let mut cells = vec![];
            for v in row {
                match coq_value(v) { Some(t) => cells.push(t), None => ok_terms = false }
            }
            impl_c.push(format!("[{}]", cells.join("; ")));
        }
        if !ok_terms {
            *hist.entry("skipped:outside-model".into()).or_insert(0) += 1;
            continue;
        }
        let table = orc.coq_table(&eng, &all_vals);
        cw.push(format!("{{| tpt := {}; rows := [{}]; skip := {}; limit := {}; impl := [{}] |}}", table, rows_c.join("; "), c.skip, c.limit, impl_c.join("; ")));
        *hist.entry(format!("rows:{}", n)).or_insert(0) += 1;
        *hist.entry(format!("keys:{}{}", c.nkeys, if flat { ":flat" } else { ":nested" })).or_insert(0) += 1;
        if temporal { *hist.entry("with-temporal-string".into()).or_insert(0) += 1; }
        let moved = full.iter().enumerate().any(|(p, row)| idx_of(row) != p);
        if moved && n >= 2 {
            distinct.insert(format!("{:?}", input));
        }
        if idx < corpus.len() + 2 {
            rep.case(idx, json!({"input": input, "output": sliced.iter().map(|row| row.iter().map(js_value).collect::<Vec<_>>()).collect::<Vec<_>>()}));
        }
    }
    cw.flush();
    rep.stats(json!({
        "evaluations": evals,
        "corr_cases": cw.total,
        "distinct_nontrivial": distinct.len(),
        "rule": "0-8 rows with one or two sort keys (ASC/DESC each), key palettes: numbers incl. NaN/null 30%, flat scalars 30%, scalars with 60% temporal-looking strings 10%, nested lists/maps/ids 30%; 40% of keys duplicates or neighbours of the previous key; random SKIP/LIMIT in 0..n+1; non-trivial = at least two rows and the output order differs from the input order, distinct by (query, keys)",
        "histogram": hist,
        "direct_failures": fails,
        "case_files": cw.files.iter().map(|p| p.to_string_lossy().to_string()).collect::<Vec<_>>(),
    }));
    rep.finish();
}
