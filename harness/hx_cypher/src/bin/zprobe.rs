//! probe (not part of a check): are the grouping keys 0.0 and -0.0 merged or separated?
//! `Hash for Value` hashes float bits, `==` is IEEE: a HashMap may do either, depending on the
//! per-map random hasher.  Prints how often each outcome occurs over fresh executions.
use hx_cypher::*;
use std::collections::BTreeMap;
fn main() {
    let eng = Engine::new();
    let mk = |k: f64, v: i64| {
        let mut m = BTreeMap::new();
        m.insert("k".to_string(), V::Float(k));
        m.insert("v".to_string(), V::Int(v));
        V::Map(m)
    };
    let n: usize = std::env::args().nth(1).and_then(|s| s.parse().ok()).unwrap_or(5000);
    let mut outcomes = BTreeMap::<String, usize>::new();
    for _ in 0..n {
        let rows = eng
            .rows("UNWIND $rows AS r WITH r.k AS k, r.v AS v RETURN k, count(*), sum(v)", &[("rows", V::List(vec![mk(0.0, 1), mk(-0.0, 2), mk(0.0, 4)]))])
            .unwrap();
        let mut desc: Vec<String> = rows.iter().map(|r| format!("{:?}", r)).collect();
        desc.sort();
        *outcomes.entry(format!("{} row(s): {}", rows.len(), desc.join(" | "))).or_insert(0) += 1;
    }
    for (k, v) in outcomes {
        println!("{v:6} x {k}");
    }
}
