//! C23 — expression evaluation obeys Cypher laws.
//! (1) correspondence: random expressions over parameters are evaluated by the
//!     engine (`RETURN <expr>`); the expression, the temporal-oracle table and the
//!     engine's result go into Coq case files (Corr.C23, model `eval`).
//! (2) direct search: the laws themselves on the engine's answers.
use hx_cypher::*;
use serde_json::json;
use std::cmp::Ordering;
use std::collections::{BTreeMap, BTreeSet};
use vh::*;

#[derive(Clone)]
enum E {
    P(usize),
    Var(usize), // 0 = acc, 1 = x (inside reduce only)
    List(Vec<E>),
    Un(&'static str, Box<E>),
    Bin(&'static str, Box<E>, Box<E>),
    Reduce(Box<E>, Box<E>, Box<E>),
}
const BINOPS: &[(&str, &str)] = &[
    ("=", "BEq"), ("<>", "BNeq"), ("<", "BLt"), ("<=", "BLe"), (">", "BGt"), (">=", "BGe"),
    ("AND", "BAnd"), ("OR", "BOr"), ("XOR", "BXor"),
    ("+", "BAdd"), ("-", "BSub"), ("*", "BMul"), ("/", "BDiv"), ("%", "BMod"),
];
const UNOPS: &[(&str, &str)] = &[("NOT", "UNot"), ("-", "UNeg"), ("abs", "UAbs"), ("IS NULL", "UIsNull"), ("IS NOT NULL", "UIsNotNull")];

fn cypher(e: &E) -> String {
    match e {
        E::P(i) => format!("$p{i}"),
        E::Var(0) => "acc".into(),
        E::Var(_) => "x".into(),
        E::List(es) => format!("[{}]", es.iter().map(cypher).collect::<Vec<_>>().join(", ")),
        E::Un(op, x) => match *op {
            "NOT" => format!("(NOT ({}))", cypher(x)),
            "-" => format!("(-({}))", cypher(x)),
            "abs" => format!("abs({})", cypher(x)),
            o => format!("(({}) {})", cypher(x), o),
        },
        E::Bin(op, l, r) => format!("(({}) {} ({}))", cypher(l), op, cypher(r)),
        E::Reduce(i, l, s) => format!("reduce(acc = {}, x IN {} | {})", cypher(i), cypher(l), cypher(s)),
    }
}
fn coq_expr(e: &E, ps: &[V]) -> Option<String> {
    Some(match e {
        E::P(i) => format!("(EVal {})", coq_value(&ps[*i])?),
        E::Var(i) => format!("(EVar {})", i),
        E::List(es) => {
            let mut parts = vec![];
            for x in es {
                parts.push(coq_expr(x, ps)?);
            }
            format!("(EList [{}])", parts.join("; "))
        }
        E::Un(op, x) => format!("(EUn {} {})", UNOPS.iter().find(|(o, _)| o == op).unwrap().1, coq_expr(x, ps)?),
        E::Bin(op, l, r) => format!("(EBin {} {} {})", BINOPS.iter().find(|(o, _)| o == op).unwrap().1, coq_expr(l, ps)?, coq_expr(r, ps)?),
        E::Reduce(i, l, s) => format!("(EReduce {} {} {})", coq_expr(i, ps)?, coq_expr(l, ps)?, coq_expr(s, ps)?),
    })
}
#[allow(dead_code)]
fn has_mod(e: &E) -> bool {
    match e {
        E::Bin("%", _, _) => true,
        E::Bin(_, l, r) => has_mod(l) || has_mod(r),
        E::Un(_, x) => has_mod(x),
        E::List(es) => es.iter().any(has_mod),
        E::Reduce(a, b, c) => has_mod(a) || has_mod(b) || has_mod(c),
        _ => false,
    }
}
/// the proper, variable-free, non-leaf subexpressions of e (their values may contain strings
/// built at run time, e.g. by string concatenation, which the temporal oracle must know too)
fn subexprs<'a>(e: &'a E, top: bool, out: &mut Vec<&'a E>) {
    match e {
        E::P(_) | E::Var(_) => {}
        E::List(es) => {
            if !top { out.push(e); }
            es.iter().for_each(|x| subexprs(x, false, out));
        }
        E::Un(_, x) => {
            if !top { out.push(e); }
            subexprs(x, false, out);
        }
        E::Bin(_, l, r) => {
            if !top { out.push(e); }
            subexprs(l, false, out);
            subexprs(r, false, out);
        }
        E::Reduce(i, l, _) => {
            if !top { out.push(e); }
            subexprs(i, false, out);
            subexprs(l, false, out);
        }
    }
}
fn top(e: &E) -> String {
    match e {
        E::P(_) => "param".into(),
        E::Var(_) => "var".into(),
        E::List(_) => "list".into(),
        E::Un(o, _) => format!("un:{o}"),
        E::Bin(o, _, _) => format!("bin:{o}"),
        E::Reduce(..) => "reduce".into(),
    }
}

fn gen_expr(r: &mut Rng, depth: u32, np: usize, in_reduce: bool) -> E {
    if depth == 0 || r.chance(1, 4) {
        if in_reduce && r.chance(1, 2) {
            return E::Var(r.below(2) as usize);
        }
        return E::P(r.below(np as u64) as usize);
    }
    match r.below(10) {
        0 => E::List((0..r.below(3)).map(|_| gen_expr(r, depth - 1, np, in_reduce)).collect()),
        1 | 2 => E::Un(r.pick(UNOPS).0, Box::new(gen_expr(r, depth - 1, np, in_reduce))),
        _ => E::Bin(r.pick(BINOPS).0, Box::new(gen_expr(r, depth - 1, np, in_reduce)), Box::new(gen_expr(r, depth - 1, np, in_reduce))),
    }
}

#[allow(dead_code)]
fn is_float_involved(vs: &[V]) -> bool {
    fn f(v: &V) -> bool {
        match v {
            V::Float(_) => true,
            V::List(l) => l.iter().any(f),
            V::Map(m) => m.values().any(f),
            _ => false,
        }
    }
    vs.iter().any(f)
}
fn contains_nan_or_null(v: &V) -> bool {
    match v {
        V::Null => true,
        V::Float(f) => f.is_nan(),
        V::List(l) => l.iter().any(contains_nan_or_null),
        V::Map(m) => m.values().any(contains_nan_or_null),
        _ => false,
    }
}
fn is_scalar(v: &V) -> bool {
    matches!(v, V::Bool(_) | V::Int(_) | V::Float(_) | V::String(_))
}

struct Cmp6 {
    eq: Option<bool>,
    ne: Option<bool>,
    lt: Option<bool>,
    le: Option<bool>,
    gt: Option<bool>,
    ge: Option<bool>,
}
fn cmp6(eng: &Engine, a: &V, b: &V) -> Result<Cmp6, String> {
    let row = eng.row1(
        "RETURN $a = $b, $a <> $b, $a < $b, $a <= $b, $a > $b, $a >= $b",
        &[("a", a.clone()), ("b", b.clone())],
    )?;
    let t = |i: usize| tri(&row[i]).ok_or_else(|| format!("comparison returned non-boolean {:?}", row[i]));
    Ok(Cmp6 { eq: t(0)?, ne: t(1)?, lt: t(2)?, le: t(3)?, gt: t(4)?, ge: t(5)? })
}

fn main() {
    let a = args();
    quiet_panics();
    let mut r = Rng::new(a.seed);
    let eng = Engine::new();
    let mut orc = Oracle::new();
    let mut cw = CaseWriter::new(&a.out, "Corr.C23", 200);
    let mut rep = Report::new(&a.out);
    let mut hist = BTreeMap::<String, u64>::new();
    let mut distinct = BTreeSet::<String>::new();
    let mut fails = 0u64;
    let mut evals = 0u64;

    // ---------------- (1) correspondence: expressions ----------------
    // corpus first: witnesses of repaired defects and of the known findings
    let p53 = (1i64 << 53) + 1;
    let corpus: Vec<(E, Vec<V>)> = vec![
        (E::Bin("=", Box::new(E::P(0)), Box::new(E::P(1))), vec![V::Int(p53), V::Float(9007199254740992.0)]),
        (E::Bin("<", Box::new(E::P(0)), Box::new(E::P(1))), vec![V::Int(1 << 53), V::Int(p53)]),
        (E::Bin("<=", Box::new(E::P(0)), Box::new(E::P(1))), vec![V::Int(p53), V::Float(9007199254740992.0)]),
        (E::Bin(">", Box::new(E::P(0)), Box::new(E::P(1))), vec![V::Int(i64::MAX), V::Float(9223372036854775808.0)]),
        (E::Bin("+", Box::new(E::P(0)), Box::new(E::P(1))), vec![V::Int(i64::MAX), V::Int(1)]),
        (E::Bin("*", Box::new(E::P(0)), Box::new(E::P(1))), vec![V::Int(3037000500), V::Int(3037000500)]),
        (E::Bin("/", Box::new(E::P(0)), Box::new(E::P(1))), vec![V::Int(i64::MIN), V::Int(-1)]),
        (E::Un("-", Box::new(E::P(0))), vec![V::Int(i64::MIN)]),
        (E::Un("abs", Box::new(E::P(0))), vec![V::Int(i64::MIN)]),
        (E::Reduce(Box::new(E::P(0)), Box::new(E::P(1)), Box::new(E::Bin("+", Box::new(E::Var(0)), Box::new(E::Var(1))))),
         vec![V::Int(0), V::List(vec![V::Int(i64::MAX), V::Int(1), V::Int(-5)])]),
        (E::Bin("<=", Box::new(E::P(0)), Box::new(E::P(1))), vec![V::String("20200101".into()), V::String("2020-01-01".into())]),
        (E::Bin("=", Box::new(E::P(0)), Box::new(E::P(1))), vec![V::List(vec![V::Null, V::Int(1)]), V::List(vec![V::Null, V::Int(2)])]),
        // list elements compared Float-left / Int-right (and reverse, nested): must be exact too
        (E::Bin("<", Box::new(E::P(0)), Box::new(E::P(1))), vec![V::List(vec![V::Float(9007199254740992.0)]), V::List(vec![V::Int(p53)])]),
        (E::Bin(">", Box::new(E::P(0)), Box::new(E::P(1))), vec![V::List(vec![V::Int(p53)]), V::List(vec![V::Float(9007199254740992.0)])]),
        (E::Bin("<=", Box::new(E::P(0)), Box::new(E::P(1))), vec![V::List(vec![V::List(vec![V::Float(9223372036854775808.0)])]), V::List(vec![V::List(vec![V::Int(i64::MAX)])])]),
        (E::Bin(">=", Box::new(E::P(0)), Box::new(E::P(1))), vec![V::List(vec![V::Int(1), V::Float(-9007199254740992.0)]), V::List(vec![V::Int(1), V::Int(-p53)])]),
        // seed 31 / index 2748: x + x overflows to a float, then float % int (was outside the model)
        (E::Bin("<=", Box::new(E::Bin("%", Box::new(E::Bin("+", Box::new(E::P(0)), Box::new(E::P(0)))), Box::new(E::P(0)))), Box::new(E::P(0))), vec![V::Int(5228675572754606838)]),
        // a temporal string built at run time: "12" + "00" is the local time 12:00
        (E::Bin(">=", Box::new(E::Bin("+", Box::new(E::P(0)), Box::new(E::P(1)))), Box::new(E::P(2))), vec![V::String("12".into()), V::String("00".into()), V::String("12:00".into())]),
        (E::Bin("%", Box::new(E::P(0)), Box::new(E::P(1))), vec![V::Float(-5.5), V::Int(2)]),
        (E::Bin("%", Box::new(E::P(0)), Box::new(E::P(1))), vec![V::Float(-4.0), V::Float(2.0)]),
        (E::Bin("%", Box::new(E::P(0)), Box::new(E::P(1))), vec![V::Int(1), V::Float(f64::from_bits(3))]),
        (E::Bin("%", Box::new(E::P(0)), Box::new(E::P(1))), vec![V::Float(1e308), V::Int(3)]),
        (E::Bin("%", Box::new(E::P(0)), Box::new(E::P(1))), vec![V::Int(7), V::Float(f64::INFINITY)]),
        (E::Bin("%", Box::new(E::P(0)), Box::new(E::P(1))), vec![V::Float(f64::INFINITY), V::Int(7)]),
        (E::Bin("%", Box::new(E::P(0)), Box::new(E::P(1))), vec![V::Int(7), V::Float(-0.0)]),
        (E::Bin("%", Box::new(E::P(0)), Box::new(E::P(1))), vec![V::Int(i64::MIN), V::Int(-1)]),
    ];
    let n_expr = a.n;
    for idx in 0..n_expr {
        let (e, ps) = if idx < corpus.len() {
            corpus[idx].clone()
        } else {
            let np = 1 + r.below(3) as usize;
            let mut ps: Vec<V> = vec![];
            for i in 0..np {
                let v = if i > 0 && r.chance(2, 5) { mutate(&mut r, &ps[i - 1].clone()) } else { gen_value(&mut r, 2, 15) };
                ps.push(v);
            }
            let e = match r.below(10) {
                // a single operator on parameters: the bulk of the cases
                0..=4 => {
                    if r.chance(1, 5) {
                        E::Un(r.pick(UNOPS).0, Box::new(E::P(0)))
                    } else {
                        E::Bin(r.pick(BINOPS).0, Box::new(E::P(0)), Box::new(E::P(np - 1)))
                    }
                }
                5 => {
                    // reduce over a list of numbers
                    let n = r.below(5) as usize;
                    let items: Vec<V> = (0..n).map(|_| if r.chance(1, 6) { gen_scalar(&mut r, 0) } else if r.chance(3, 4) { V::Int(gen_int(&mut r)) } else { V::Float(f64::from_bits(gen_float_bits(&mut r))) }).collect();
                    ps[0] = V::List(items);
                    let op = *r.pick(&["+", "-", "*"]);
                    let init = if r.chance(1, 2) { V::Int(gen_int(&mut r)) } else { V::Int(0) };
                    ps.push(init);
                    let k = ps.len() - 1;
                    E::Reduce(Box::new(E::P(k)), Box::new(E::P(0)), Box::new(E::Bin(op, Box::new(E::Var(0)), Box::new(E::Var(1)))))
                }
                _ => gen_expr(&mut r, 3, np, false),
            };
            (e, ps)
        };
        let Some(ce) = coq_expr(&e, &ps) else { continue };
        let q = format!("RETURN {} AS r", cypher(&e));
        let params: Vec<(String, V)> = ps.iter().enumerate().map(|(i, v)| (format!("p{i}"), v.clone())).collect();
        let pr: Vec<(&str, V)> = params.iter().map(|(k, v)| (k.as_str(), v.clone())).collect();
        evals += 1;
        let res = match eng.row1(&q, &pr) {
            Ok(row) => row[0].clone(),
            Err(err) => {
                // the engine rejects some expressions statically (type validation): not a model case
                let k = if err.starts_with("prepare") { "rejected:prepare" } else { "rejected:exec" };
                *hist.entry(k.into()).or_insert(0) += 1;
                if idx < corpus.len() {
                    fails += 1;
                    rep.fail(idx, None, &format!("corpus expression rejected: {err}"), json!({"query": q}));
                }
                continue;
            }
        };
        let Some(cres) = coq_value(&res) else {
            *hist.entry("skipped:result-outside-model".into()).or_insert(0) += 1;
            continue;
        };
        // strings the comparison operators may see: those of the parameters and those of every
        // intermediate value (evaluated by the engine itself)
        let mut inter: Vec<V> = vec![];
        let mut subs = vec![];
        subexprs(&e, true, &mut subs);
        for se in subs {
            if let Ok(row) = eng.row1(&format!("RETURN {} AS r", cypher(se)), &pr) {
                inter.push(row[0].clone());
            }
        }
        let refs: Vec<&V> = ps.iter().chain(inter.iter()).collect();
        let table = orc.coq_table(&eng, &refs);
        *hist.entry(format!("expr:{}", top(&e))).or_insert(0) += 1;
        *hist.entry(format!("result:{}", kind(&res))).or_insert(0) += 1;
        if !matches!(res, V::Null) {
            distinct.insert(format!("{}|{}", ce, cres));
        }
        cw.push(format!("{{| tpt := {}; ex := {}; impl := {} |}}", table, ce, cres));
        if idx < corpus.len() + 3 {
            rep.case(idx, json!({"query": q, "params": ps.iter().map(js_value).collect::<Vec<_>>(), "result": js_value(&res)}));
        }
    }

    // ---------------- (2) direct search: the laws on the engine ----------------
    // (a) truth tables and De Morgan over {null, false, true}
    let tv = [V::Null, V::Bool(false), V::Bool(true)];
    let t_and = |x: Option<bool>, y: Option<bool>| match (x, y) {
        (Some(false), _) | (_, Some(false)) => Some(false),
        (Some(true), Some(true)) => Some(true),
        _ => None,
    };
    let t_or = |x: Option<bool>, y: Option<bool>| match (x, y) {
        (Some(true), _) | (_, Some(true)) => Some(true),
        (Some(false), Some(false)) => Some(false),
        _ => None,
    };
    for x in &tv {
        for y in &tv {
            evals += 1;
            let row = eng
                .row1(
                    "RETURN $a AND $b, $a OR $b, $a XOR $b, NOT $a, NOT ($a AND $b), (NOT $a) OR (NOT $b), NOT ($a OR $b), (NOT $a) AND (NOT $b)",
                    &[("a", x.clone()), ("b", y.clone())],
                )
                .unwrap();
            let (tx, ty) = (tri(x).unwrap(), tri(y).unwrap());
            let want = [
                t_and(tx, ty),
                t_or(tx, ty),
                match (tx, ty) { (Some(p), Some(q)) => Some(p ^ q), _ => None },
                tx.map(|p| !p),
            ];
            for i in 0..4 {
                if tri(&row[i]) != Some(want[i]) {
                    fails += 1;
                    rep.fail(0, None, &format!("truth table entry {i} (AND/OR/XOR/NOT) wrong: {:?}", row[i]), json!({"a": js_value(x), "b": js_value(y)}));
                }
            }
            if !same(&row[4], &row[5]) || !same(&row[6], &row[7]) {
                fails += 1;
                rep.fail(0, None, "De Morgan fails", json!({"a": js_value(x), "b": js_value(y)}));
            }
        }
    }
    // (b) comparison laws on triples
    let n_law = a.n / 2;
    // corpus of law instances first: the known temporal-string class and the repaired i2f witnesses
    let st = |x: &str| V::String(x.to_string());
    let law_corpus: Vec<(V, V, V)> = vec![
        (st("20200101"), st("2020-01-01"), st("2020-x")),
        (st("20200101"), st("2020-01-02"), st("2020-x")),
        (V::Int(p53), V::Float(9007199254740992.0), V::Int(1 << 53)),
        (V::Int(i64::MAX), V::Int(i64::MAX - 1), V::Float(9223372036854775808.0)),
    ];
    for idx in 0..n_law {
        let (va, vb, vc) = if idx < law_corpus.len() {
            law_corpus[idx].clone()
        } else if r.chance(1, 8) {
            // lists whose deciding elements are a double next to an integer it cannot represent,
            // float on the left or on the right, optionally nested one level deeper
            let i = *r.pick(&[p53, -p53, p53 + 1, i64::MAX, i64::MAX - 1, i64::MIN + 1, (1i64 << 62) + 1]);
            let f = V::Float(f64::from_bits((i as f64).to_bits().wrapping_add(r.range(-1, 1) as u64)));
            let wrap = |v: V, deep: bool| if deep { V::List(vec![V::List(vec![v])]) } else { V::List(vec![v]) };
            let deep = r.chance(1, 3);
            let (x, y) = (wrap(f.clone(), deep), wrap(V::Int(i), deep));
            let z = wrap(V::Int(i.wrapping_sub(1)), deep);
            if r.chance(1, 2) { (x, y, z) } else { (y, x, z) }
        } else {
            let va = gen_value(&mut r, 2, 20);
            let vb = if r.chance(1, 2) { mutate(&mut r, &va) } else { gen_value(&mut r, 2, 20) };
            let vc = if r.chance(1, 2) { mutate(&mut r, &vb) } else { gen_value(&mut r, 2, 20) };
            (va, vb, vc)
        };
        let (ab, ba, bc, ac, aa) = match (cmp6(&eng, &va, &vb), cmp6(&eng, &vb, &va), cmp6(&eng, &vb, &vc), cmp6(&eng, &va, &vc), cmp6(&eng, &va, &va)) {
            (Ok(p), Ok(q), Ok(s), Ok(t), Ok(u)) => (p, q, s, t, u),
            _ => {
                fails += 1;
                rep.fail(idx, None, "comparison query failed or returned a non-boolean", json!({"a": js_value(&va), "b": js_value(&vb), "c": js_value(&vc)}));
                continue;
            }
        };
        evals += 5;
        *hist.entry(format!("law:{}/{}", kind(&va), kind(&vb))).or_insert(0) += 1;
        let input = json!({"a": js_value(&va), "b": js_value(&vb), "c": js_value(&vc)});
        // the known class: two temporal strings of one kind with different spellings compare as
        // temporal values under < <= > >= but as strings under =
        let temporal = orc.any_temporal(&eng, &[&va, &vb, &vc]);
        let class = if temporal { Some("K-C23-temporal") } else { None };
        let mut fail = |what: &str, strings_only: bool| {
            fails += 1;
            rep.fail(idx, if strings_only { class } else { None }, what, input.clone());
        };
        // null propagation
        if matches!(va, V::Null) || matches!(vb, V::Null) {
            if ab.eq.is_some() || ab.ne.is_some() || ab.lt.is_some() || ab.le.is_some() || ab.gt.is_some() || ab.ge.is_some() {
                fail("a comparison with null is not null", false);
            }
        }
        // = symmetric, <> its negation
        if ab.eq != ba.eq {
            fail("= is not symmetric", false);
        }
        if ab.ne != ab.eq.map(|x| !x) {
            fail("<> is not the negation of =", false);
        }
        // = reflexive on values without null/NaN inside
        if !contains_nan_or_null(&va) && aa.eq != Some(true) {
            fail("= is not reflexive on a value without null/NaN", false);
        }
        // = transitive
        if ab.eq == Some(true) && bc.eq == Some(true) && ac.eq != Some(true) {
            fail("= is not transitive", false);
        }
        // mutual consistency of < <= > >= and with =
        if ab.lt != ba.gt || ab.le != ba.ge {
            fail("a < b differs from b > a (or <= / >=)", true);
        }
        let nan = matches!(va, V::Float(f) if f.is_nan()) || matches!(vb, V::Float(f) if f.is_nan());
        if let (Some(lt), Some(le), Some(gt), Some(ge)) = (ab.lt, ab.le, ab.gt, ab.ge) {
            if !nan {
                if lt == ge || gt == le {
                    fail("< is not the negation of >= (or > of <=) on ordered values", true);
                }
                if is_scalar(&va) && is_scalar(&vb) {
                    match ab.eq {
                        Some(e) => {
                            if (le && ge) != e {
                                fail("a <= b and a >= b does not coincide with a = b", true);
                            }
                            if le != (lt || e) {
                                fail("a <= b differs from a < b or a = b", true);
                            }
                        }
                        None => fail("= is null where < is not, on non-null scalars", false),
                    }
                }
            } else if lt || le || gt || ge {
                fail("a comparison with NaN is true", false);
            }
        }
        // transitivity of < on scalars
        if ab.lt == Some(true) && bc.lt == Some(true) && ac.lt != Some(true) && is_scalar(&va) && is_scalar(&vb) && is_scalar(&vc) {
            fail("< is not transitive", true);
        }
        // numbers: agreement with the exact mathematical order (independent integer-only comparator)
        if let Some(o) = exact_num_cmp(&va, &vb) {
            let want = (Some(o == Ordering::Equal), Some(o == Ordering::Less), Some(o != Ordering::Greater), Some(o == Ordering::Greater), Some(o != Ordering::Less));
            if (ab.eq, ab.lt, ab.le, ab.gt, ab.ge) != want {
                fail(&format!("numeric comparison differs from the exact order {:?}", o), false);
            }
        }
    }
    // (c) one overflow rule: + - * unary- abs and reduce agree with exact-or-float
    let n_ovf = a.n / 2;
    for idx in 0..n_ovf {
        let (x, y) = (gen_int(&mut r), gen_int(&mut r));
        let row = match eng.row1(
            "RETURN $a + $b, $a - $b, $a * $b, -$a, abs($a), reduce(acc = $a, v IN [$b] | acc + v), reduce(acc = $a, v IN [$b] | acc * v), reduce(acc = 0, v IN [$a, $b] | acc + v)",
            &[("a", V::Int(x)), ("b", V::Int(y))],
        ) {
            Ok(row) => row,
            Err(e) => {
                fails += 1;
                rep.fail(idx, None, &format!("overflow query failed: {e}"), json!({"a": x.to_string(), "b": y.to_string()}));
                continue;
            }
        };
        evals += 1;
        let (xi, yi) = (x as i128, y as i128);
        let rule = |exact: i128, fallback: f64| -> V {
            if exact >= i64::MIN as i128 && exact <= i64::MAX as i128 { V::Int(exact as i64) } else { V::Float(fallback) }
        };
        let (xf, yf) = (x as f64, y as f64);
        let want = [
            rule(xi + yi, xf + yf),
            rule(xi - yi, xf - yf),
            rule(xi * yi, xf * yf),
            rule(-xi, -xf),
            rule(xi.abs(), xf.abs()),
            rule(xi + yi, xf + yf),
            rule(xi * yi, xf * yf),
            rule(xi + yi, xf + yf), // 0 + a is exact, then a + b
        ];
        let names = ["+", "-", "*", "unary -", "abs", "reduce +", "reduce *", "reduce from 0"];
        let mut overflowed = false;
        for i in 0..8 {
            if matches!(want[i], V::Float(_)) {
                overflowed = true;
            }
            if !same(&row[i], &want[i]) {
                fails += 1;
                rep.fail(idx, None, &format!("overflow rule broken for {}: got {:?}, want {:?}", names[i], row[i], want[i]), json!({"a": x.to_string(), "b": y.to_string()}));
            }
        }
        *hist.entry(format!("overflow:{}", if overflowed { "promoted" } else { "exact" })).or_insert(0) += 1;
    }

    cw.flush();
    rep.stats(json!({
        "evaluations": evals,
        "corr_cases": cw.total,
        "distinct_nontrivial": distinct.len(),
        "rule": "expressions (single operator 50%, reduce 10%, random trees of depth <= 3 40%) over 1-3 parameters from boundary-heavy palettes (i64 extremes, +-2^53+-1, +-2^63 as double, +-0, NaN, +-inf, subnormals, empty/non-ASCII/temporal-looking strings, nested lists/maps, node/rel/path ids, nulls), 40% of parameters mutated neighbours of the previous one; non-trivial = result not null, distinct by (expression, result)",
        "histogram": hist,
        "direct_failures": fails,
        "case_files": cw.files.iter().map(|p| p.to_string_lossy().to_string()).collect::<Vec<_>>(),
    }));
    rep.finish();
}
