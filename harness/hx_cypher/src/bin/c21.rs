//! C21 — aggregates agree with their definitions.
//! Runs `UNWIND $rows AS r WITH r.k AS k, r.v AS v RETURN [k,] count(*), count(v), sum(v), avg(v), min(v),
//! max(v), collect(v), count(DISTINCT v), sum(DISTINCT v), avg(DISTINCT v), min(DISTINCT v), max(DISTINCT v),
//! collect(DISTINCT v)` through the engine; writes Coq cases (Corr.C21, model `aggregate`) and tests
//! the definitions directly (exact bignum sum, independent grouping, counts, collect, min/max).
use hx_cypher::*;
use serde_json::json;
use std::cmp::Ordering;
use std::collections::{BTreeMap, BTreeSet};
use vh::*;

const AGGS: &str = "count(*), count(v), sum(v), avg(v), min(v), max(v), collect(v), count(DISTINCT v), sum(DISTINCT v), avg(DISTINCT v), min(DISTINCT v), max(DISTINCT v), collect(DISTINCT v)";
const NAGG: usize = 13;

fn contains_nan(v: &V) -> bool {
    match v {
        V::Float(f) => f.is_nan(),
        V::List(l) => l.iter().any(contains_nan),
        V::Map(m) => m.values().any(contains_nan),
        _ => false,
    }
}
fn contains_neg_zero(v: &V) -> bool {
    match v {
        V::Float(f) => f.to_bits() == 0x8000_0000_0000_0000,
        V::List(l) => l.iter().any(contains_neg_zero),
        V::Map(m) => m.values().any(contains_neg_zero),
        _ => false,
    }
}

fn main() {
    let a = args();
    quiet_panics();
    let mut r = Rng::new(a.seed);
    let eng = Engine::new();
    let mut orc = Oracle::new();
    let mut cw = CaseWriter::new(&a.out, "Corr.C21", 150);
    let mut rep = Report::new(&a.out);
    let mut hist = BTreeMap::<String, u64>::new();
    let mut distinct = BTreeSet::<String>::new();
    let mut fails = 0u64;
    let mut evals = 0u64;

    let corpus: Vec<(bool, Vec<(V, V)>)> = vec![
        // repaired: sum wrapped around
        (false, vec![(V::Null, V::Int(i64::MAX)), (V::Null, V::Int(1))]),
        (false, vec![(V::Null, V::Int(i64::MIN)), (V::Null, V::Int(-1)), (V::Null, V::Int(5))]),
        (true, vec![(V::Int(1), V::Int(i64::MAX)), (V::Int(1), V::Int(i64::MAX)), (V::Int(2), V::Int(7))]),
        // partial sums overflow but the total fits: exact
        (false, vec![(V::Null, V::Int(i64::MAX)), (V::Null, V::Int(1)), (V::Null, V::Int(-2))]),
        // no rows, no key: one row
        (false, vec![]),
        (true, vec![]),
        // K-C21-nankey: every NaN key is its own group
        (true, vec![(V::Float(f64::NAN), V::Int(1)), (V::Float(f64::NAN), V::Int(2))]),
        // 1 and 1.0 are different keys and different DISTINCT values
        (true, vec![(V::Int(1), V::Int(1)), (V::Float(1.0), V::Float(1.0)), (V::Int(1), V::Float(1.0))]),
        (false, vec![(V::Null, V::Float(-0.0)), (V::Null, V::Float(0.0)), (V::Null, V::Float(f64::NAN)), (V::Null, V::Float(f64::NAN))]),
    ];

    for idx in 0..a.n {
        let (grouped, rows) = if idx < corpus.len() {
            corpus[idx].clone()
        } else {
            let n = r.below(9) as usize;
            let grouped = r.chance(2, 3);
            let kstyle = r.below(4);
            let vstyle = r.below(5);
            let mut rows: Vec<(V, V)> = vec![];
            for i in 0..n {
                let k = if !grouped {
                    V::Null
                } else if i > 0 && r.chance(1, 2) {
                    rows[r.below(i as u64) as usize].0.clone()
                } else {
                    loop {
                        let k = match kstyle {
                            0 => V::Int(r.range(0, 2)),
                            1 => match r.below(4) { 0 => V::Int(1), 1 => V::Float(1.0), 2 => V::Null, _ => V::String(gen_str(&mut r, 0)) },
                            2 => gen_scalar(&mut r, 10),
                            _ => gen_value(&mut r, 1, 0),
                        };
                        // 0.0 == -0.0 with different hashes: a HashMap separates them only up to a hash-tag collision
                        if !contains_neg_zero(&k) { break k; }
                    }
                };
                let v = if i > 0 && r.chance(1, 4) {
                    rows[r.below(i as u64) as usize].1.clone()
                } else {
                    match vstyle {
                        0 => V::Int(gen_int(&mut r)),
                        1 => match r.below(6) { 0 => V::Null, 1 | 2 => V::Float(f64::from_bits(gen_float_bits(&mut r))), _ => V::Int(gen_int(&mut r)) },
                        2 => V::Int(r.range(-3, 3)),
                        3 => gen_scalar(&mut r, 10),
                        _ => gen_value(&mut r, 1, 5),
                    }
                };
                rows.push((k, v));
            }
            (grouped, rows)
        };
        let q = if grouped {
            format!("UNWIND $rows AS r WITH r.k AS k, r.v AS v RETURN k, {}", AGGS)
        } else {
            format!("UNWIND $rows AS r WITH r.k AS k, r.v AS v RETURN {}", AGGS)
        };
        let rows_param = V::List(
            rows.iter()
                .map(|(k, v)| {
                    let mut m = BTreeMap::new();
                    m.insert("k".to_string(), k.clone());
                    m.insert("v".to_string(), v.clone());
                    V::Map(m)
                })
                .collect(),
        );
        let input = json!({"query": q, "rows": rows.iter().map(|(k, v)| json!([js_value(k), js_value(v)])).collect::<Vec<_>>()});
        evals += 1;
        let out = match eng.rows(&q, &[("rows", rows_param)]) {
            Ok(o) => o,
            Err(e) => {
                fails += 1;
                rep.fail(idx, None, &format!("aggregate query failed: {e}"), input);
                continue;
            }
        };
        let off = if grouped { 1 } else { 0 };
        // ----- direct search -----
        // independent grouping: keys identical as values (NaN = NaN, 1 <> 1.0)
        let mut groups: Vec<(V, Vec<V>)> = vec![];
        for (k, v) in &rows {
            match groups.iter_mut().find(|(gk, _)| same(gk, k)) {
                Some(g) => g.1.push(v.clone()),
                None => groups.push((k.clone(), vec![v.clone()])),
            }
        }
        if !grouped && rows.is_empty() {
            groups.push((V::Null, vec![]));
        }
        let nan_key = grouped && rows.iter().any(|(k, _)| contains_nan(k));
        if out.len() != groups.len() {
            fails += 1;
            rep.fail(idx, if nan_key { Some("K-C21-nankey") } else { None },
                &format!("{} result rows for {} distinct grouping keys", out.len(), groups.len()), input.clone());
        }
        if !nan_key {
            for (gk, vs) in &groups {
                let found: Vec<&Vec<V>> = out.iter().filter(|row| !grouped || same(&row[0], gk)).collect();
                if found.len() != 1 {
                    fails += 1;
                    rep.fail(idx, None, "not exactly one result row for a grouping key", input.clone());
                    continue;
                }
                let row = found[0];
                let nn: Vec<&V> = vs.iter().filter(|v| !matches!(v, V::Null)).collect();
                let mut bad = |what: &str| {
                    fails += 1;
                    rep.fail(idx, None, what, input.clone());
                };
                if !same(&row[off], &V::Int(vs.len() as i64)) {
                    bad("count(*) differs from the number of rows of the group");
                }
                if !same(&row[off + 1], &V::Int(nn.len() as i64)) {
                    bad("count(v) differs from the number of non-null values");
                }
                if !same(&row[off + 6], &V::List(nn.iter().map(|v| (*v).clone()).collect())) {
                    bad("collect(v) differs from the non-null values in row order");
                }
                // sum: exact bignum fold
                let any_float = nn.iter().any(|v| matches!(v, V::Float(_)));
                let exact: i128 = nn.iter().map(|v| if let V::Int(i) = v { *i as i128 } else { 0 }).sum();
                match &row[off + 2] {
                    V::Int(s) => {
                        if any_float || *s as i128 != exact {
                            bad("sum(v) is an integer different from the exact sum (wrapped?)");
                        }
                    }
                    V::Float(_) => {
                        if !any_float && exact >= i64::MIN as i128 && exact <= i64::MAX as i128 {
                            bad("sum(v) is a float although the exact integer sum fits in i64");
                        }
                    }
                    _ => bad("sum(v) is not a number"),
                }
                // avg: null iff no number
                let has_num = nn.iter().any(|v| matches!(v, V::Int(_) | V::Float(_)));
                if has_num != matches!(row[off + 3], V::Float(_)) || (!has_num && !matches!(row[off + 3], V::Null)) {
                    bad("avg(v) null-ness differs from 'the group has a number'");
                }
                // avg of an all-integer group: within float-summation error of the exact mean
                // (tolerance relative to the mean of absolute values, so any summation order passes)
                if has_num && !any_float && nn.iter().all(|v| matches!(v, V::Int(_))) {
                    if let V::Float(a) = &row[off + 3] {
                        let n = nn.len() as f64;
                        let mean = exact as f64 / n;
                        let abs: f64 = nn.iter().map(|v| if let V::Int(i) = v { (*i as f64).abs() } else { 0.0 }).sum::<f64>() / n;
                        if !((a - mean).abs() <= 1e-9 * abs + 1e-9) {
                            bad("avg(v) of an integer group is far from the exact mean (integer sum wrapped or saturated?)");
                        }
                    }
                }
                // min / max: an element, and the independent extremum on flat non-temporal values
                let temporal = { let refs: Vec<&V> = nn.clone(); orc.any_temporal(&eng, &refs) };
                for (col, want_ord) in [(off + 4, Ordering::Less), (off + 5, Ordering::Greater)] {
                    if nn.is_empty() {
                        if !matches!(row[col], V::Null) { bad("min/max of no values is not null"); }
                        continue;
                    }
                    if !nn.iter().any(|v| same(v, &row[col])) {
                        bad("min/max is not one of the values");
                        continue;
                    }
                    if !temporal {
                        let mut flat = true;
                        let mut beaten = false;
                        for v in &nn {
                            match flat_order(v, &row[col]) {
                                Some(o) if o == want_ord => beaten = true,
                                Some(_) => {}
                                None => flat = false,
                            }
                        }
                        if flat && beaten {
                            bad("min/max is not the extremum w.r.t. the independent exact order");
                        }
                    }
                }
                // DISTINCT variants against the plain ones on the independent dedup (Rust ==: NaN never equal, 0.0 == -0.0)
                let mut dd: Vec<&V> = vec![];
                for v in &nn {
                    if !dd.iter().any(|e| *e == *v) { dd.push(v); }
                }
                if !same(&row[off + 7], &V::Int(dd.len() as i64)) {
                    bad("count(DISTINCT v) differs from the number of distinct non-null values");
                }
                if !same(&row[off + 12], &V::List(dd.iter().map(|v| (*v).clone()).collect())) {
                    bad("collect(DISTINCT v) differs from the distinct non-null values in first-occurrence order");
                }
            }
        }
        // ----- correspondence case -----
        let mut ok_terms = true;
        let mut rows_c = vec![];
        for (k, v) in &rows {
            match (coq_value(k), coq_value(v)) {
                (Some(ck), Some(cv)) => rows_c.push(format!("({}, {})", if grouped { format!("[{}]", ck) } else { "[]".to_string() }, cv)),
                _ => ok_terms = false,
            }
        }
        let mut impl_c = vec![];
        for row in &out {
            let mut cells = vec![];
            for v in row {
                match coq_value(v) { Some(t) => cells.push(t), None => ok_terms = false }
            }
            let (k, aggs) = if grouped { (format!("[{}]", cells[0]), cells[1..].join("; ")) } else { ("[]".to_string(), cells.join("; ")) };
            impl_c.push(format!("({}, [{}])", k, aggs));
        }
        if !ok_terms {
            *hist.entry("skipped:outside-model".into()).or_insert(0) += 1;
            continue;
        }
        let all_vals: Vec<&V> = rows.iter().map(|(_, v)| v).collect();
        let table = orc.coq_table(&eng, &all_vals);
        cw.push(format!("{{| tpt := {}; nkeys := {}; rows := [{}]; impl := [{}] |}}", table, if grouped { 1 } else { 0 }, rows_c.join("; "), impl_c.join("; ")));
        *hist.entry(format!("rows:{}", rows.len())).or_insert(0) += 1;
        *hist.entry(format!("groups:{}", out.len())).or_insert(0) += 1;
        *hist.entry(if grouped { "grouped".to_string() } else { "ungrouped".to_string() }).or_insert(0) += 1;
        for row in &out {
            *hist.entry(format!("sum:{}", kind(&row[off + 2]))).or_insert(0) += 1;
        }
        if rows.len() >= 2 {
            distinct.insert(format!("{:?}", input));
        }
        if idx < corpus.len() + 2 {
            rep.case(idx, json!({"input": input, "output": out.iter().map(|row| row.iter().map(js_value).collect::<Vec<_>>()).collect::<Vec<_>>()}));
        }
    }
    // K-C21-zerokey: 0.0 = -0.0, but `Hash for Value` hashes the bit pattern while `==` is IEEE
    // equality, so the HashMap of execute_aggregate separates the two keys unless their hash
    // tags collide; repeated executions of one query on one input give different row counts
    {
        let mk = |k: f64, v: i64| {
            let mut m = BTreeMap::new();
            m.insert("k".to_string(), V::Float(k));
            m.insert("v".to_string(), V::Int(v));
            V::Map(m)
        };
        let rows_param = V::List(vec![mk(0.0, 1), mk(-0.0, 2), mk(0.0, 4)]);
        let (mut one, mut two, mut other) = (0u64, 0u64, 0u64);
        let reps = if a.tier == "thorough" { 20000 } else { 3000 };
        for _ in 0..reps {
            match eng.rows("UNWIND $rows AS r WITH r.k AS k, r.v AS v RETURN k, count(*), sum(v)", &[("rows", rows_param.clone())]) {
                Ok(o) if o.len() == 1 => one += 1,
                Ok(o) if o.len() == 2 => two += 1,
                _ => other += 1,
            }
        }
        evals += reps;
        hist.insert("zerokey:one-row".into(), one);
        hist.insert("zerokey:two-rows".into(), two);
        if other > 0 {
            fails += 1;
            rep.fail(0, None, "grouping by the keys 0.0 / -0.0 failed or returned an unexpected number of rows", json!({"other": other}));
        } else if two > 0 {
            fails += 1;
            rep.fail(0, Some("K-C21-zerokey"),
                &format!("grouping keys 0.0 and -0.0 (equal under =): {} of {} executions returned two rows, {} one row", two, reps, one),
                json!({"query": "UNWIND $rows AS r WITH r.k AS k, r.v AS v RETURN k, count(*), sum(v)", "rows": [[0.0, 1], ["-0.0", 2], [0.0, 4]], "two_rows": two, "one_row": one}));
        }
    }
    let _ = NAGG;
    cw.flush();
    rep.stats(json!({
        "evaluations": evals,
        "corr_cases": cw.total,
        "distinct_nontrivial": distinct.len(),
        "rule": "0-8 rows (key, value); 2/3 grouped by the key; keys: small ints / {1, 1.0, null, strings} / scalars incl. NaN / nested (no -0.0 inside keys), 50% repeats of an earlier key; values: boundary-heavy i64 / numbers with nulls and floats / small ints / scalars / nested, 25% repeats; all 13 aggregates (plain and DISTINCT) in one query; non-trivial = at least two rows, distinct by input",
        "histogram": hist,
        "direct_failures": fails,
        "case_files": cw.files.iter().map(|p| p.to_string_lossy().to_string()).collect::<Vec<_>>(),
    }));
    rep.finish();
}
