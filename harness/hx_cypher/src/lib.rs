//! Shared pieces of the Cypher value-law harnesses (C23, C20, C21): value
//! palettes, Coq/JSON printers, the query runner, the temporal oracle and an
//! independent exact comparator of numbers.
use nervusdb::Db;
use nervusdb_api::EdgeKey;
use nervusdb_query::{Params, Value, prepare};
use serde_json::json;
use std::cmp::Ordering;
use std::collections::BTreeMap;
use vh::*;

pub type V = Value;

pub struct Engine {
    _dir: tempfile::TempDir,
    pub db: Db,
}

impl Engine {
    pub fn new() -> Self {
        let dir = tempfile::tempdir().unwrap();
        let db = Db::open(dir.path().join("h.ndb")).unwrap();
        Engine { _dir: dir, db }
    }
    /// run a read query, return the rows as value vectors (column order of the query)
    pub fn rows(&self, q: &str, params: &[(&str, V)]) -> Result<Vec<Vec<V>>, String> {
        let mut p = Params::new();
        for (k, v) in params {
            p.insert(k.to_string(), v.clone());
        }
        let snap = self.db.snapshot();
        let prep = prepare(q).map_err(|e| format!("prepare: {e}"))?;
        let mut out = vec![];
        for r in prep.execute_streaming(&snap, &p) {
            let r = r.map_err(|e| format!("exec: {e}"))?;
            out.push(r.columns().iter().map(|(_, v)| v.clone()).collect());
        }
        Ok(out)
    }
    pub fn row1(&self, q: &str, params: &[(&str, V)]) -> Result<Vec<V>, String> {
        let mut rs = self.rows(q, params)?;
        if rs.len() != 1 {
            return Err(format!("expected 1 row, got {}", rs.len()));
        }
        Ok(rs.pop().unwrap())
    }
}

// ---------------------------------------------------------------- palettes

pub const I_BOUNDARY: &[i64] = &[
    i64::MIN, i64::MIN + 1, -(1 << 53) - 1, -(1 << 53), -(1 << 53) + 1, -4294967296, -2, -1, 0, 1, 2, 3, 255,
    4294967296, (1 << 53) - 1, 1 << 53, (1 << 53) + 1, (1 << 53) + 2, (1 << 62), (1 << 62) + 1,
    i64::MAX - 1025, i64::MAX - 1024, i64::MAX - 512, i64::MAX - 1, i64::MAX, 3037000499, 3037000500, -3037000500,
];
pub const F_BOUNDARY: &[u64] = &[
    0x0000_0000_0000_0000, 0x8000_0000_0000_0000, // +-0
    0x0000_0000_0000_0001, 0x8000_0000_0000_0001, // min subnormal
    0x000F_FFFF_FFFF_FFFF, 0x0010_0000_0000_0000, // max subnormal, min normal
    0x3FF0_0000_0000_0000, 0xBFF0_0000_0000_0000, // +-1
    0x3FE0_0000_0000_0000, 0x3FF8_0000_0000_0000, 0x4000_0000_0000_0000, 0x4004_0000_0000_0000, // .5 1.5 2 2.5
    0x7FEF_FFFF_FFFF_FFFF, 0xFFEF_FFFF_FFFF_FFFF, // +-max
    0x7FF0_0000_0000_0000, 0xFFF0_0000_0000_0000, // +-inf
    0x7FF8_0000_0000_0000, 0xFFF8_0000_0000_0001, // NaNs
    0x4340_0000_0000_0000, 0xC340_0000_0000_0000, // +-2^53
    0x4340_0000_0000_0001, 0x433F_FFFF_FFFF_FFFF, // 2^53+2, 2^53-1
    0x43E0_0000_0000_0000, 0xC3E0_0000_0000_0000, // +-2^63
    0x43DF_FFFF_FFFF_FFFF, 0x43E0_0000_0000_0001, 0xC3E0_0000_0000_0001, // around 2^63
    0x43D0_0000_0000_0000, // 2^62
];

pub fn gen_int(r: &mut Rng) -> i64 {
    match r.below(5) {
        0 | 1 => *r.pick(I_BOUNDARY),
        2 => r.pick(I_BOUNDARY).wrapping_add(r.range(-3, 3)),
        3 => r.range(-5, 5),
        _ => r.next() as i64,
    }
}
pub fn gen_float_bits(r: &mut Rng) -> u64 {
    match r.below(6) {
        0 | 1 => *r.pick(F_BOUNDARY),
        2 => r.pick(F_BOUNDARY).wrapping_add(r.range(-2, 2) as u64),
        3 => (gen_int(r) as f64).to_bits(),
        4 => ((r.range(-8, 8) as f64) / 2.0).to_bits(),
        _ => (r.next() & 0x800F_FFFF_FFFF_FFFF) | (r.below(2047) << 52),
    }
}
pub const PLAIN_STRS: &[&str] = &["", "a", "b", "ab", "a\u{0}", "A", "\u{e9}", "\u{4e2d}\u{6587}", "\u{1F600}", "z", "2020-x", "10", "9", " "];
pub const TEMPORAL_STRS: &[&str] = &[
    "2020-01-02", "20200101", "2020-01-01", "2019-12-31", "2020-001", "2020-W01-1", "2020-02", "2020",
    "12:00", "12:00:00", "1200", "11:59:59.999", "12:00:00.000000001",
    "12:00+01:00", "11:00Z", "12:00:00-01:00", "13:00+02:00",
    "2020-01-01T12:00", "2020-01-01T12:00:00", "2020-01-01T11:59:59.5", "20200101T120000",
    "2020-01-01T12:00Z", "2020-01-01T13:00+01:00", "2020-01-01T12:00:00+00:00", "2020-01-01T06:00-06:00",
];
pub fn gen_str(r: &mut Rng, temporal_pct: u64) -> String {
    if r.below(100) < temporal_pct {
        r.pick(TEMPORAL_STRS).to_string()
    } else if r.chance(3, 4) {
        r.pick(PLAIN_STRS).to_string()
    } else {
        let n = r.below(4) as usize;
        (0..n).map(|_| *r.pick(&['a', 'b', 'A', '0', '-', '\u{e9}', '\u{7f}', ' '])).collect()
    }
}
pub const MAP_KEYS: &[&str] = &["a", "b", "k", "", "\u{e9}"];

/// scalar kinds: 0 null 1 bool 2 int 3 float 4 string
pub fn gen_scalar(r: &mut Rng, temporal_pct: u64) -> V {
    match r.below(12) {
        0 => V::Null,
        1 => V::Bool(r.chance(1, 2)),
        2..=5 => V::Int(gen_int(r)),
        6..=9 => V::Float(f64::from_bits(gen_float_bits(r))),
        _ => V::String(gen_str(r, temporal_pct)),
    }
}
pub fn gen_value(r: &mut Rng, depth: u32, temporal_pct: u64) -> V {
    if depth == 0 {
        return gen_scalar(r, temporal_pct);
    }
    match r.below(20) {
        0 | 1 => {
            let n = r.below(4) as usize;
            V::List((0..n).map(|_| gen_value(r, depth - 1, temporal_pct)).collect())
        }
        2 => {
            let n = r.below(3) as usize;
            let mut m = BTreeMap::new();
            for _ in 0..n {
                m.insert(r.pick(MAP_KEYS).to_string(), gen_value(r, depth - 1, temporal_pct));
            }
            V::Map(m)
        }
        3 => match r.below(3) {
            0 => V::NodeId(r.below(4) as u32),
            1 => V::EdgeKey(EdgeKey { src: r.below(3) as u32, rel: r.below(2) as u32, dst: r.below(3) as u32 }),
            _ => {
                let n = 1 + r.below(3) as usize;
                let nodes: Vec<u32> = (0..n).map(|_| r.below(3) as u32).collect();
                let edges: Vec<EdgeKey> = (0..n - 1).map(|i| EdgeKey { src: nodes[i], rel: r.below(2) as u32, dst: nodes[i + 1] }).collect();
                V::Path(nervusdb_query::executor::PathValue { nodes, edges })
            }
        },
        _ => gen_scalar(r, temporal_pct),
    }
}
/// a value near `v`: equal, numerically equal of the other numeric type, or a neighbour
pub fn mutate(r: &mut Rng, v: &V) -> V {
    match v {
        V::Int(i) => match r.below(4) {
            0 => V::Float(*i as f64),
            1 => V::Int(i.wrapping_add(r.range(-1, 1))),
            2 => V::Float(f64::from_bits((*i as f64).to_bits().wrapping_add(r.range(-1, 1) as u64))),
            _ => v.clone(),
        },
        V::Float(f) => match r.below(5) {
            0 if f.is_finite() && f.abs() < 9.3e18 => V::Int(*f as i64),
            1 if f.is_finite() && f.abs() < 9.3e18 => V::Int((*f as i64).wrapping_add(r.range(-1, 1))),
            2 => V::Float(f64::from_bits(f.to_bits().wrapping_add(r.range(-1, 1) as u64))),
            3 => V::Float(-*f),
            _ => v.clone(),
        },
        V::String(s) => match r.below(3) {
            0 => V::String(format!("{s}a")),
            1 => V::String(gen_str(r, 50)),
            _ => v.clone(),
        },
        V::List(l) => {
            let mut l = l.clone();
            match r.below(4) {
                0 => {
                    l.pop();
                }
                1 => l.push(gen_scalar(r, 10)),
                2 if !l.is_empty() => {
                    let i = r.below(l.len() as u64) as usize;
                    l[i] = mutate(r, &l[i]);
                }
                _ => {}
            }
            V::List(l)
        }
        V::Map(m) => {
            let mut m = m.clone();
            if let Some(k) = m.keys().next().cloned() {
                if r.chance(1, 2) {
                    let nv = mutate(r, &m[&k]);
                    m.insert(k, nv);
                }
            }
            V::Map(m)
        }
        _ => v.clone(),
    }
}

// ---------------------------------------------------------------- printers

pub fn coq_float(f: f64) -> String {
    let b = f.to_bits();
    let neg = b >> 63 == 1;
    let e = ((b >> 52) & 0x7FF) as i64;
    let m = b & 0x000F_FFFF_FFFF_FFFF;
    let body = if e == 0x7FF {
        if m != 0 {
            return "nan%float".into();
        }
        return if neg { "neg_infinity%float".into() } else { "infinity%float".into() };
    } else if e == 0 {
        if m == 0 { "0".to_string() } else { format!("0x0.{:013x}p-1022", m) }
    } else {
        format!("0x1.{:013x}p{:+}", m, e - 1023)
    };
    if neg { format!("(-{})%float", body) } else { format!("{}%float", body) }
}
pub fn coq_str(s: &str) -> String {
    coq_bytes(s.as_bytes())
}
fn coq_edge(e: &EdgeKey) -> String {
    format!("({}, {}, {})", coq_n(e.src as u128), coq_n(e.rel as u128), coq_n(e.dst as u128))
}
/// None if the value has a variant outside the model
pub fn coq_value(v: &V) -> Option<String> {
    Some(match v {
        V::Null => "VNull".into(),
        V::Bool(b) => format!("(VBool {})", coq_bool(*b)),
        V::Int(i) => format!("(VInt {})", coq_z(*i as i128)),
        V::Float(f) => format!("(VFloat {})", coq_float(*f)),
        V::String(s) => format!("(VStr {})", coq_str(s)),
        V::List(l) => {
            let mut parts = vec![];
            for x in l {
                parts.push(coq_value(x)?);
            }
            format!("(VList [{}])", parts.join("; "))
        }
        V::Map(m) => {
            let mut parts = vec![];
            for (k, x) in m {
                parts.push(format!("({}, {})", coq_str(k), coq_value(x)?));
            }
            format!("(VMap [{}])", parts.join("; "))
        }
        V::NodeId(id) => format!("(VNode {})", coq_n(*id as u128)),
        V::EdgeKey(e) => format!("(VRel {} {} {})", coq_n(e.src as u128), coq_n(e.rel as u128), coq_n(e.dst as u128)),
        V::Path(p) => format!(
            "(VPath {} {})",
            coq_list(&p.nodes, |n| coq_n(*n as u128)),
            coq_list(&p.edges, coq_edge)
        ),
        _ => return None,
    })
}
pub fn js_value(v: &V) -> serde_json::Value {
    match v {
        V::Null => json!(null),
        V::Bool(b) => json!(b),
        V::Int(i) => json!({"int": i.to_string()}),
        V::Float(f) => json!({"f64_bits": format!("{:#018x}", f.to_bits()), "approx": format!("{:e}", f)}),
        V::String(s) => json!({"str": s}),
        V::List(l) => json!({"list": l.iter().map(js_value).collect::<Vec<_>>()}),
        V::Map(m) => json!({"map": m.iter().map(|(k, x)| json!([k, js_value(x)])).collect::<Vec<_>>()}),
        other => json!({"other": format!("{:?}", other)}),
    }
}
pub fn kind(v: &V) -> &'static str {
    match v {
        V::Null => "null",
        V::Bool(_) => "bool",
        V::Int(_) => "int",
        V::Float(f) if f.is_nan() => "nan",
        V::Float(_) => "float",
        V::String(_) => "string",
        V::List(_) => "list",
        V::Map(_) => "map",
        V::NodeId(_) => "node",
        V::EdgeKey(_) => "rel",
        V::Path(_) => "path",
        _ => "other",
    }
}
/// structural identity with floats as bit patterns, NaN payload masked
pub fn same(a: &V, b: &V) -> bool {
    match (a, b) {
        (V::Float(x), V::Float(y)) => (x.is_nan() && y.is_nan()) || x.to_bits() == y.to_bits(),
        (V::List(x), V::List(y)) => x.len() == y.len() && x.iter().zip(y).all(|(p, q)| same(p, q)),
        (V::Map(x), V::Map(y)) => x.len() == y.len() && x.iter().zip(y).all(|((k, p), (l, q))| k == l && same(p, q)),
        (V::Float(_), _) | (_, V::Float(_)) | (V::List(_), _) | (_, V::List(_)) | (V::Map(_), _) | (_, V::Map(_)) => false,
        _ => a == b,
    }
}

// ---------------------------------------------------------------- temporal oracle

/// what the engine's temporal parser makes of a string: (kind, key) with the
/// key monotone in the temporal value within one kind; obtained through the
/// public query API (property access on a string variable).
pub fn temporal_info(eng: &Engine, s: &str) -> Option<(u8, i128)> {
    let row = eng
        .row1(
            "WITH $s AS s RETURN s.year, s.ordinalDay, s.hour, s.minute, s.second, s.nanosecond, s.offsetSeconds, s.epochSeconds",
            &[("s", V::String(s.to_string()))],
        )
        .ok()?;
    let g = |i: usize| match &row[i] {
        V::Int(x) => Some(*x as i128),
        _ => None,
    };
    let (year, ord, hour, min, sec, ns, off, epoch) = (g(0), g(1), g(2), g(3), g(4), g(5), g(6), g(7));
    const S: i128 = 2_000_000_000; // nanosecond() may reach 1_999_999_999 (leap second)
    let tod = || Some(((hour? * 60 + min?) * 60 + sec?) * S + ns?);
    match (year, hour) {
        (Some(y), None) => Some((0, y * 1000 + ord?)),
        (None, Some(_)) => match off {
            None => Some((1, tod()?)),
            Some(o) => Some((2, tod()? - o * S)),
        },
        (Some(y), Some(_)) => match epoch {
            None => Some((3, (y * 1000 + ord?) * 86_400 * S + tod()?)),
            Some(e) => Some((4, e * S + ns?)),
        },
        (None, None) => None,
    }
}
pub fn collect_strings(v: &V, out: &mut Vec<String>) {
    match v {
        V::String(s) => {
            if !out.contains(s) {
                out.push(s.clone())
            }
        }
        V::List(l) => l.iter().for_each(|x| collect_strings(x, out)),
        V::Map(m) => m.values().for_each(|x| collect_strings(x, out)),
        _ => {}
    }
}
pub struct Oracle {
    cache: BTreeMap<String, Option<(u8, i128)>>,
}
impl Oracle {
    pub fn new() -> Self {
        Oracle { cache: BTreeMap::new() }
    }
    pub fn get(&mut self, eng: &Engine, s: &str) -> Option<(u8, i128)> {
        if let Some(x) = self.cache.get(s) {
            return *x;
        }
        let x = temporal_info(eng, s);
        self.cache.insert(s.to_string(), x);
        x
    }
    /// Coq term of type `list (bytes * (N * Z))` for the strings of the given values
    pub fn coq_table(&mut self, eng: &Engine, vals: &[&V]) -> String {
        let mut ss = vec![];
        for v in vals {
            collect_strings(v, &mut ss);
        }
        let mut parts = vec![];
        for s in ss {
            if let Some((k, key)) = self.get(eng, &s) {
                parts.push(format!("({}, ({}, {}))", coq_str(&s), coq_n(k as u128), coq_z(key)));
            }
        }
        format!("[{}]", parts.join("; "))
    }
    /// does some string inside the values parse as a temporal value?
    pub fn any_temporal(&mut self, eng: &Engine, vals: &[&V]) -> bool {
        let mut ss = vec![];
        for v in vals {
            collect_strings(v, &mut ss);
        }
        ss.iter().any(|s| self.get(eng, s).is_some())
    }
}

// ---------------------------------------------------------------- independent exact order of numbers

/// exact value of a finite double as (mantissa, exponent): m * 2^e
fn decode(f: f64) -> (i128, i32) {
    let b = f.to_bits();
    let e = ((b >> 52) & 0x7FF) as i32;
    let frac = (b & 0x000F_FFFF_FFFF_FFFF) as i128;
    let (m, e) = if e == 0 { (frac, -1074) } else { (frac | (1 << 52), e - 1075) };
    (if b >> 63 == 1 { -m } else { m }, e)
}
/// exact comparison of an i64 with a non-NaN double, by integer arithmetic only
pub fn exact_cmp_int_float(i: i64, f: f64) -> Ordering {
    assert!(!f.is_nan());
    if f == f64::INFINITY {
        return Ordering::Less;
    }
    if f == f64::NEG_INFINITY {
        return Ordering::Greater;
    }
    let (m, e) = decode(f);
    if e >= 0 {
        // |m| < 2^53; m * 2^e with e up to 971: compare by magnitude when large
        if e > 70 {
            return if m == 0 { (i as i128).cmp(&0) } else if m > 0 { Ordering::Less } else { Ordering::Greater };
        }
        (i as i128).cmp(&(m << e)) // |m << e| < 2^124
    } else {
        let s = -e;
        if s > 64 {
            // |f| < 2^53 * 2^-65 < 1
            return if i != 0 { (i as i128).cmp(&0) } else { 0i128.cmp(&m) };
        }
        ((i as i128) << s).cmp(&m) // |i << s| < 2^127
    }
}
/// exact order of two numbers (Int or Float); None if one is NaN or not a number
pub fn exact_num_cmp(a: &V, b: &V) -> Option<Ordering> {
    match (a, b) {
        (V::Int(x), V::Int(y)) => Some(x.cmp(y)),
        (V::Int(x), V::Float(y)) if !y.is_nan() => Some(exact_cmp_int_float(*x, *y)),
        (V::Float(x), V::Int(y)) if !x.is_nan() => Some(exact_cmp_int_float(*y, *x).reverse()),
        (V::Float(x), V::Float(y)) => x.partial_cmp(y),
        _ => None,
    }
}
pub fn tri(v: &V) -> Option<Option<bool>> {
    match v {
        V::Null => Some(None),
        V::Bool(b) => Some(Some(*b)),
        _ => None,
    }
}

// ---------------------------------------------------------------- independent order of flat values
/// string < boolean < number < NaN < null; numbers by exact value (None for nested values)
pub fn flat_order(a: &V, b: &V) -> Option<Ordering> {
    fn rank(v: &V) -> Option<u8> {
        Some(match v {
            V::String(_) => 5,
            V::Bool(_) => 6,
            V::Int(_) => 7,
            V::Float(f) if f.is_nan() => 8,
            V::Float(_) => 7,
            V::Null => 10,
            _ => return None,
        })
    }
    let (ra, rb) = (rank(a)?, rank(b)?);
    if ra != rb {
        return Some(ra.cmp(&rb));
    }
    Some(match (a, b) {
        (V::String(x), V::String(y)) => x.as_bytes().cmp(y.as_bytes()),
        (V::Bool(x), V::Bool(y)) => x.cmp(y),
        (V::Null, V::Null) => Ordering::Equal,
        _ if ra == 8 => Ordering::Equal,
        _ => exact_num_cmp(a, b)?,
    })
}
