//! C08 — failed commits are all-or-nothing: one injected I/O failure at every I/O step of the
//! last operations (commit, compaction, close) of generated histories.
use hx_crash::explore::*;
use hx_crash::*;
use serde_json::json;
use vh::*;

fn main() {
    let a = args();
    quiet_panics();
    let mut r = Rng::new(a.seed ^ 0xC08);
    let mut cw = CaseWriter::new(&a.out, "Corr.Crash", 60);
    let mut rep = Report::new(&a.out);
    let mut st = Stats::new();
    let thorough = a.tier == "thorough";
    for idx in 0..a.n {
        let n_ops = 2 + r.below(5) as usize;
        let hist = gen_history(&mut r, n_ops, true, 0, 100);
        let from = if thorough { 0 } else { n_ops.saturating_sub(2) };
        let mut cx = Ctx { rep: &mut rep, cw: &mut cw, st: &mut st, prop: "C08" };
        explore_faults(&mut cx, &mut r, idx, &hist, from, if thorough { 400 } else { 60 });
    }
    cw.flush();
    rep.stats(json!({
        "evaluations": st.faults, "distinct_nontrivial": st.hist.len(),
        "rule": "histories of 2-6 operations; one evaluation = one run with a single injected I/O error (write, fsync, set_len, rename) at one I/O step of the last 2 operations (thorough: all), followed by an in-process dump, a follow-up transaction, reopen and dump; distinct_nontrivial counts distinct (operation kind, I/O kind) fault classes hit",
        "histogram": st.hist, "histories": st.histories, "opens_ok": st.opens_ok, "corr_cases": st.corr_cases, "direct_failures": st.fails,
        "case_files": cw.files.iter().map(|p| p.to_string_lossy().to_string()).collect::<Vec<_>>(),
    }));
    rep.finish();
}
