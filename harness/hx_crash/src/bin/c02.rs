//! C02 — crash recovery yields a committed prefix: every crash point (process death with byte
//! cuts in log appends, power loss) inside the last operations of generated histories.
use hx_crash::explore::*;
use hx_crash::*;
use serde_json::json;
use vh::*;

fn main() {
    let a = args();
    quiet_panics();
    let mut r = Rng::new(a.seed);
    let mut cw = CaseWriter::new(&a.out, "Corr.Crash", 40);
    let mut rep = Report::new(&a.out);
    let mut st = Stats::new();
    let thorough = a.tier == "thorough";
    for idx in 0..a.n {
        let n_ops = 2 + r.below(6) as usize;
        let hist = gen_history(&mut r, n_ops, true, 0, 100);
        let from = if thorough { 0 } else { n_ops.saturating_sub(2) };
        let mut cx = Ctx { rep: &mut rep, cw: &mut cw, st: &mut st, prop: "C02" };
        explore_crashes(&mut cx, &mut r, idx, None, &hist, from, if thorough { 4000 } else { 400 }, 0);
    }
    cw.flush();
    rep.stats(json!({
        "evaluations": st.images, "distinct_nontrivial": st.distinct.len(),
        "rule": "histories of 2-7 operations (transactions of 1-4 writes over nodes/edges/properties/labels, compact, close+reopen, drop+reopen); every I/O step boundary of the last 2 operations (thorough: all) x {process death, power loss}, byte cuts inside log appends; one evaluation = one materialised crash image opened with the real engine and compared with the reopened clean-run states; distinct = distinct (ndb, wal) image contents",
        "histogram": st.hist, "histories": st.histories, "opens_ok": st.opens_ok, "corr_cases": st.corr_cases, "direct_failures": st.fails,
        "case_files": cw.files.iter().map(|p| p.to_string_lossy().to_string()).collect::<Vec<_>>(),
    }));
    rep.finish();
}
