//! C01 — acknowledged commits survive crashes: crash points over whole histories including
//! compaction and close, then a second round (reopen, new commits, crash again) on a sample of
//! the recovered images.
use hx_crash::explore::*;
use hx_crash::*;
use serde_json::json;
use vh::*;

fn main() {
    let a = args();
    quiet_panics();
    let mut r = Rng::new(a.seed ^ 0xC01);
    let mut cw = CaseWriter::new(&a.out, "Corr.Crash", 40);
    let mut rep = Report::new(&a.out);
    let mut st = Stats::new();
    let thorough = a.tier == "thorough";
    for idx in 0..a.n {
        let n_ops = 3 + r.below(6) as usize;
        let hist = gen_history(&mut r, n_ops, true, 0, 100);
        let kept = {
            let mut cx = Ctx { rep: &mut rep, cw: &mut cw, st: &mut st, prop: "C01" };
            explore_crashes(&mut cx, &mut r, idx, None, &hist, 0, if thorough { 1500 } else { 250 }, if thorough { 4 } else { 2 })
        };
        // second round: continue on a recovered image
        for (ndb, wal, _d) in kept {
            let nodes0 = {
                let dir = tempfile::tempdir().unwrap();
                let p = Paths::in_dir(dir.path());
                std::fs::write(&p.ndb, &ndb).unwrap();
                std::fs::write(&p.wal, &wal).unwrap();
                match open_engine(&p) {
                    Ok(e) => e.scan_i2e_records().len() as u32,
                    Err(_) => continue,
                }
            };
            let n2 = 2 + r.below(2) as usize;
            let h2 = gen_history(&mut r, n2, true, nodes0, 5000);
            let mut cx = Ctx { rep: &mut rep, cw: &mut cw, st: &mut st, prop: "C01" };
            cx.st.bump("round2");
            explore_crashes(&mut cx, &mut r, idx, Some((&ndb, &wal)), &h2, 0, if thorough { 400 } else { 80 }, 0);
        }
    }
    cw.flush();
    rep.stats(json!({
        "evaluations": st.images, "distinct_nontrivial": st.distinct.len(),
        "rule": "histories of 3-8 operations incl. compaction and close; sampled I/O step boundaries of ALL operations x {process death, power loss} + byte cuts in log appends; a sample of recovered images is continued with 2-3 further operations and crashed again (round 2); evaluation = one crash image opened by the real engine and compared with the reopened clean-run states (every operation before the interrupted one was acknowledged); distinct = distinct image contents",
        "histogram": st.hist, "histories": st.histories, "opens_ok": st.opens_ok, "corr_cases": st.corr_cases, "direct_failures": st.fails,
        "case_files": cw.files.iter().map(|p| p.to_string_lossy().to_string()).collect::<Vec<_>>(),
    }));
    rep.finish();
}
