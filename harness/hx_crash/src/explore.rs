//! Crash-point and fault enumeration shared by the c01 / c02 / c08 binaries.
use crate::*;
use serde_json::json;
use std::collections::BTreeSet;
use vh::{CaseWriter, Report, Rng};

pub struct Stats {
    pub histories: u64,
    pub images: u64,
    pub opens_ok: u64,
    pub faults: u64,
    pub distinct: BTreeSet<u64>,
    pub hist: std::collections::BTreeMap<String, u64>,
    pub corr_cases: u64,
    pub fails: u64,
}
impl Stats {
    pub fn new() -> Self {
        Stats { histories: 0, images: 0, opens_ok: 0, faults: 0, distinct: BTreeSet::new(), hist: Default::default(), corr_cases: 0, fails: 0 }
    }
    pub fn bump(&mut self, k: &str) {
        *self.hist.entry(k.to_string()).or_insert(0) += 1;
    }
}

fn hash(s: &[u8]) -> u64 {
    let mut h: u64 = 0xcbf29ce484222325;
    for b in s {
        h ^= *b as u64;
        h = h.wrapping_mul(0x100000001b3);
    }
    h
}

/// does the log image end in an incomplete frame? (length fields only; images of real runs
/// consist of complete frames followed by at most one partial frame)
pub fn has_torn_tail(wal: &[u8]) -> bool {
    let mut off = 0usize;
    loop {
        if off == wal.len() {
            return false;
        }
        if off + 8 > wal.len() {
            return true;
        }
        let len = u32::from_le_bytes([wal[off], wal[off + 1], wal[off + 2], wal[off + 3]]) as usize;
        if off + 8 + len > wal.len() {
            return true;
        }
        off += 8 + len;
    }
}

pub struct Point {
    pub k: usize,
    pub cut: Option<usize>,
    pub mode: Mode,
}

/// crash points of a run: every event boundary inside the operations `from_op..`, both modes,
/// plus byte cuts inside log appends (process death only)
pub fn crash_points(run: &Run, from_op: usize, r: &mut Rng, max_points: usize) -> Vec<Point> {
    let mut pts = vec![];
    let start = if from_op == 0 { 0 } else { run.ops.get(from_op).map(|o| o.start).unwrap_or(run.events.len()) };
    for k in start..=run.events.len() {
        pts.push(Point { k, cut: None, mode: Mode::Pd });
        pts.push(Point { k, cut: None, mode: Mode::Pl });
        if k < run.events.len() {
            let ev = &run.events[k];
            if ev.kind == IoKind::Write && ev.path == run.wal_path && ev.data.len() > 1 {
                let l = ev.data.len();
                for c in [1, l / 2, l - 1] {
                    if c > 0 && c < l {
                        pts.push(Point { k, cut: Some(c), mode: Mode::Pd });
                    }
                }
            }
            if ev.kind == IoKind::Rename {
                pts.push(Point { k: k + 1, cut: None, mode: Mode::PlNoRename });
            }
        }
    }
    // keep the enumeration bounded: a deterministic sample if there are too many
    while pts.len() > max_points {
        let i = r.below(pts.len() as u64) as usize;
        pts.swap_remove(i);
    }
    pts
}

/// oracle states allowed after a crash at (k, cut): the state before the operation that was
/// running, or the state after it; exactly the boundary state when no operation was in flight
pub fn allowed<'a>(run: &'a Run, k: usize, cut: Option<usize>) -> Vec<&'a String> {
    let n = run.ops.len();
    let mut v = vec![];
    // index of the first op whose events are not all applied
    let mut i = 0;
    while i < n && run.ops[i].end <= k && !(run.ops[i].end == k && cut.is_some()) {
        i += 1;
    }
    if i >= n {
        if let Some(o) = run.oracle.get(n) {
            v.push(o);
        }
        return v;
    }
    let op = &run.ops[i];
    let inside = k > op.start || cut.is_some();
    if let Some(o) = run.oracle.get(i) {
        v.push(o);
    }
    if inside {
        if let Some(o) = run.oracle.get(i + 1) {
            v.push(o);
        }
    }
    v
}

pub fn mode_name(m: Mode) -> &'static str {
    match m {
        Mode::Pd => "process_death",
        Mode::Pl => "power_loss",
        Mode::PlNoRename => "power_loss_rename_not_durable",
    }
}

pub struct Ctx<'a> {
    pub rep: &'a mut Report,
    pub cw: &'a mut CaseWriter,
    pub st: &'a mut Stats,
    pub prop: &'a str,
}

fn coq_ids(v: &Option<Vec<u64>>) -> String {
    match v {
        None => "None".into(),
        Some(ids) => format!("(Some {})", vh::coq_list(ids, |x| vh::coq_n(*x as u128))),
    }
}

/// emit one Coq case: the abstract trace, the harness's monitor verdict, and the recovered ids
/// the implementation's log scanner produced at the sampled crash points
pub fn emit_case(cx: &mut Ctx, run: &Run, seed_ok: bool, points: &[(usize, Mode, Option<Vec<u64>>)]) {
    let (tr, rt) = abstract_trace2(run);
    let tr = &tr;
    let steps: Vec<AStep> = tr.iter().map(|x| x.0.clone()).collect();
    let verdict = monitor(&steps);
    let nt = node_table_trace(run);
    let nt_ok = node_table_ok(&nt);
    let pts = vh::coq_list(points, |(k, m, ids)| {
        format!("({}%nat, {}, {})", k, if *m == Mode::Pd { "PD" } else { "PL" }, coq_ids(ids))
    });
    cx.cw.push(format!(
        "{{| c_rtrace := [{}]; c_trace := {}; c_seeded := {}; c_monitor_ok := {}; c_points := {}; c_ntrace := [{}]; c_ntab_ok := {} |}}",
        rt.join("; "),
        vh::coq_list(&steps, |s| s.coq()),
        vh::coq_bool(seed_ok),
        vh::coq_bool(verdict.is_none()),
        pts,
        nt.iter().map(|x| x.0.clone()).collect::<Vec<_>>().join("; "),
        vh::coq_bool(nt_ok)
    ));
    cx.st.corr_cases += 1;
}

/// Explore the crash points of one history started from `init`.  Returns, for a sample of the
/// points, the recovered images (for a further round).
pub fn explore_crashes(
    cx: &mut Ctx,
    r: &mut Rng,
    idx: usize,
    init: Option<(&[u8], &[u8])>,
    hist: &[Op],
    from_op: usize,
    max_points: usize,
    keep: usize,
) -> Vec<(Vec<u8>, Vec<u8>, String)> {
    let dir = tempfile::tempdir().unwrap();
    let (run, engine) = run_history_from(dir.path(), init, hist, None, true, true);
    drop(engine);
    cx.st.histories += 1;
    // known class K-C01-tail: the database was recovered from a log ending in a torn frame and
    // new commits were appended behind it
    let tail_class: Option<&str> = match init {
        Some((_, wal)) if has_torn_tail(wal) => Some("K-C01-tail"),
        _ => None,
    };
    if tail_class.is_some() {
        cx.st.bump("round2_torn_tail");
    }
    for o in &run.ops {
        if let Err(e) = &o.result {
            // an operation failed without any injected fault
            cx.st.fails += 1;
            cx.rep.fail(idx, None, &format!("operation failed without fault: {}", e), json!({"history": hist.iter().map(op_json).collect::<Vec<_>>()}));
        }
    }
    for (j, o) in run.oracle.iter().enumerate() {
        if o.starts_with("OPEN FAILED") || o.starts_with("PANIC") {
            cx.st.fails += 1;
            cx.rep.fail(idx, tail_class, &format!("clean reopen after op {} fails: {}", j, o), json!({"history": hist.iter().map(op_json).collect::<Vec<_>>(), "round2_from_torn_tail": tail_class.is_some()}));
        }
    }
    // the reopened clean copy must show what the running process shows at the same boundary
    // (otherwise recovery replays something else than what was committed, consistently)
    for j in 0..run.oracle.len().min(run.mem_dumps.len()) {
        if run.oracle[j] != run.mem_dumps[j] && !run.oracle[j].starts_with("OPEN FAILED") && !run.oracle[j].starts_with("PANIC") {
            let strip_labels = |d: &str| -> String {
                d.lines()
                    .map(|l| match (l.find(" labels=["), l.find("] props=")) {
                        (Some(a), Some(b)) if l.starts_with("N ") && a < b => format!("{}{}", &l[..a], &l[b + 1..]),
                        _ => l.to_string(),
                    })
                    .collect::<Vec<_>>()
                    .join("\n")
            };
            let class = if strip_labels(&run.oracle[j]) == strip_labels(&run.mem_dumps[j]) {
                Some("K-C04-labels")
            } else {
                tail_class
            };
            cx.st.fails += 1;
            cx.rep.fail(
                idx,
                class,
                &format!("state after reopen differs from the running process's state at the boundary before operation {}", j),
                json!({"history": hist.iter().map(op_json).collect::<Vec<_>>(), "in_process": run.mem_dumps[j], "reopened": run.oracle[j], "round2": init.is_some()}),
            );
            break;
        }
    }
    let tr = abstract_trace(&run);
    let steps: Vec<AStep> = tr.iter().map(|x| x.0.clone()).collect();
    let seeded = init.is_some();
    if !seeded {
        if let Some(bad) = monitor(&steps) {
            cx.st.fails += 1;
            let class = classify_protocol(&steps, bad);
            cx.rep.fail(
                idx,
                class,
                &format!("I/O trace violates the durability protocol at abstract step {} ({:?})", bad, steps[bad]),
                json!({"history": hist.iter().map(op_json).collect::<Vec<_>>(), "abstract_trace": steps.iter().map(|s| s.coq()).collect::<Vec<_>>()}),
            );
        }
    }
    if !node_table_ok(&node_table_trace(&run)) {
        cx.st.fails += 1;
        cx.rep.fail(idx, None, "node-table writes violate the record-before-header protocol (header length ahead of the records, or a non-dense record)",
            json!({"history": hist.iter().map(op_json).collect::<Vec<_>>(), "node_table_trace": node_table_trace(&run).iter().map(|x| x.0.clone()).collect::<Vec<_>>()}));
    }
    let pts = crash_points(&run, from_op, r, max_points);
    let mut corr_points = vec![];
    let mut kept = vec![];
    for p in &pts {
        let (ndb, wal) = image_at(&run, p.k, p.cut, p.mode);
        cx.st.images += 1;
        cx.st.distinct.insert(hash(&ndb) ^ hash(&wal).rotate_left(17));
        let opname = op_of_event(&run, p.k.min(run.events.len().saturating_sub(1))).map(|i| op_name(&hist[i])).unwrap_or("open");
        cx.st.bump(&format!("{}:{}", mode_name(p.mode), opname));
        let input = || {
            json!({"history": hist.iter().map(op_json).collect::<Vec<_>>(), "crash_after_events": p.k, "cut_bytes": p.cut,
                   "mode": mode_name(p.mode), "events_total": run.events.len(), "round2": seeded})
        };
        match dump_image(&ndb, &wal) {
            Err(e) => {
                cx.st.fails += 1;
                cx.rep.fail(idx, tail_class, &format!("database does not open after crash: {}", e), input());
            }
            Ok(d) => {
                cx.st.opens_ok += 1;
                let al = allowed(&run, p.k, p.cut);
                if !al.iter().any(|o| **o == d) {
                    cx.st.fails += 1;
                    cx.rep.fail(
                        idx,
                        tail_class,
                        "recovered content is neither the state before nor after the interrupted operation",
                        json!({"input": input(), "recovered": d, "allowed": al}),
                    );
                } else if kept.len() < keep && r.chance(1, 8) {
                    kept.push((ndb.clone(), wal.clone(), d.clone()));
                }
                // follow-up on a sample of images: recover, commit one more transaction, reopen;
                // the reopened state must be what the recovered process showed
                if al.iter().any(|o| **o == d) && r.chance(1, 12) {
                    if let Some(msg) = followup_roundtrip(&ndb, &wal) {
                        cx.st.fails += 1;
                        cx.rep.fail(idx, tail_class.filter(|_| false), &msg.0, json!({"input": input(), "detail": msg.1}));
                    }
                    cx.st.bump("followup_roundtrip");
                }
            }
        }
        // correspondence points: the log scanner on the image vs the model's recovered ids
        if !seeded && p.mode != Mode::PlNoRename && corr_points.len() < 24 {
            let ak = abstract_index(&tr, p.k);
            corr_points.push((ak, p.mode, impl_committed_ids(&wal)));
        }
    }
    if !seeded {
        emit_case(cx, &run, false, &corr_points);
    }
    if idx < 2 && !seeded {
        cx.rep.case(idx, json!({"history": hist.iter().map(op_json).collect::<Vec<_>>(), "io_events": run.events.len(),
            "abstract_trace": steps.iter().map(|s| s.coq()).collect::<Vec<_>>(), "crash_points": pts.len()}));
    }
    kept
}

/// open the image, commit one more transaction (a node with a property and an edge to node 0 if
/// there is one), remember the in-process dump, drop, reopen: both dumps must agree
pub fn followup_roundtrip(ndb: &[u8], wal: &[u8]) -> Option<(String, serde_json::Value)> {
    let d = tempfile::tempdir().unwrap();
    let p = Paths::in_dir(d.path());
    std::fs::write(&p.ndb, ndb).unwrap();
    std::fs::write(&p.wal, wal).unwrap();
    let e = open_engine(&p).ok()?;
    let n = e.scan_i2e_records().len() as u32;
    let mut ws = vec![W::Node { ext: 888_888, label: "A".into() }, W::SetNP { n, k: "fk".into(), v: 3 }];
    if n > 0 {
        ws.push(W::Edge { s: n, r: "R".into(), d: 0 });
    }
    if let Err(x) = apply_tx(&e, &ws) {
        return Some((format!("a transaction after crash recovery is refused: {}", x), json!({})));
    }
    let mem = dump(&e);
    drop(e);
    match open_engine(&p) {
        Err(x) => Some((format!("database does not open after recovery + one more commit: {}", x), json!({"in_process": mem}))),
        Ok(e2) => {
            let re = dump(&e2);
            if re != mem {
                Some(("after crash recovery and one more commit, the reopened state differs from the running process's state".into(), json!({"in_process": mem, "reopened": re})))
            } else {
                None
            }
        }
    }
}

/// known classes of protocol violations (none recorded at present)
pub fn classify_protocol(_steps: &[AStep], _bad: usize) -> Option<&'static str> {
    None
}

pub fn strip_followup(d: &str) -> String {
    d.lines().filter(|l| !l.contains("ext=Some(999999)")).collect::<Vec<_>>().join("\n")
}

/// C08: inject one I/O failure at every step of the operations `from_op..` of `hist`.
pub fn explore_faults(cx: &mut Ctx, r: &mut Rng, idx: usize, hist: &[Op], from_op: usize, max_faults: usize) {
    // clean run: oracles and the step ranges
    let dir = tempfile::tempdir().unwrap();
    let (clean, engine) = run_history(dir.path(), hist, None, true, true);
    drop(engine);
    cx.st.histories += 1;
    let start = clean.ops.get(from_op).map(|o| o.start).unwrap_or(clean.events.len());
    let mut ks: Vec<usize> = (start..clean.events.len()).collect();
    while ks.len() > max_faults {
        let i = r.below(ks.len() as u64) as usize;
        ks.swap_remove(i);
    }
    ks.sort();
    for k in ks {
        let i = match op_of_event(&clean, k) {
            Some(i) => i,
            None => continue,
        };
        cx.st.faults += 1;
        let evk = &clean.events[k];
        cx.st.bump(&format!("fault:{}:{:?}", op_name(&hist[i]), evk.kind));
        let d2 = tempfile::tempdir().unwrap();
        let (frun, engine) = run_history(d2.path(), &hist[..=i], Some(k as u64), false, true);
        let input = || {
            json!({"history": hist[..=i].iter().map(op_json).collect::<Vec<_>>(), "fault_at_event": k,
                   "event": format!("{:?} {} off={} len={}", evk.kind, if evk.path.ends_with(".wal") {"wal"} else if evk.path.ends_with(".ndb") {"ndb"} else {"wal.tmp"}, evk.offset, evk.data.len())})
        };
        // known class K-C08-logged: the fault hits a transaction at a step after its commit
        // record has been completely appended to the log (the record's fsync, or the node-table
        // page / meta writes that follow)
        let logged = matches!(hist[i], Op::Tx(_)) && {
            let o = &clean.ops[i];
            let commit_body = (o.start..o.end).rev().find(|j| {
                let e = &clean.events[*j];
                e.kind == IoKind::Write && e.path == clean.wal_path && e.data.len() == 9 && e.data[0] == 2
            });
            matches!(commit_body, Some(cb) if k > cb)
        };
        let class = if logged { Some("K-C08-logged") } else { None };
        let opres = frun.ops.last().map(|o| o.result.clone()).unwrap_or(Ok(()));
        let failed = opres.is_err();
        let Some(engine) = engine else {
            // reopen inside the operation failed: the handle is gone; check the files below
            check_after_fault(cx, idx, &clean, i, d2.path(), true, class, &input);
            continue;
        };
        // (1) not visible in the running process
        let mem_after = dump(&engine);
        if failed {
            let before = &frun.mem_dumps[i];
            if &mem_after != before {
                cx.st.fails += 1;
                cx.rep.fail(idx, class, "effects of a failed operation are visible in the running process", json!({"input": input(), "before": before, "after": mem_after}));
            }
        }
        // (2) the database keeps accepting transactions
        // the property lives only in the log-replayed part of the state: if the follow-up
        // transaction is lost from the log the node row alone may survive through the node table
        let fiid = engine.scan_i2e_records().len() as u32;
        let follow = vec![W::Node { ext: 999_999, label: "A".into() }, W::SetNP { n: fiid, k: "fk".into(), v: 7 }];
        let fres = vh::catch(std::panic::AssertUnwindSafe(|| apply_tx(&engine, &follow)));
        let follow_ok = matches!(fres, Ok(Ok(())));
        if !follow_ok {
            cx.st.fails += 1;
            cx.rep.fail(idx, class, &format!("transaction after a failed operation is refused: {:?}", fres), input());
        }
        drop(engine);
        // abstract trace of the faulted run -> Coq
        let tr = abstract_trace(&frun);
        let wal = std::fs::read(d2.path().join("db.wal")).unwrap_or_default();
        let pts = vec![(tr.len(), Mode::Pd, impl_committed_ids(&wal))];
        // the follow-up transaction ran outside the recording, so the final image has more
        // transactions than the trace: only traces without follow-up commits are compared
        if !follow_ok {
            emit_case(cx, &frun, false, &pts);
        } else {
            emit_case(cx, &frun, false, &[]);
        }
        // (3) after reopen: all or nothing, and the follow-up transaction is durable
        check_after_fault(cx, idx, &clean, i, d2.path(), !follow_ok, class, &input);
    }
}

fn check_after_fault(cx: &mut Ctx, idx: usize, clean: &Run, i: usize, dir: &std::path::Path, no_follow: bool, class: Option<&str>, input: &dyn Fn() -> serde_json::Value) {
    let p = Paths::in_dir(dir);
    match open_engine(&p) {
        Err(e) => {
            cx.st.fails += 1;
            cx.rep.fail(idx, class, &format!("database does not open after a failed operation: {}", e), input());
        }
        Ok(e) => {
            cx.st.opens_ok += 1;
            let d = dump(&e);
            if !no_follow && !d.lines().any(|l| l.contains("ext=Some(999999)") && l.contains("fk=Int(7)")) {
                cx.st.fails += 1;
                cx.rep.fail(idx, class, "transaction committed after a failed operation is lost after reopen", json!({"input": input(), "dump": d}));
            }
            let s = strip_followup(&d);
            let before = clean.oracle.get(i).map(|x| strip_followup(x));
            let after = clean.oracle.get(i + 1).map(|x| strip_followup(x));
            if Some(&s) != before.as_ref() && Some(&s) != after.as_ref() {
                cx.st.fails += 1;
                cx.rep.fail(idx, class, "after reopen the failed operation is present in part", json!({"input": input(), "dump": d, "before": before, "after": after}));
            }
        }
    }
}
