//! Crash / fault exploration of the storage engine through the verif_io hook
//! (C01, C02, C08).
//!
//! A history is run once on the real engine with every WAL/pager I/O step
//! recorded (with its bytes).  The on-disk image after any prefix of the steps
//! is then *materialised* from the recording (no process is killed, so every
//! crash point is replayable):
//!   * process death  — everything written by the first k steps persists; a WAL
//!     append may additionally be cut at any byte;
//!   * power loss     — each file reverts to its content at its last fsync
//!     among the first k steps (strict variant: no unsynced write survives).
//! The image is opened with the real `GraphEngine::open` and dumped.

use nervusdb_api::{EdgeKey, GraphSnapshot, GraphStore, PropertyValue};
use nervusdb_storage::engine::GraphEngine;
use nervusdb_storage::verif_io::{self, IoEvent, IoKind};
use serde_json::json;
use std::collections::BTreeMap;
use std::path::{Path, PathBuf};
use vh::Rng;

// ------------------------------------------------------------------ histories

#[derive(Clone, Debug)]
pub enum W {
    Node { ext: u64, label: String },
    Edge { s: u32, r: String, d: u32 },
    DelNode(u32),
    DelEdge { s: u32, r: String, d: u32 },
    SetNP { n: u32, k: String, v: i64 },
    RmNP { n: u32, k: String },
    SetEP { s: u32, r: String, d: u32, k: String, v: i64 },
    AddLabel { n: u32, l: String },
}

#[derive(Clone, Debug)]
pub enum Op {
    Tx(Vec<W>),
    Compact,
    /// checkpoint_on_close, drop, open again
    CloseReopen,
    /// drop without close, open again
    DropReopen,
}

pub fn op_name(o: &Op) -> &'static str {
    match o {
        Op::Tx(_) => "tx",
        Op::Compact => "compact",
        Op::CloseReopen => "close_reopen",
        Op::DropReopen => "drop_reopen",
    }
}

pub fn op_json(o: &Op) -> serde_json::Value {
    match o {
        Op::Tx(ws) => json!({"tx": ws.iter().map(|w| format!("{:?}", w)).collect::<Vec<_>>()}),
        other => json!(op_name(other)),
    }
}

const LABELS: &[&str] = &["A", "B", "C"];
const RELS: &[&str] = &["R", "S"];
const KEYS: &[&str] = &["k", "m"];

/// Generates a history of `n_ops` operations.  `nodes` counts the nodes created so
/// far (internal ids are dense in creation order).
pub fn gen_history(r: &mut Rng, n_ops: usize, with_admin: bool, nodes0: u32, ext0: u64) -> Vec<Op> {
    let mut ops = vec![];
    let mut nodes: u32 = nodes0;
    let mut next_ext: u64 = ext0;
    let mut edges: Vec<(u32, String, u32)> = vec![];
    for i in 0..n_ops {
        let admin = with_admin && i > 0 && r.chance(1, 4);
        if admin {
            // a close that really rewrites the log needs an empty set of runs, i.e. a preceding
            // compaction: make that pair common
            let after_compact = matches!(ops.last(), Some(Op::Compact));
            ops.push(match r.below(4) {
                _ if after_compact && r.chance(1, 2) => Op::CloseReopen,
                0 | 1 => Op::Compact,
                2 => Op::CloseReopen,
                _ => Op::DropReopen,
            });
            continue;
        }
        if matches!(ops.last(), Some(Op::Compact)) && with_admin && r.chance(1, 3) {
            ops.push(Op::CloseReopen);
            continue;
        }
        let mut ws = vec![];
        let nw = 1 + r.below(4) as usize;
        let mut tx_nodes = 0u32;
        for _ in 0..nw {
            let have = nodes + tx_nodes;
            let kind = if have == 0 { 0 } else { r.below(10) };
            match kind {
                0 | 1 | 2 => {
                    ws.push(W::Node { ext: next_ext, label: r.pick(LABELS).to_string() });
                    next_ext += 1;
                    tx_nodes += 1;
                }
                3 | 4 => {
                    let s = r.below(have as u64) as u32;
                    let d = r.below(have as u64) as u32;
                    let rel = r.pick(RELS).to_string();
                    edges.push((s, rel.clone(), d));
                    ws.push(W::Edge { s, r: rel, d });
                }
                5 | 6 => ws.push(W::SetNP { n: r.below(have as u64) as u32, k: r.pick(KEYS).to_string(), v: r.range(-5, 5) }),
                7 => {
                    if !edges.is_empty() && r.chance(1, 2) {
                        let (s, rel, d) = r.pick(&edges).clone();
                        ws.push(W::SetEP { s, r: rel, d, k: r.pick(KEYS).to_string(), v: r.range(-5, 5) });
                    } else {
                        ws.push(W::RmNP { n: r.below(have as u64) as u32, k: r.pick(KEYS).to_string() });
                    }
                }
                8 => {
                    if !edges.is_empty() && r.chance(1, 2) {
                        let (s, rel, d) = r.pick(&edges).clone();
                        ws.push(W::DelEdge { s, r: rel, d });
                    } else if nodes > 0 {
                        ws.push(W::DelNode(r.below(nodes as u64) as u32));
                    }
                }
                _ => {
                    if nodes > 0 {
                        ws.push(W::AddLabel { n: r.below(nodes as u64) as u32, l: r.pick(LABELS).to_string() });
                    }
                }
            }
        }
        if ws.is_empty() {
            ws.push(W::Node { ext: next_ext, label: "A".into() });
            next_ext += 1;
            tx_nodes += 1;
        }
        nodes += tx_nodes;
        ops.push(Op::Tx(ws));
    }
    ops
}

// ------------------------------------------------------------------ running

pub struct Paths {
    pub ndb: PathBuf,
    pub wal: PathBuf,
}
impl Paths {
    pub fn in_dir(d: &Path) -> Self {
        Paths { ndb: d.join("db.ndb"), wal: d.join("db.wal") }
    }
}

pub fn open_engine(p: &Paths) -> Result<GraphEngine, String> {
    match vh::catch(std::panic::AssertUnwindSafe(|| GraphEngine::open(&p.ndb, &p.wal))) {
        Ok(Ok(e)) => Ok(e),
        Ok(Err(e)) => Err(format!("error: {}", e)),
        Err(p) => Err(format!("panic: {}", p)),
    }
}

/// Applies one transaction; Err = some step (label creation or commit) failed.
pub fn apply_tx(e: &GraphEngine, ws: &[W]) -> Result<(), String> {
    // label / rel-type ids first (each creation is its own logged mini-transaction)
    let mut ids: BTreeMap<String, u32> = BTreeMap::new();
    for w in ws {
        let name = match w {
            W::Node { label, .. } => Some(label.clone()),
            W::Edge { r, .. } | W::DelEdge { r, .. } | W::SetEP { r, .. } => Some(r.clone()),
            W::AddLabel { l, .. } => Some(l.clone()),
            _ => None,
        };
        if let Some(n) = name {
            if !ids.contains_key(&n) {
                let id = e.get_or_create_label(&n).map_err(|x| x.to_string())?;
                ids.insert(n, id);
            }
        }
    }
    let mut tx = e.begin_write();
    for w in ws {
        match w {
            W::Node { ext, label } => {
                tx.create_node(*ext, ids[label]).map_err(|x| x.to_string())?;
            }
            W::Edge { s, r, d } => tx.create_edge(*s, ids[r], *d),
            W::DelNode(n) => tx.tombstone_node(*n),
            W::DelEdge { s, r, d } => tx.tombstone_edge(*s, ids[r], *d),
            W::SetNP { n, k, v } => tx.set_node_property(*n, k.clone(), PropertyValue::Int(*v)),
            W::RmNP { n, k } => tx.remove_node_property(*n, k),
            W::SetEP { s, r, d, k, v } => tx.set_edge_property(*s, ids[r], *d, k.clone(), PropertyValue::Int(*v)),
            W::AddLabel { n, l } => tx.add_node_label(*n, ids[l]).map_err(|x| x.to_string())?,
        }
    }
    tx.commit().map_err(|x| x.to_string())
}

/// Canonical logical dump through the public snapshot API.
pub fn dump(e: &GraphEngine) -> String {
    let r = vh::catch(std::panic::AssertUnwindSafe(|| {
        let s = e.snapshot();
        let n_all = e.scan_i2e_records().len() as u32;
        let mut out = String::new();
        let live: Vec<u32> = s.nodes().collect();
        for iid in &live {
            let mut labels: Vec<String> = s
                .resolve_node_labels(*iid)
                .unwrap_or_default()
                .into_iter()
                .map(|l| s.resolve_label_name(l).unwrap_or_else(|| format!("#{}", l)))
                .collect();
            labels.sort();
            let props = s.node_properties(*iid).unwrap_or_default();
            out.push_str(&format!("N {} ext={:?} labels={:?} props={:?}\n", iid, s.resolve_external(*iid), labels, fmt_props(&props)));
        }
        for iid in 0..n_all {
            let mut outs: BTreeMap<(u32, String, u32), (u32, String)> = BTreeMap::new();
            for ek in s.neighbors(iid, None) {
                let key = (ek.src, s.resolve_rel_type_name(ek.rel).unwrap_or_default(), ek.dst);
                let p = s.edge_properties(EdgeKey { src: ek.src, rel: ek.rel, dst: ek.dst }).unwrap_or_default();
                let ent = outs.entry(key).or_insert((0, fmt_props(&p)));
                ent.0 += 1;
            }
            for (k, v) in outs {
                out.push_str(&format!("OUT {:?} x{} {}\n", k, v.0, v.1));
            }
            let mut ins: BTreeMap<(u32, String, u32), u32> = BTreeMap::new();
            for ek in s.incoming_neighbors(iid, None) {
                *ins.entry((ek.src, s.resolve_rel_type_name(ek.rel).unwrap_or_default(), ek.dst)).or_insert(0) += 1;
            }
            for (k, v) in ins {
                out.push_str(&format!("IN {:?} x{}\n", k, v));
            }
        }
        out
    }));
    match r {
        Ok(s) => s,
        Err(p) => format!("PANIC while dumping: {}", p),
    }
}

fn fmt_props(p: &BTreeMap<String, PropertyValue>) -> String {
    let mut v: Vec<String> = p.iter().map(|(k, v)| format!("{}={:?}", k, v)).collect();
    v.sort();
    v.join(",")
}

/// Dump of the database stored in the two byte images (opened in a scratch dir).
pub fn dump_image(ndb: &[u8], wal: &[u8]) -> Result<String, String> {
    let d = tempfile::tempdir().unwrap();
    let p = Paths::in_dir(d.path());
    std::fs::write(&p.ndb, ndb).unwrap();
    std::fs::write(&p.wal, wal).unwrap();
    let e = open_engine(&p)?;
    Ok(dump(&e))
}

pub struct OpRec {
    /// event sequence numbers [start, end) issued by this operation
    pub start: usize,
    pub end: usize,
    pub result: Result<(), String>,
}

pub struct Run {
    pub events: Vec<IoEvent>,
    pub ops: Vec<OpRec>,
    /// in-process dump before op i (index i) and after the last op (index n)
    pub mem_dumps: Vec<String>,
    /// dump of a reopened copy of the files before op i / after the last op:
    /// the oracle states O_0 .. O_n
    pub oracle: Vec<String>,
    pub ndb_path: String,
    pub wal_path: String,
    /// the images the run started from (None: empty directory)
    pub init: Option<(Vec<u8>, Vec<u8>)>,
}

fn copy_dump(p: &Paths) -> String {
    let ndb = std::fs::read(&p.ndb).unwrap_or_default();
    let wal = std::fs::read(&p.wal).unwrap_or_default();
    // the hook must not see the scratch copy's I/O: recording is paused by the caller
    dump_image(&ndb, &wal).unwrap_or_else(|e| format!("OPEN FAILED {}", e))
}

/// Runs `hist` on a fresh database in `dir` with I/O recording.  `fail_at`: the
/// I/O step with that sequence number fails.  With `oracles`, the reopened-copy dump
/// is taken at every operation boundary (recording paused meanwhile).
pub fn run_history(dir: &Path, hist: &[Op], fail_at: Option<u64>, oracles: bool, stop_after_failure: bool) -> (Run, Option<GraphEngine>) {
    run_history_from(dir, None, hist, fail_at, oracles, stop_after_failure)
}

/// as `run_history`, starting from the given (ndb, wal) images instead of an empty directory
pub fn run_history_from(dir: &Path, init: Option<(&[u8], &[u8])>, hist: &[Op], fail_at: Option<u64>, oracles: bool, stop_after_failure: bool) -> (Run, Option<GraphEngine>) {
    let p = Paths::in_dir(dir);
    if let Some((ndb, wal)) = init {
        std::fs::write(&p.ndb, ndb).unwrap();
        std::fs::write(&p.wal, wal).unwrap();
    }
    let init_files = init.map(|(a, b)| (a.to_vec(), b.to_vec()));
    let mut all_events: Vec<IoEvent> = vec![];
    let mut ops = vec![];
    let mut mem_dumps = vec![];
    let mut oracle = vec![];
    let mut seq_base: u64 = 0;
    // recording is restarted around every operation so that oracle copies are not recorded;
    // sequence numbers are made global again by adding seq_base
    let rel_fail = |base: u64| fail_at.and_then(|f| if f >= base { Some(f - base) } else { None });

    verif_io::start(rel_fail(seq_base));
    let mut engine = Some(open_engine(&p).expect("fresh open"));
    let mut evs = verif_io::stop();
    for e in evs.iter_mut() {
        e.seq += seq_base;
    }
    seq_base += evs.len() as u64;
    all_events.extend(evs);

    for op in hist {
        let e = engine.as_ref().unwrap();
        mem_dumps.push(dump(e));
        if oracles {
            oracle.push(copy_dump(&p));
        }
        let start = all_events.len();
        verif_io::start(rel_fail(seq_base));
        let result: Result<(), String> = match op {
            Op::Tx(ws) => apply_tx(e, ws),
            Op::Compact => e.compact().map_err(|x| x.to_string()),
            Op::CloseReopen => {
                let r = e.checkpoint_on_close().map_err(|x| x.to_string());
                if r.is_ok() {
                    engine = None;
                    match open_engine(&p) {
                        Ok(ne) => {
                            engine = Some(ne);
                            Ok(())
                        }
                        Err(x) => Err(format!("reopen: {}", x)),
                    }
                } else {
                    r
                }
            }
            Op::DropReopen => {
                engine = None;
                match open_engine(&p) {
                    Ok(ne) => {
                        engine = Some(ne);
                        Ok(())
                    }
                    Err(x) => Err(format!("reopen: {}", x)),
                }
            }
        };
        let mut evs = verif_io::stop();
        for ev in evs.iter_mut() {
            ev.seq += seq_base;
        }
        seq_base += evs.len() as u64;
        all_events.extend(evs);
        let failed = result.is_err();
        ops.push(OpRec { start, end: all_events.len(), result });
        if engine.is_none() {
            break;
        }
        if failed && stop_after_failure {
            break;
        }
    }
    if let Some(e) = engine.as_ref() {
        mem_dumps.push(dump(e));
        if oracles {
            oracle.push(copy_dump(&p));
        }
    }
    (
        Run {
            events: all_events,
            ops,
            mem_dumps,
            oracle,
            ndb_path: p.ndb.to_string_lossy().to_string(),
            wal_path: p.wal.to_string_lossy().to_string(),
            init: init_files,
        },
        engine,
    )
}

// ------------------------------------------------------------------ images

#[derive(Clone, Default)]
pub struct Files {
    pub vol: BTreeMap<String, Vec<u8>>,
    pub dur: BTreeMap<String, Vec<u8>>,
}

pub fn apply_event(f: &mut Files, ev: &IoEvent, cut: Option<usize>, rename_durable: bool) {
    if ev.failed {
        return;
    }
    match ev.kind {
        IoKind::Write => {
            let data = match cut {
                Some(c) => &ev.data[..c.min(ev.data.len())],
                None => &ev.data[..],
            };
            let file = f.vol.entry(ev.path.clone()).or_default();
            let end = ev.offset as usize + data.len();
            if file.len() < end {
                file.resize(end, 0);
            }
            file[ev.offset as usize..end].copy_from_slice(data);
        }
        IoKind::SetLen => {
            f.vol.entry(ev.path.clone()).or_default().resize(ev.offset as usize, 0);
        }
        IoKind::Sync => {
            let cur = f.vol.get(&ev.path).cloned().unwrap_or_default();
            f.dur.insert(ev.path.clone(), cur);
        }
        IoKind::Create => {
            f.vol.insert(ev.path.clone(), vec![]);
        }
        IoKind::Rename => {
            if let Some(v) = f.vol.remove(&ev.path) {
                f.vol.insert(ev.path2.clone(), v);
            }
            // the temporary file was synced before the rename; whether the directory
            // entry is durable at once is the caller's choice
            if rename_durable {
                if let Some(v) = f.dur.remove(&ev.path) {
                    f.dur.insert(ev.path2.clone(), v);
                }
            } else {
                f.dur.remove(&ev.path);
            }
        }
        IoKind::Remove => {
            f.vol.remove(&ev.path);
            f.dur.remove(&ev.path);
        }
    }
}

#[derive(Clone, Copy, Debug, PartialEq, Eq)]
pub enum Mode {
    /// process death: written bytes persist
    Pd,
    /// power loss, strict: only fsynced content persists (rename durable at once)
    Pl,
    /// power loss, rename of the rewritten log not yet durable
    PlNoRename,
}

/// image after the first k events (+ `cut` bytes of event k if it is a write)
pub fn image_at(run: &Run, k: usize, cut: Option<usize>, mode: Mode) -> (Vec<u8>, Vec<u8>) {
    let mut f = Files::default();
    if let Some((ndb, wal)) = &run.init {
        f.vol.insert(run.ndb_path.clone(), ndb.clone());
        f.dur.insert(run.ndb_path.clone(), ndb.clone());
        f.vol.insert(run.wal_path.clone(), wal.clone());
        f.dur.insert(run.wal_path.clone(), wal.clone());
    }
    for ev in &run.events[..k] {
        apply_event(&mut f, ev, None, mode != Mode::PlNoRename);
    }
    if let Some(c) = cut {
        if k < run.events.len() && run.events[k].kind == IoKind::Write {
            apply_event(&mut f, &run.events[k], Some(c), true);
        }
    }
    let m = if mode == Mode::Pd { &f.vol } else { &f.dur };
    (m.get(&run.ndb_path).cloned().unwrap_or_default(), m.get(&run.wal_path).cloned().unwrap_or_default())
}

/// index of the operation whose events contain sequence number k (None: before the first op)
pub fn op_of_event(run: &Run, k: usize) -> Option<usize> {
    run.ops.iter().position(|o| k >= o.start && k < o.end)
}

// ------------------------------------------------------------------ abstract trace (coq/theories/Crash/Protocol.v)

#[derive(Clone, Debug, PartialEq)]
pub enum AStep {
    Tx(u64, Option<(u64, u64)>),
    Torn,
    WSync,
    P,
    PSync,
    Rewrite(u64, u64, u64),
    Ack,
    Bad,
}

impl AStep {
    pub fn coq(&self) -> String {
        let n = |x: &u64| vh::coq_n(*x as u128);
        match self {
            AStep::Tx(t, None) => format!("STx {} None", n(t)),
            AStep::Tx(t, Some((u, k))) => format!("STx {} (Some ({}, {}))", n(t), n(u), n(k)),
            AStep::Torn => "STorn".into(),
            AStep::WSync => "SWSync".into(),
            AStep::P => "SP".into(),
            AStep::PSync => "SPSync".into(),
            AStep::Rewrite(t, u, k) => format!("SRewrite {} {} {}", n(t), n(u), n(k)),
            AStep::Ack => "SAck".into(),
            AStep::Bad => "SBad".into(),
        }
    }
}

fn le64(b: &[u8]) -> u64 {
    let mut x = [0u8; 8];
    if b.len() >= 8 {
        x.copy_from_slice(&b[..8]);
    }
    u64::from_le_bytes(x)
}

/// incremental grouping of WAL records into transactions, as Wal::replay_committed does
#[derive(Default)]
struct Grouper {
    cur: Option<u64>,
    pend: Option<(u64, u64)>,
}
impl Grouper {
    /// returns a step to emit for this record body, if any
    fn feed(&mut self, body: &[u8], page_writes: u64) -> Option<AStep> {
        match body.first() {
            Some(1) => {
                self.cur = Some(le64(&body[1..]));
                self.pend = None;
                None
            }
            Some(2) => {
                let t = le64(&body[1..]);
                if self.cur == Some(t) {
                    self.cur = None;
                    Some(AStep::Tx(t, self.pend.take()))
                } else {
                    Some(AStep::Bad)
                }
            }
            Some(10) => {
                if self.cur.is_none() {
                    return Some(AStep::Bad);
                }
                self.pend = Some((le64(&body[1..]), page_writes));
                None
            }
            Some(_) => {
                if self.cur.is_none() {
                    Some(AStep::Bad)
                } else {
                    None
                }
            }
            None => Some(AStep::Bad),
        }
    }
}

/// The abstract trace of a run: (step, number of I/O events consumed when the step is complete).
/// `SAck` is inserted at the end of every operation that returned Ok.
pub fn abstract_trace(run: &Run) -> Vec<(AStep, usize)> {
    abstract_trace2(run).0
}

fn rrec(body: &[u8], page_writes: u64) -> String {
    let n = |x: u64| vh::coq_n(x as u128);
    match body.first() {
        Some(1) => format!("(RBegin {})", n(le64(&body[1..]))),
        Some(2) => format!("(RCommit {})", n(le64(&body[1..]))),
        Some(10) => format!("(RCkpt {} {})", n(le64(&body[1..])), n(page_writes)),
        _ => "RData".to_string(),
    }
}

/// abstract trace plus the same run at record granularity (Coq terms of type `rstep`)
pub fn abstract_trace2(run: &Run) -> (Vec<(AStep, usize)>, Vec<String>) {
    let mut rt: Vec<String> = vec![];
    let mut out: Vec<(AStep, usize)> = vec![];
    let evs = &run.events;
    let mut page_writes: u64 = 0;
    let mut g = Grouper::default();
    let mut tmp_g = Grouper::default();
    let mut tmp_steps: Vec<AStep> = vec![];
    let mut op_iter = run.ops.iter().peekable();
    let mut i = 0;
    // if the run started from an image, the log already holds transactions: they are replayed
    // into the trace by the caller (see `seed_trace`)
    while i <= evs.len() {
        while let Some(o) = op_iter.peek() {
            if o.end <= i {
                if o.result.is_ok() {
                    out.push((AStep::Ack, o.end));
                    rt.push("ROpOk".into());
                }
                op_iter.next();
            } else {
                break;
            }
        }
        if i == evs.len() {
            break;
        }
        let ev = &evs[i];
        let is_wal = ev.path == run.wal_path;
        let is_tmp = ev.path == "<wal.tmp>";
        let is_ndb = ev.path == run.ndb_path;
        if ev.failed {
            // a failed WAL write in the middle of an append leaves a torn frame behind
            // a failed WAL write leaves the part of the frame written so far behind, unless the
            // append rolls the file back to its previous length (SetLen before the next append)
            if is_wal && ev.kind == IoKind::Write {
                let rolled_back = evs[i + 1..]
                    .iter()
                    .take_while(|e| !(e.path == run.wal_path && e.kind == IoKind::Write))
                    .any(|e| e.path == run.wal_path && e.kind == IoKind::SetLen && !e.failed);
                let first_of_frame = ev.data.len() == 4 && (i == 0 || !(evs[i - 1].path == run.wal_path && evs[i - 1].kind == IoKind::Write && evs[i - 1].data.len() == 4 && evs[i - 1].offset + 4 == ev.offset));
                if !rolled_back && !first_of_frame {
                    out.push((AStep::Torn, i + 1));
                    rt.push("RWtorn".into());
                }
            }
            i += 1;
            continue;
        }
        match ev.kind {
            IoKind::Write if is_wal => {
                if ev.data.len() == 4 && i + 2 < evs.len() && evs[i + 1].kind == IoKind::Write && evs[i + 2].kind == IoKind::Write && !evs[i + 1].failed && !evs[i + 2].failed && evs[i + 1].path == run.wal_path && evs[i + 2].path == run.wal_path {
                    rt.push(format!("RW {}", rrec(&evs[i + 2].data, page_writes)));
                    if let Some(st) = g.feed(&evs[i + 2].data, page_writes) {
                        out.push((st, i + 3));
                    }
                    i += 3;
                    continue;
                }
                // len (or len+crc) written, the rest failed: handled when the failed event is seen
            }
            IoKind::Write if is_tmp => {
                if ev.data.len() >= 9 {
                    rt.push(format!("RTmp {}", rrec(&ev.data[8..], page_writes)));
                    if let Some(st) = tmp_g.feed(&ev.data[8..], page_writes) {
                        tmp_steps.push(st);
                    }
                }
            }
            IoKind::Write if is_ndb => {
                page_writes += 1;
                out.push((AStep::P, i + 1));
                rt.push("RP".into());
            }
            IoKind::Sync if is_wal => {
                out.push((AStep::WSync, i + 1));
                rt.push("RWSync".into());
            }
            IoKind::Sync if is_ndb => {
                out.push((AStep::PSync, i + 1));
                rt.push("RPSync".into());
            }
            IoKind::Rename => {
                let st = match tmp_steps.as_slice() {
                    [AStep::Tx(t, Some((u, k)))] => AStep::Rewrite(*t, *u, *k),
                    _ => AStep::Bad,
                };
                out.push((st, i + 1));
                rt.push("RRename".into());
                tmp_steps.clear();
                tmp_g = Grouper::default();
                g = Grouper::default();
            }
            _ => {}
        }
        i += 1;
    }
    (out, rt)
}

/// number of abstract steps complete after the first k events
pub fn abstract_index(tr: &[(AStep, usize)], k: usize) -> usize {
    tr.iter().take_while(|(_, e)| *e <= k).count()
}

/// Rust mirror of Crash/Protocol.v (`step_disk`, `step_ok`, `recovered_ids`); the Coq side
/// re-computes both on every case, so a divergence between the two shows up as a correspondence
/// mismatch.
#[derive(Clone, Default)]
pub struct MDisk {
    pub wv: Vec<Option<(u64, Option<(u64, u64)>)>>,
    pub wd: usize,
    pub pv: u64,
    pub pd: u64,
    pub acked: Vec<u64>,
}
pub fn m_scan(w: &[Option<(u64, Option<(u64, u64)>)>]) -> Vec<(u64, Option<(u64, u64)>)> {
    w.iter().take_while(|x| x.is_some()).map(|x| x.unwrap()).collect()
}
impl MDisk {
    /// returns false if the monitor rejects the step
    pub fn step(&mut self, s: &AStep) -> bool {
        match s {
            AStep::Tx(t, ck) => {
                // the checkpoint in force: the last one in the readable log
                let eff = m_scan(&self.wv).iter().rev().find_map(|x| x.1);
                let above = match eff {
                    Some((u, _)) => u < *t,
                    None => true,
                };
                let ok = above
                    && match ck {
                        Some((u, n)) => {
                            let ids: Vec<u64> = m_scan(&self.wv).iter().map(|x| x.0).collect();
                            *n == self.pv && self.pd == self.pv && u < t && self.acked.iter().all(|a| a <= u || ids.contains(a) || a == t)
                        }
                        None => true,
                    };
                self.wv.push(Some((*t, *ck)));
                ok
            }
            AStep::Torn => {
                self.wv.push(None);
                true
            }
            AStep::WSync => {
                self.wd = self.wv.len();
                true
            }
            AStep::P => {
                self.pv += 1;
                true
            }
            AStep::PSync => {
                self.pd = self.pv;
                true
            }
            AStep::Rewrite(t, u, n) => {
                let ok = *n == self.pv && self.pd == self.pv && u < t && self.acked.iter().all(|a| a <= u || a == t);
                self.wv = vec![Some((*t, Some((*u, *n))))];
                self.wd = 1;
                ok
            }
            AStep::Ack => {
                let ok = self.wd == self.wv.len() && self.wv.iter().all(|x| x.is_some());
                let ids: Vec<u64> = m_scan(&self.wv).iter().map(|x| x.0).collect();
                self.acked.extend(ids);
                ok
            }
            AStep::Bad => false,
        }
    }
}
/// index of the first rejected step, if any
pub fn monitor(tr: &[AStep]) -> Option<usize> {
    let mut d = MDisk::default();
    for (i, s) in tr.iter().enumerate() {
        if !d.step(s) {
            return Some(i);
        }
    }
    None
}

// ------------------------------------------------------------------ node-table trace (coq/theories/Crash/NodeTable.v)

const PAGE: usize = 8192;
const I2E_REC: usize = 16;

/// NRec idx / NMeta len / NSync steps of a run, with the number of events consumed.
/// Meta page: i2e_start at bytes 48..56, i2e_len at 56..64 (layout re-read from pager.rs by
/// gen/consts_store.py and checked against these literals by the Coq side through Corr/Crash.v).
pub fn node_table_trace(run: &Run) -> Vec<(String, usize)> {
    let mut out = vec![];
    let mut pages: BTreeMap<u64, Vec<u8>> = BTreeMap::new();
    let mut start: u64 = 0;
    if let Some((ndb, _)) = &run.init {
        for (i, ch) in ndb.chunks(PAGE).enumerate() {
            pages.insert(i as u64, ch.to_vec());
        }
        if ndb.len() >= 64 {
            start = le64(&ndb[48..56]);
            // seed: records and header already present
            let len = le64(&ndb[56..64]);
            for idx in 0..len {
                out.push((format!("NRec {}", vh::coq_n(idx as u128)), 0));
            }
            out.push((format!("NMeta {}", vh::coq_n(len as u128)), 0));
            out.push(("NSync".to_string(), 0));
        }
    }
    for (i, ev) in run.events.iter().enumerate() {
        if ev.failed || ev.path != run.ndb_path {
            continue;
        }
        match ev.kind {
            IoKind::Write if ev.data.len() == PAGE => {
                let pid = ev.offset / PAGE as u64;
                if pid == 0 {
                    start = le64(&ev.data[48..56]);
                    out.push((format!("NMeta {}", vh::coq_n(le64(&ev.data[56..64]) as u128)), i + 1));
                } else if start != 0 && pid == start {
                    let old = pages.get(&pid).cloned().unwrap_or_else(|| vec![0u8; PAGE]);
                    for slot in 0..(PAGE / I2E_REC) {
                        let a = &ev.data[slot * I2E_REC..(slot + 1) * I2E_REC];
                        let b = &old[slot * I2E_REC..(slot + 1) * I2E_REC];
                        if a != b {
                            out.push((format!("NRec {}", vh::coq_n(slot as u128)), i + 1));
                        }
                    }
                }
                pages.insert(pid, ev.data.clone());
            }
            IoKind::Sync => out.push(("NSync".to_string(), i + 1)),
            _ => {}
        }
    }
    out
}

/// Rust mirror of NodeTable.v's monitor
pub fn node_table_ok(tr: &[(String, usize)]) -> bool {
    let (mut recs, mut _len) = (0u64, 0u64);
    for (s, _) in tr {
        let num = |s: &str| s.split_whitespace().nth(1).map(|x| x.trim_end_matches("%N").parse::<u64>().unwrap_or(0)).unwrap_or(0);
        if s.starts_with("NRec") {
            let idx = num(s);
            if idx > recs {
                return false;
            }
            recs = recs.max(idx + 1);
        } else if s.starts_with("NMeta") {
            let l = num(s);
            if l > recs {
                return false;
            }
            _len = l;
        }
    }
    true
}

/// transaction ids that the real log scanner recovers from a log image (None: scan fails)
pub fn impl_committed_ids(wal: &[u8]) -> Option<Vec<u64>> {
    let d = tempfile::tempdir().unwrap();
    let p = d.path().join("x.wal");
    std::fs::write(&p, wal).unwrap();
    match vh::catch(std::panic::AssertUnwindSafe(|| nervusdb_storage::wal::Wal::replay_committed_from_path(&p))) {
        Ok(Ok(txs)) => Some(txs.iter().map(|t| t.txid).collect()),
        _ => None,
    }
}

// ------------------------------------------------------------------ exploration

pub mod explore;
