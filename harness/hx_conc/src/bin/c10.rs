//! C10 — several handles on the same database path: handles of this process
//! (`nervusdb::Db::open`) and one handle in a child process (this binary re-executed
//! with `--child <path>`, driven over stdin/stdout), operations open / commit / compact /
//! close executed one call at a time in an explicit interleaving.
//!
//! * correspondence: the result of every call and the set of open handles at the end
//!   are written out for the model (`Corr/C10.v`);
//! * direct search: never two handles open at once; after everything is closed the
//!   database reopens and holds exactly the nodes of the commits that reported success.
use nervusdb::{Db, GraphSnapshot};
use serde_json::json;
use std::collections::{BTreeMap, BTreeSet};
use std::io::{BufRead, BufReader, Write};
use std::path::{Path, PathBuf};
use std::process::{Child, ChildStdin, ChildStdout, Command, Stdio};
use vh::*;

#[derive(Clone, Debug, PartialEq, Eq, PartialOrd, Ord)]
enum Op {
    Open,
    Commit(i64),
    Compact,
    Close,
    Offline, // nervusdb::vacuum on the path (an offline tool that rewrites the data file)
}
#[derive(Clone, Debug, PartialEq, Eq)]
enum Res {
    OpenOk,
    OpenRefused,
    AlreadyOpen,
    Wrote(Op),
    Closed,
    NoHandle,
    Offline,
    OfflineRefused,
    Unexpected(String),
}
impl Op {
    fn coq(&self) -> String {
        match self {
            Op::Open => "HOpen".into(),
            Op::Commit(d) => format!("(HCommit {})", coq_z(*d as i128)),
            Op::Compact => "HCompact".into(),
            Op::Close => "HClose".into(),
            Op::Offline => "HOffline".into(),
        }
    }
}
impl Res {
    fn coq(&self) -> String {
        match self {
            Res::OpenOk => "ROpenOk".into(),
            Res::OpenRefused => "ROpenRefused".into(),
            Res::AlreadyOpen => "RAlreadyOpen".into(),
            Res::Wrote(Op::Commit(d)) => format!("(RWrote (WCommit {}))", coq_z(*d as i128)),
            Res::Wrote(Op::Compact) => "(RWrote WCompact)".into(),
            Res::Wrote(_) => "(RWrote WClose)".into(),
            Res::Closed => "RClosed".into(),
            Res::NoHandle => "RNoHandle".into(),
            Res::Offline => "ROffline".into(),
            Res::OfflineRefused => "ROfflineRefused".into(),
            // no model counterpart: rendered as a result the model never produces for this operation
            Res::Unexpected(_) => "RAlreadyOpen".into(),
        }
    }
}

fn is_refusal(msg: &str) -> bool {
    msg.contains("already open")
}

/// one operation on an in-process handle slot
fn apply_local(slot: &mut Option<Db>, path: &Path, op: &Op) -> Res {
    match op {
        Op::Open => {
            if slot.is_some() {
                return Res::AlreadyOpen;
            }
            match Db::open(path) {
                Ok(db) => {
                    *slot = Some(db);
                    Res::OpenOk
                }
                Err(e) => {
                    let m = e.to_string();
                    if is_refusal(&m) { Res::OpenRefused } else { Res::Unexpected(format!("open: {}", m)) }
                }
            }
        }
        Op::Commit(d) => match slot {
            None => Res::NoHandle,
            Some(db) => {
                let r = vh::catch(std::panic::AssertUnwindSafe(|| -> Result<(), String> {
                    let mut tx = db.begin_write();
                    let l = tx.get_or_create_label("N").map_err(|e| e.to_string())?;
                    let n = tx.create_node(*d as u64, l).map_err(|e| e.to_string())?;
                    tx.set_node_property(n, "v".to_string(), nervusdb::PropertyValue::Int(*d)).map_err(|e| e.to_string())?;
                    tx.commit().map_err(|e| e.to_string())
                }));
                match r {
                    Ok(Ok(())) => Res::Wrote(op.clone()),
                    Ok(Err(e)) => Res::Unexpected(format!("commit: {}", e)),
                    Err(p) => Res::Unexpected(format!("commit panicked: {}", p)),
                }
            }
        },
        Op::Compact => match slot {
            None => Res::NoHandle,
            Some(db) => match vh::catch(std::panic::AssertUnwindSafe(|| db.compact().map_err(|e| e.to_string()))) {
                Ok(Ok(())) => Res::Wrote(Op::Compact),
                Ok(Err(e)) => Res::Unexpected(format!("compact: {}", e)),
                Err(p) => Res::Unexpected(format!("compact panicked: {}", p)),
            },
        },
        Op::Offline => match vh::catch(std::panic::AssertUnwindSafe(|| nervusdb::vacuum(path).map_err(|e| e.to_string()))) {
            Ok(Ok(_)) => Res::Offline,
            Ok(Err(e)) if is_refusal(&e) => Res::OfflineRefused,
            Ok(Err(e)) => Res::Unexpected(format!("vacuum: {}", e)),
            Err(p) => Res::Unexpected(format!("vacuum panicked: {}", p)),
        },
        Op::Close => match slot.take() {
            None => Res::NoHandle,
            Some(db) => match db.close() {
                Ok(()) => Res::Closed,
                Err(e) => Res::Unexpected(format!("close: {}", e)),
            },
        },
    }
}

// ---------------------------------------------------------------- child process

fn child_main(path: &Path) {
    let stdin = std::io::stdin();
    let mut out = std::io::stdout();
    let mut slot: Option<Db> = None;
    for line in stdin.lock().lines() {
        let line = line.unwrap();
        let mut it = line.split_whitespace();
        let op = match it.next() {
            Some("open") => Op::Open,
            Some("commit") => Op::Commit(it.next().unwrap().parse().unwrap()),
            Some("compact") => Op::Compact,
            Some("close") => Op::Close,
            Some("offline") => Op::Offline,
            Some("quit") | None => break,
            Some(x) => panic!("child: unknown command {}", x),
        };
        let r = apply_local(&mut slot, path, &op);
        let s = match r {
            Res::OpenOk => "openok".to_string(),
            Res::OpenRefused => "refused".to_string(),
            Res::AlreadyOpen => "already".to_string(),
            Res::Wrote(_) => "wrote".to_string(),
            Res::Closed => "closed".to_string(),
            Res::NoHandle => "nohandle".to_string(),
            Res::Offline => "offline".to_string(),
            Res::OfflineRefused => "offlinerefused".to_string(),
            Res::Unexpected(m) => format!("unexpected {}", m.replace('\n', " ")),
        };
        writeln!(out, "{}", s).unwrap();
        out.flush().unwrap();
    }
    drop(slot);
}

struct ChildHandle {
    proc: Child,
    stdin: ChildStdin,
    stdout: BufReader<ChildStdout>,
}
impl ChildHandle {
    fn spawn(path: &Path) -> ChildHandle {
        let exe = std::env::current_exe().unwrap();
        let mut proc = Command::new(exe).arg("--child").arg(path).stdin(Stdio::piped()).stdout(Stdio::piped()).stderr(Stdio::null()).spawn().unwrap();
        let stdin = proc.stdin.take().unwrap();
        let stdout = BufReader::new(proc.stdout.take().unwrap());
        ChildHandle { proc, stdin, stdout }
    }
    fn apply(&mut self, op: &Op) -> Res {
        let cmd = match op {
            Op::Open => "open".to_string(),
            Op::Commit(d) => format!("commit {}", d),
            Op::Compact => "compact".to_string(),
            Op::Close => "close".to_string(),
            Op::Offline => "offline".to_string(),
        };
        if writeln!(self.stdin, "{}", cmd).is_err() || self.stdin.flush().is_err() {
            return Res::Unexpected("child process is gone".into());
        }
        let mut line = String::new();
        if self.stdout.read_line(&mut line).unwrap_or(0) == 0 {
            return Res::Unexpected("child process died".into());
        }
        match line.trim() {
            "openok" => Res::OpenOk,
            "refused" => Res::OpenRefused,
            "already" => Res::AlreadyOpen,
            "wrote" => Res::Wrote(op.clone()),
            "closed" => Res::Closed,
            "nohandle" => Res::NoHandle,
            "offline" => Res::Offline,
            "offlinerefused" => Res::OfflineRefused,
            other => Res::Unexpected(other.to_string()),
        }
    }
    fn quit(mut self) {
        let _ = writeln!(self.stdin, "quit");
        let _ = self.stdin.flush();
        drop(self.stdin);
        let _ = self.proc.wait();
    }
}

// ---------------------------------------------------------------- a case

/// (length, FNV-1a hash) of a file; (0, 0) if it does not exist
fn fingerprint(p: &Path) -> (u64, u64) {
    match std::fs::read(p) {
        Ok(b) => {
            let mut h: u64 = 0xcbf29ce484222325;
            for x in &b {
                h = (h ^ *x as u64).wrapping_mul(0x100000001b3);
            }
            (b.len() as u64, h)
        }
        Err(_) => (0, 0),
    }
}
fn db_files(path: &Path) -> [PathBuf; 2] {
    [path.with_extension("ndb"), path.with_extension("wal")]
}

/// A holder commits continuously (many multi-record transactions) while threads of this process and a child
/// process keep asking for another handle on the same path.  Every request must be refused, and after close +
/// reopen every acknowledged commit must be there.
fn hammer_stream(txs: usize, per_tx: usize) -> (Result<(), String>, u64) {
    use std::sync::atomic::{AtomicBool, AtomicU64, Ordering};
    use std::sync::Arc;
    let dir = if Path::new("/dev/shm").is_dir() { tempfile::tempdir_in("/dev/shm").unwrap() } else { tempfile::tempdir().unwrap() };
    let path = dir.path().join("c10stream");
    let holder = match Db::open(&path) {
        Ok(d) => d,
        Err(e) => return (Err(format!("stream: open: {}", e)), 0),
    };
    let stop = Arc::new(AtomicBool::new(false));
    let refused = Arc::new(AtomicU64::new(0));
    let granted = Arc::new(AtomicU64::new(0));
    let mut openers = vec![];
    for _ in 0..3 {
        let (p, stop, refused, granted) = (path.clone(), stop.clone(), refused.clone(), granted.clone());
        openers.push(std::thread::spawn(move || {
            while !stop.load(Ordering::SeqCst) {
                match Db::open(&p) {
                    Ok(_) => granted.fetch_add(1, Ordering::SeqCst),
                    Err(_) => refused.fetch_add(1, Ordering::SeqCst),
                };
            }
        }));
    }
    let exe = std::env::current_exe().unwrap();
    let mut child = Command::new(exe).arg("--hammer").arg(&path).stdin(Stdio::piped()).stdout(Stdio::piped()).stderr(Stdio::null()).spawn().unwrap();
    let mut acked = 0usize;
    let mut err = None;
    let res = vh::catch(std::panic::AssertUnwindSafe(|| -> Result<(), String> {
        let mut tx = holder.begin_write();
        let l = tx.get_or_create_label("N").map_err(|e| e.to_string())?;
        for k in 0..=per_tx {
            tx.create_node(1 + k as u64, l).map_err(|e| e.to_string())?;
        }
        tx.commit().map_err(|e| e.to_string())?;
        for t in 0..txs {
            let mut tx = holder.begin_write();
            let rel = tx.get_or_create_rel_type(&format!("R{}", t)).map_err(|e| e.to_string())?;
            for k in 0..per_tx {
                tx.create_edge(0, rel, 1 + k as u32);
            }
            tx.commit().map_err(|e| format!("commit {}: {}", t, e))?;
            acked += 1;
        }
        Ok(())
    }));
    match res {
        Ok(Ok(())) => {}
        Ok(Err(e)) => err = Some(format!("stream: the holder's commit failed although every other open was refused: {}", e)),
        Err(p) => err = Some(format!("stream: the holder panicked: {}", p)),
    }
    stop.store(true, Ordering::SeqCst);
    for o in openers {
        let _ = o.join();
    }
    drop(child.stdin.take());
    let mut line = String::new();
    let _ = BufReader::new(child.stdout.take().unwrap()).read_line(&mut line);
    let _ = child.wait();
    let child_counts: Vec<u64> = line.split_whitespace().filter_map(|x| x.parse().ok()).collect();
    let (c_granted, c_refused) = (child_counts.first().copied().unwrap_or(0), child_counts.get(1).copied().unwrap_or(0));
    let total_refused = refused.load(Ordering::SeqCst) + c_refused;
    if err.is_none() && granted.load(Ordering::SeqCst) + c_granted > 0 {
        err = Some(format!("stream: {} open requests were GRANTED while the holder had the database open", granted.load(Ordering::SeqCst) + c_granted));
    }
    let _ = holder.close();
    if err.is_none() {
        match vh::catch(std::panic::AssertUnwindSafe(|| -> Result<usize, String> {
            let db = Db::open(&path).map_err(|e| e.to_string())?;
            let snap = db.snapshot();
            Ok(snap.neighbors(0, None).count())
        })) {
            Ok(Ok(n)) if n == acked * per_tx => {}
            Ok(Ok(n)) => err = Some(format!("stream: {} of {} acknowledged relationships are gone after close + reopen; besides the holder's commits there were only {} REFUSED open requests", acked * per_tx - n.min(acked * per_tx), acked * per_tx, total_refused)),
            Ok(Err(e)) => err = Some(format!("stream: the database does not reopen after {} acknowledged commits and {} REFUSED open requests: {}", acked, total_refused, e)),
            Err(p) => err = Some(format!("stream: reading after reopen panicked: {}", p)),
        }
    }
    (err.map_or(Ok(()), Err), total_refused)
}

/// child process of the stream: ask for a handle until stdin is closed; prints "granted refused"
fn hammer_main(path: &Path) {
    use std::io::Read;
    let stop = std::sync::Arc::new(std::sync::atomic::AtomicBool::new(false));
    let s2 = stop.clone();
    std::thread::spawn(move || {
        let mut b = [0u8; 1];
        let _ = std::io::stdin().read(&mut b); // returns at EOF
        s2.store(true, std::sync::atomic::Ordering::SeqCst);
    });
    let (mut g, mut r) = (0u64, 0u64);
    while !stop.load(std::sync::atomic::Ordering::SeqCst) {
        match Db::open(path) {
            Ok(_) => g += 1,
            Err(_) => r += 1,
        }
    }
    println!("{} {}", g, r);
}

struct Outcome {
    touched: Vec<String>,
    results: Vec<(usize, Res)>,
    open_at_end: Vec<bool>,
    max_open: usize,
    reopen: Result<BTreeSet<i64>, String>,
    expected: BTreeSet<i64>,
}

fn run_case(progs: &[Vec<Op>], sched: &[usize], with_child: bool) -> Outcome {
    let dir = tempfile::tempdir().unwrap();
    let path: PathBuf = dir.path().join("c10db");
    drop(Db::open(&path).expect("create database").close());
    let n = progs.len();
    let child_id = if with_child { Some(n - 1) } else { None };
    let mut slots: Vec<Option<Db>> = (0..n).map(|_| None).collect();
    let mut child = child_id.map(|_| ChildHandle::spawn(&path));
    let mut is_open = vec![false; n];
    let mut pc = vec![0usize; n];
    let mut results = vec![];
    let mut max_open = 0;
    let mut expected = BTreeSet::new();
    let mut touched: Vec<String> = vec![];
    for &t in sched {
        if t >= n || pc[t] >= progs[t].len() {
            continue;
        }
        let op = &progs[t][pc[t]];
        pc[t] += 1;
        // A live handle of somebody else is idle right now.  Simulate a log record it is in the middle of
        // appending (a frame header without its body at the end of the .wal) and look at the files around an
        // open / offline-tool request of ANOTHER handle: the request must be refused and must not touch them.
        let others_open = is_open.iter().enumerate().any(|(u, b)| *b && u != t);
        let probe = others_open && matches!(op, Op::Open | Op::Offline) && !is_open[t];
        let files = db_files(&path);
        let mut before = vec![];
        let mut wal_len = 0u64;
        if probe {
            wal_len = std::fs::metadata(&files[1]).map(|m| m.len()).unwrap_or(0);
            if let Ok(mut f) = std::fs::OpenOptions::new().append(true).open(&files[1]) {
                let _ = f.write_all(&[0x40, 0, 0, 0, 0xAB]);
            }
            before = files.iter().map(|p| fingerprint(p)).collect();
        }
        let r = if Some(t) == child_id { child.as_mut().unwrap().apply(op) } else { apply_local(&mut slots[t], &path, op) };
        if probe {
            let after: Vec<(u64, u64)> = files.iter().map(|p| fingerprint(p)).collect();
            if after != before {
                touched.push(format!("handle {}: {:?} (result {:?}) changed the files of the live handle: .ndb {:?} -> {:?}, .wal {:?} -> {:?}", t, op, r, before[0], after[0], before[1], after[1]));
            }
            // take the simulated partial record away again
            if let Ok(f) = std::fs::OpenOptions::new().write(true).open(&files[1]) {
                let _ = f.set_len(wal_len);
            }
        }
        match &r {
            Res::OpenOk => is_open[t] = true,
            Res::Closed => is_open[t] = false,
            Res::Wrote(Op::Commit(d)) => {
                expected.insert(*d);
            }
            Res::Offline => {
                if is_open.iter().any(|b| *b) {
                    max_open = max_open.max(2); // an offline writer next to an open handle counts as a second writer
                }
            }
            _ => {}
        }
        max_open = max_open.max(is_open.iter().filter(|b| **b).count());
        results.push((t, r));
    }
    let open_at_end = is_open.clone();
    // shut everything down, then look at the database with a fresh handle
    for s in slots.iter_mut() {
        if let Some(db) = s.take() {
            let _ = db.close();
        }
    }
    if let Some(mut c) = child.take() {
        let _ = c.apply(&Op::Close);
        c.quit();
    }
    let reopen = match vh::catch(std::panic::AssertUnwindSafe(|| -> Result<BTreeSet<i64>, String> {
        let db = Db::open(&path).map_err(|e| e.to_string())?;
        let snap = db.snapshot();
        let mut got = BTreeSet::new();
        for iid in snap.nodes() {
            let ext = snap.resolve_external(iid).ok_or_else(|| format!("node {} without external id", iid))? as i64;
            match snap.node_property(iid, "v") {
                Some(nervusdb::PropertyValue::Int(v)) if v == ext => {}
                other => return Err(format!("node {} (external {}) has property v = {:?}", iid, ext, other)),
            }
            if !got.insert(ext) {
                return Err(format!("external id {} twice", ext));
            }
        }
        Ok(got)
    })) {
        Ok(r) => r,
        Err(p) => Err(format!("panic: {}", p)),
    };
    Outcome { touched, results, open_at_end, max_open, reopen, expected }
}

fn gen_prog(r: &mut Rng, next_d: &mut i64) -> Vec<Op> {
    let len = 2 + r.below(7) as usize;
    let mut p = vec![];
    let mut open = false;
    for i in 0..len {
        let op = match r.below(10) {
            0..=1 => Op::Open,
            2..=5 => {
                *next_d += 1;
                Op::Commit(*next_d)
            }
            6 => if r.chance(1, 2) { Op::Compact } else { Op::Offline },
            7..=8 => Op::Close,
            _ => {
                if open { Op::Close } else { Op::Open }
            }
        };
        // mostly well-formed: start with open, do not operate on a closed handle too often
        let op = if i == 0 && r.chance(4, 5) {
            Op::Open
        } else if !open && op != Op::Open && op != Op::Offline && r.chance(2, 3) {
            Op::Open
        } else {
            op
        };
        match op {
            Op::Open => open = true,
            Op::Close => open = false,
            _ => {}
        }
        p.push(op);
    }
    p
}

fn main() {
    let argv: Vec<String> = std::env::args().collect();
    if argv.len() >= 3 && argv[1] == "--child" {
        child_main(Path::new(&argv[2]));
        return;
    }
    if argv.len() >= 3 && argv[1] == "--hammer" {
        hammer_main(Path::new(&argv[2]));
        return;
    }
    let a = args();
    quiet_panics();
    let mut r = Rng::new(a.seed);
    let mut cw = CaseWriter::new(&a.out, "Corr.C10", 150);
    let mut rep = Report::new(&a.out);
    let mut hist = BTreeMap::<String, u64>::new();
    let mut nontrivial = BTreeSet::<(Vec<Vec<Op>>, Vec<usize>)>::new();
    let mut fails = 0u64;

    let mut cases: Vec<(String, Vec<Vec<Op>>, Vec<usize>, bool)> = vec![];
    // corpus: the witness of the repaired defect (two handles, both open and commit, then reopen)
    let w = vec![vec![Op::Open, Op::Commit(1), Op::Close], vec![Op::Open, Op::Commit(2), Op::Close]];
    cases.push(("corpus:two-writers".into(), w.clone(), vec![0, 1, 0, 1, 0, 1], false));
    cases.push(("corpus:two-writers-child".into(), w.clone(), vec![0, 1, 0, 1, 0, 1], true));
    cases.push(("corpus:child-first".into(), w.clone(), vec![1, 0, 1, 0, 1, 0, 0], true));
    cases.push((
        "corpus:handover".into(),
        vec![vec![Op::Open, Op::Commit(1), Op::Compact, Op::Close, Op::Open, Op::Commit(3)], vec![Op::Open, Op::Open, Op::Commit(2), Op::Compact, Op::Close]],
        vec![0, 0, 1, 0, 0, 1, 1, 1, 0, 1, 0],
        true,
    ));
    cases.push((
        "corpus:vacuum-under-open-handle".into(),
        vec![vec![Op::Open, Op::Commit(1), Op::Close, Op::Commit(9)], vec![Op::Offline, Op::Offline]],
        vec![0, 1, 0, 0, 1, 0],
        false,
    ));
    cases.push((
        "corpus:vacuum-in-child-under-open-handle".into(),
        vec![vec![Op::Open, Op::Commit(1), Op::Offline, Op::Close], vec![Op::Offline, Op::Open, Op::Offline, Op::Close]],
        vec![0, 1, 0, 0, 1, 0, 1, 1],
        true,
    ));
    // all interleavings of the two-writer witness (20), in-process
    for s in hx_conc::interleavings(&[3, 3]) {
        cases.push(("exhaustive:2x3".into(), w.clone(), s, false));
    }
    while cases.len() < a.n {
        let n = 2 + r.below(2) as usize;
        let mut next_d = 0i64;
        let progs: Vec<Vec<Op>> = (0..n).map(|_| gen_prog(&mut r, &mut next_d)).collect();
        let mut sched: Vec<usize> = progs.iter().enumerate().flat_map(|(t, p)| std::iter::repeat(t).take(p.len())).collect();
        for i in (1..sched.len()).rev() {
            let j = r.below(i as u64 + 1) as usize;
            sched.swap(i, j);
        }
        if r.chance(1, 6) {
            let cut = r.below(sched.len() as u64 + 1) as usize;
            sched.truncate(cut); // a prefix: handles stay open at the end
        }
        let with_child = r.chance(1, 2);
        cases.push(("generated".into(), progs, sched, with_child));
    }

    let mut idx = 0usize;
    for (tag, progs, sched, with_child) in cases {
        let o = run_case(&progs, &sched, with_child);
        *hist.entry(format!("kind:{}", tag.split(':').next().unwrap())).or_insert(0) += 1;
        *hist.entry(format!("handles:{}{}", progs.len(), if with_child { "(1 in a child process)" } else { "" })).or_insert(0) += 1;
        let refused = o.results.iter().filter(|(_, r)| *r == Res::OpenRefused).count();
        let opens = o.results.iter().filter(|(_, r)| *r == Res::OpenOk).count();
        if refused > 0 {
            *hist.entry("with_refused_open".into()).or_insert(0) += 1;
        }
        if opens >= 2 {
            *hist.entry("with_handover".into()).or_insert(0) += 1;
        }
        for (_, r) in &o.results {
            let k = match r {
                Res::OpenOk => "r:open_ok",
                Res::OpenRefused => "r:open_refused",
                Res::AlreadyOpen => "r:already_open",
                Res::Wrote(_) => "r:wrote",
                Res::Closed => "r:closed",
                Res::NoHandle => "r:no_handle",
                Res::Offline => "r:offline_ran",
                Res::OfflineRefused => "r:offline_refused",
                Res::Unexpected(_) => "r:unexpected",
            };
            *hist.entry(k.into()).or_insert(0) += 1;
        }
        if refused > 0 || opens >= 2 {
            nontrivial.insert((progs.clone(), sched.clone()));
        }
        let input = json!({"tag": tag, "child_handle": if with_child { Some(progs.len() - 1) } else { None },
            "progs": progs.iter().map(|p| p.iter().map(|o| format!("{:?}", o)).collect::<Vec<_>>()).collect::<Vec<_>>(),
            "schedule": sched, "results": o.results.iter().map(|(t, r)| format!("{}:{:?}", t, r)).collect::<Vec<_>>(),
            "reopen": format!("{:?}", o.reopen), "expected_nodes": o.expected});
        if idx < 4 {
            rep.case(idx, input.clone());
        }
        // direct property
        for m in &o.touched {
            fails += 1;
            *hist.entry("refused_request_touched_files".into()).or_insert(0) += 1;
            rep.fail(idx, None, m, input.clone());
        }
        if o.max_open > 1 {
            fails += 1;
            rep.fail(idx, None, &format!("{} handles were open on the same database at once", o.max_open), input.clone());
        }
        if let Some((t, Res::Unexpected(m))) = o.results.iter().find(|(_, r)| matches!(r, Res::Unexpected(_))) {
            fails += 1;
            rep.fail(idx, None, &format!("handle {}: {}", t, m), input.clone());
        }
        match &o.reopen {
            Ok(got) if *got == o.expected => {}
            Ok(got) => {
                fails += 1;
                rep.fail(idx, None, &format!("after closing all handles the database holds nodes {:?}, acknowledged commits were {:?}", got, o.expected), input.clone());
            }
            Err(e) => {
                fails += 1;
                rep.fail(idx, None, &format!("after closing all handles the database does not reopen / read: {}", e), input.clone());
            }
        }
        cw.push(format!(
            "{{| progs := {}; sched := {}; impl_results := {}; impl_open := {} |}}",
            coq_list(&progs, |p| coq_list(p, |o| o.coq())),
            coq_list(&sched, |t| format!("{}%nat", t)),
            coq_list(&o.results, |(t, r)| format!("({}%nat, {})", t, r.coq())),
            coq_list(&o.open_at_end, |b| coq_bool(*b).to_string())
        ));
        idx += 1;
    }
    cw.flush();
    // ---- stream: a busy holder against open() requests from threads and a child process
    let (txs, per) = if a.tier == "thorough" { (600, 200) } else { (150, 100) };
    let rounds = if a.tier == "thorough" { 4 } else { 2 };
    let mut stream_refused = 0u64;
    for round in 0..rounds {
        let (res, refused) = hammer_stream(txs, per);
        stream_refused += refused;
        *hist.entry(format!("stream:{}", if res.is_ok() { "ok" } else { "FAILED" })).or_insert(0) += 1;
        if let Err(e) = res {
            fails += 1;
            rep.fail(idx + round, None, &e, json!({"phase": "stream", "transactions": txs, "relationships_per_transaction": per}));
        }
    }
    rep.stats(json!({
        "evaluations": idx,
        "distinct_nontrivial": nontrivial.len(),
        "rule": "2-3 handles on one path (half of the generated cases with the last handle in a child process), 2-8 operations each (open/commit/compact/close/offline vacuum, mostly well-formed, some on closed handles, double opens), random interleavings incl. prefixes; corpus witness and all 20 interleavings of two open-commit-close writers; non-trivial = an open was refused or the database changed hands, distinct by (programs, schedule)",
        "histogram": hist,
        "direct_failures": fails,
        "stream": {"rounds": rounds, "transactions": txs, "relationships_per_transaction": per, "refused_open_requests": stream_refused},
        "case_files": cw.files.iter().map(|p| p.to_string_lossy().to_string()).collect::<Vec<_>>(),
    }));
    rep.finish();
}
