//! C35 — lock-order observation and watchdog stress.
//!
//! Worker threads run mixed workloads through the public API (Db: writers incl. new labels,
//! properties on indexed labels, relationships, vectors; readers: snapshot, nodes, properties,
//! neighbours, index lookups, statistics; compaction, checkpoint, index creation, vector search;
//! C API auto-commit writes, queries and explicit transactions on a second database).  With the
//! lock-event observer installed every acquisition reports (lock, locks held by the thread).
//! Output: the set of distinct acquisition patterns, a rank table computed for it and the gate
//! lock, as ONE Coq case (`Corr/C35.v`: the certificate check).  Direct search: a watchdog
//! (no progress within the timeout = failure), re-entrant acquisitions and lock-order cycles.
use hx_conc::*;
use nervusdb::{Db, GraphSnapshot, PropertyValue};
use serde_json::json;
use std::collections::{BTreeMap, BTreeSet};
use std::sync::atomic::{AtomicBool, AtomicU64, Ordering};
use std::sync::{mpsc, Arc};
use std::time::Duration;
use vh::*;

const LOCKS: &[&str] = &[
    "write_lock", "wal", "label_interner", "published_labels", "index_catalog", "idmap", "pager", "vector_index",
    "published_node_labels", "published_runs", "published_segments", "stats_cache", "publish_lock", "db_file_lock",
];

/// event name -> (lock name, Coq mode): `<lock>.r` shared, `<lock>.w` exclusive, `<lock>.try` non-blocking, bare = Mutex
fn split(ev: &str) -> (&str, &'static str) {
    if let Some(b) = ev.strip_suffix(".r") {
        (b, "MR")
    } else if let Some(b) = ev.strip_suffix(".w") {
        (b, "MW")
    } else if let Some(b) = ev.strip_suffix(".try") {
        (b, "MTry")
    } else {
        (ev, "MW")
    }
}

fn writer(db: &Db, id: u64, iters: u64, seed: u64, ext: &AtomicU64) {
    let mut r = Rng::new(seed);
    for i in 0..iters {
        set_op("Db::begin_write");
        let mut tx = db.begin_write();
        set_op("WriteTxn::{get_or_create_label,create_node,set_node_property,create_edge,...}");
        let lname = if r.chance(1, 6) { format!("L{}_{}", id, i) } else { "N".to_string() };
        let l = tx.get_or_create_label(&lname).unwrap();
        let rel = tx.get_or_create_rel_type("R").unwrap();
        let mut mine = vec![];
        for _ in 0..1 + r.below(2) {
            let e = ext.fetch_add(1, Ordering::SeqCst);
            if let Ok(n) = tx.create_node(e, l) {
                mine.push(n);
            }
        }
        for n in &mine {
            tx.set_node_property(*n, "p".into(), PropertyValue::Int(r.range(0, 5))).unwrap();
            if r.chance(1, 3) {
                set_op("WriteTxn::set_vector");
                let _ = tx.set_vector(*n, vec![r.range(0, 9) as f32, r.range(0, 9) as f32, 1.0, 0.5]);
            }
        }
        if let Some(first) = mine.first() {
            // touch an older node too (index update path for existing nodes) and create relationships
            if *first > 0 {
                let old = r.below(*first as u64) as u32;
                tx.set_node_property(old, "p".into(), PropertyValue::Int(r.range(0, 5))).unwrap();
                if r.chance(1, 4) {
                    tx.remove_node_property(old, "q").unwrap();
                }
                tx.create_edge(old, rel, *first);
            }
        }
        if r.chance(1, 10) {
            set_op("WriteTxn::drop (abandon)");
            drop(tx); // abandoned transaction
        } else {
            set_op("WriteTxn::commit");
            let _ = tx.commit();
        }
    }
}

fn reader(db: &Db, iters: u64, seed: u64) {
    let mut r = Rng::new(seed);
    for _ in 0..iters {
        set_op("Db::snapshot");
        let snap = db.snapshot();
        set_op("GraphSnapshot reads (nodes, node_property, node_properties, resolve_node_labels, neighbors, edge_property, incoming_neighbors)");
        let nodes: Vec<u32> = snap.nodes().take(40).collect();
        for n in &nodes {
            let _ = snap.node_property(*n, "p");
            let _ = snap.node_properties(*n);
            let _ = snap.resolve_node_labels(*n);
            for e in snap.neighbors(*n, None).take(5) {
                let _ = snap.edge_property(e, "w");
            }
            let _ = snap.incoming_neighbors(*n, None).take(3).count();
        }
        set_op("GraphSnapshot::lookup_index");
        let _ = snap.lookup_index("N", "p", &PropertyValue::Int(r.range(0, 5)));
        set_op("GraphSnapshot::{node_count,edge_count} (statistics cache)");
        let _ = snap.node_count(None);
        let _ = snap.edge_count(None);
        let _ = snap.resolve_label_id("N");
        // a second snapshot while the first is alive, and a read transaction
        set_op("Db::snapshot");
        let snap2 = db.snapshot();
        set_op("GraphSnapshot::{node_count,edge_count} (statistics cache)");
        let _ = snap2.node_count(None);
        set_op("Db::begin_read");
        let _ = db.begin_read();
        std::thread::sleep(Duration::from_millis(1)); // stay alive across the compactions of the maintenance threads
    }
}

fn maintenance(db: &Db, iters: u64, seed: u64) {
    let mut r = Rng::new(seed);
    for i in 0..iters {
        match r.below(4) {
            0 => {
                set_op("Db::compact");
                let _ = db.compact();
            }
            1 => {
                set_op("Db::checkpoint");
                let _ = db.checkpoint();
            }
            2 => {
                set_op("Db::create_index");
                let _ = db.create_index("N", if i % 2 == 0 { "p" } else { "q" });
            }
            _ => {
                set_op("Db::search_vector");
                let _ = db.search_vector(&[1.0, 2.0, 1.0, 0.5], 3);
            }
        }
        std::thread::sleep(Duration::from_millis(1));
    }
}

fn capi_worker(db: &CDb, id: u64, iters: u64) {
    for i in 0..iters {
        set_op("ndb_execute_write");
        let _ = db.exec(&format!("CREATE (:M {{k: {}, t: {}}})", i, id));
        let _ = db.exec("MATCH (n:M) WHERE n.k = 0 SET n.c = 1");
        set_op("ndb_query");
        let _ = db.query("MATCH (n:M) RETURN count(n) AS c");
        if i % 5 == 0 {
            // explicit transaction through the C API
            set_op("ndb_begin_write / ndb_txn_query / ndb_txn_commit");
            let mut txn: *mut ndb_capi::ndb_txn_t = std::ptr::null_mut();
            if ndb_capi::ndb_begin_write(db.0, &mut txn) == ndb_capi::NDB_OK {
                let q = std::ffi::CString::new("CREATE (:M {k: -1})").unwrap();
                let _ = ndb_capi::ndb_txn_query(txn, q.as_ptr(), std::ptr::null());
                let _ = ndb_capi::ndb_txn_commit(txn);
            }
        }
    }
}

/// open / close / refused open of databases, offline tools (database file lock)
fn handles_worker(dir: &std::path::Path, main_db: &std::path::Path, id: u64, iters: u64) {
    for i in 0..iters {
        let p = dir.join(format!("side{}_{}", id, i % 3));
        set_op("Db::open");
        if let Ok(db) = Db::open(&p) {
            set_op("Db::open (second handle, refused)");
            let _ = Db::open(&p).is_err();
            let _ = Db::open(main_db).is_err();
            set_op("Db::begin_write");
            let mut tx = db.begin_write();
            set_op("WriteTxn::{get_or_create_label,create_node,set_node_property,create_edge,...}");
            if let Ok(l) = tx.get_or_create_label("S") {
                let _ = tx.create_node(1000 + i, l);
            }
            set_op("WriteTxn::commit");
            let _ = tx.commit();
            set_op("nervusdb::vacuum (refused while open)");
            let _ = nervusdb::vacuum(&p);
            set_op("Db::close");
            let _ = db.close();
            set_op("nervusdb::vacuum");
            let _ = nervusdb::vacuum(&p);
        }
        if i % 4 == 0 {
            set_op("nervusdb::bulkload");
            let _ = nervusdb::bulkload(dir.join(format!("bulk{}_{}", id, i)), vec![], vec![]);
        }
    }
}

fn main() {
    let a = args();
    quiet_panics();
    let mut rep = Report::new(&a.out);
    let mut cw = CaseWriter::new(&a.out, "Corr.C35", 10);
    let mut hist = BTreeMap::<String, u64>::new();
    let mut fails = 0u64;

    let log = Arc::new(LockLog::default());
    log.install();

    let iters = a.n as u64;
    let timeout = Duration::from_secs(if a.tier == "thorough" { 600 } else { 150 });
    let rounds = if a.tier == "thorough" { 4 } else { 2 };
    let mut stuck = false;
    for round in 0..rounds {
        let dir = tempfile::tempdir().unwrap();
        let db = Arc::new(Db::open(dir.path().join("c35")).expect("open"));
        let cdb = Arc::new(CDb::open(&dir.path().join("c35capi")).expect("open capi"));
        let ext = Arc::new(AtomicU64::new(1));
        let (txc, rxc) = mpsc::channel::<&'static str>();
        let seed = a.seed.wrapping_add(round as u64 * 1000);
        let mut expected = 0;
        let mut spawn = |name: &'static str, f: Box<dyn FnOnce() + Send>| {
            let txc = txc.clone();
            expected += 1;
            std::thread::Builder::new().stack_size(16 << 20).spawn(move || {
                let r = std::panic::catch_unwind(std::panic::AssertUnwindSafe(f));
                let _ = txc.send(if r.is_ok() { name } else { "PANIC" });
            }).unwrap();
        };
        for w in 0..2u64 {
            let (db, ext) = (db.clone(), ext.clone());
            spawn("writer", Box::new(move || writer(&db, w, iters, seed + w, &ext)));
        }
        for k in 0..2u64 {
            let db = db.clone();
            spawn("reader", Box::new(move || reader(&db, iters, seed + 10 + k)));
        }
        for k in 0..2u64 {
            let db = db.clone();
            spawn("maintenance", Box::new(move || maintenance(&db, iters, seed + 20 + k)));
        }
        for k in 0..2u64 {
            let cdb = cdb.clone();
            spawn("capi", Box::new(move || capi_worker(&cdb, k, iters / 2 + 1)));
        }
        {
            let d = dir.path().to_path_buf();
            let m = dir.path().join("c35");
            spawn("handles", Box::new(move || handles_worker(&d, &m, 0, iters / 10 + 2)));
        }
        let deadline = std::time::Instant::now() + timeout;
        let mut finished = vec![];
        while finished.len() < expected {
            let left = deadline.saturating_duration_since(std::time::Instant::now());
            match rxc.recv_timeout(left) {
                Ok(name) => {
                    *hist.entry(format!("finished:{}", name)).or_insert(0) += 1;
                    if name == "PANIC" {
                        fails += 1;
                        rep.fail(round, None, "a worker thread panicked during the concurrent workload", json!({"round": round, "seed": seed}));
                    }
                    finished.push(name);
                }
                Err(_) => {
                    stuck = true;
                    fails += 1;
                    rep.fail(round, None, &format!("watchdog: only {} of {} workers finished within {:?} (threads waiting on each other?)", finished.len(), expected, timeout),
                        json!({"round": round, "seed": seed, "finished": finished, "iterations": iters}));
                    break;
                }
            }
        }
        if stuck {
            break;
        }
        // the handles are dropped here; all workers are done
    }

    // ---- observed patterns -> ids with modes, rank table
    let patterns: Vec<Pattern> = log.patterns.lock().unwrap().iter().cloned().collect();
    let mut names: Vec<&str> = LOCKS.to_vec();
    for (h, l) in &patterns {
        for x in h.iter().chain(std::iter::once(l)) {
            if !names.contains(&split(x).0) {
                names.push(split(x).0);
            }
        }
    }
    let id = |x: &str| names.iter().position(|n| *n == split(x).0).unwrap();
    let gate = id("write_lock");
    // (held: (lock, mode)*, requested: (lock, mode))
    let pats: Vec<(Vec<(usize, &str)>, (usize, &str))> =
        patterns.iter().map(|(h, l)| (h.iter().map(|x| (id(x), split(x).1)).collect(), (id(l), split(l).1))).collect();
    let holds = |h: &Vec<(usize, &str)>, l: usize| h.iter().any(|(x, _)| *x == l);
    let leaf = |l: usize, m: &str| {
        pats.iter().all(|(h, _)| !holds(h, l) || holds(h, gate))
            && (m != "MR" || pats.iter().all(|(h, (l2, m2))| !(*l2 == l && *m2 == "MW") || holds(h, gate)))
    };
    let mut edges: BTreeSet<(usize, usize)> = BTreeSet::new();
    for (i, (h, (l, m))) in pats.iter().enumerate() {
        if *m == "MTry" {
            *hist.entry("pattern:try (never waits)".into()).or_insert(0) += 1;
            continue;
        }
        if holds(h, *l) {
            fails += 1;
            rep.fail(i, None, &format!("re-entrant acquisition: {} requested while the thread already holds it (held: {:?}); a second read of a std RwLock deadlocks as soon as a writer waits, a second lock of a Mutex always", patterns[i].1, patterns[i].0),
                json!({"pattern": {"held": patterns[i].0, "lock": patterns[i].1}}));
        }
        if holds(h, gate) && leaf(*l, m) {
            *hist.entry("pattern:under_gate_exempt".into()).or_insert(0) += 1;
            continue;
        }
        if !h.is_empty() {
            *hist.entry("pattern:ranked".into()).or_insert(0) += 1;
        } else {
            *hist.entry("pattern:nothing_held".into()).or_insert(0) += 1;
        }
        for (x, _) in h {
            edges.insert((*x, *l));
        }
    }
    // longest-path ranks by repeated relaxation; a cycle shows up as a rank exceeding the number of locks
    let nl = names.len();
    let mut rank = vec![0usize; nl];
    let mut cyclic = false;
    for _ in 0..=nl {
        let mut changed = false;
        for (x, l) in &edges {
            if rank[*l] < rank[*x] + 1 {
                rank[*l] = rank[*x] + 1;
                changed = true;
            }
        }
        if !changed {
            break;
        }
        if rank.iter().any(|r| *r > nl) {
            cyclic = true;
            break;
        }
    }
    if cyclic {
        fails += 1;
        let bad: Vec<String> = edges.iter().filter(|(x, l)| rank[*x] > nl / 2 && rank[*l] > nl / 2).map(|(x, l)| format!("{} -> {}", names[*x], names[*l])).collect();
        rep.fail(0, None, "the observed lock-order graph has a cycle outside the writer gate: two threads can wait on each other",
            json!({"edges_on_or_after_cycle": bad}));
    }
    let events = log.events.load(Ordering::Relaxed);
    let by_op = log.by_op.lock().unwrap().clone();
    let coverage: BTreeMap<String, Vec<String>> = by_op
        .iter()
        .map(|(op, ps)| (op.to_string(), ps.iter().map(|(h, l)| format!("{:?} -> {}", h, l)).collect()))
        .collect();
    rep.case(0, json!({"locks": names, "gate": "write_lock",
        "patterns": patterns.iter().map(|(h, l)| json!({"held": h, "lock": l})).collect::<Vec<_>>(),
        "order_edges": edges.iter().map(|(x, l)| format!("{} -> {}", names[*x], names[*l])).collect::<Vec<_>>(),
        "rank": names.iter().enumerate().map(|(i, n)| format!("{}={}", n, rank[i])).collect::<Vec<_>>(),
        "patterns_by_public_operation": coverage,
        "threads_per_round": "2 writers + 2 readers + 2 maintenance (compact/checkpoint/create_index/search_vector) on one Db; 2 C API threads on a second Db; 1 handles thread (open/close/refused open/vacuum/bulkload on side databases)"}));
    cw.push(format!(
        "{{| pats := {}; ranks := {}; gate := {}%nat |}}",
        coq_list(&pats, |(h, (l, m))| format!("({}, ({}%nat, {}))", coq_list(h, |(x, mx)| format!("({}%nat, {})", x, mx)), l, m)),
        coq_list(&(0..nl).collect::<Vec<_>>(), |i| format!("({}%nat, {}%nat)", i, rank[*i].min(1000))),
        gate
    ));
    cw.flush();
    let _ = AtomicBool::new(false);
    rep.stats(json!({
        "evaluations": events,
        "corr_cases": 1,
        "distinct_nontrivial": pats.iter().filter(|(h, _)| !h.is_empty()).count(),
        "operations_covered": by_op.len(),
        "rule": "lock-acquisition events (with read/write/try modes) of 9 worker threads per round (1 handles thread: open/close/refused open/vacuum/bulkload; 2 writers incl. new labels / indexed properties / vectors / abandoned transactions, 2 readers incl. index lookups, statistics and nested snapshots, 2 maintenance threads: compact / checkpoint / create_index / search_vector, 2 C API threads on a second database incl. explicit transactions); evaluations = events, non-trivial = distinct patterns with a non-empty held set",
        "histogram": hist,
        "direct_failures": fails,
        "distinct_patterns": pats.len(),
        "order_edges": edges.len(),
        "watchdog_stuck": stuck,
        "case_files": cw.files.iter().map(|p| p.to_string_lossy().to_string()).collect::<Vec<_>>(),
    }));
    rep.finish();
    if stuck {
        std::process::exit(0); // worker threads are blocked; do not wait for them
    }
}
