//! C35 — lock-order observation and watchdog stress.
//!
//! Worker threads run mixed workloads through the public API (Db: writers incl. new labels,
//! properties on indexed labels, relationships, vectors; readers: snapshot, nodes, properties,
//! neighbours, index lookups, statistics; compaction, checkpoint, index creation, vector search;
//! C API auto-commit writes, queries and explicit transactions on a second database).  With the
//! lock-event observer installed every acquisition reports (lock, locks held by the thread).
//! Output: the set of distinct acquisition patterns, a rank table computed for it and the gate
//! lock, as ONE Coq case (`Corr/C35.v`: the certificate check).  Direct search: a watchdog
//! (no progress within the timeout = failure), re-entrant acquisitions and lock-order cycles.
use hx_conc::*;
use nervusdb::{Db, GraphSnapshot, PropertyValue};
use serde_json::json;
use std::collections::{BTreeMap, BTreeSet};
use std::sync::atomic::{AtomicBool, AtomicU64, Ordering};
use std::sync::{mpsc, Arc};
use std::time::Duration;
use vh::*;

const LOCKS: &[&str] = &[
    "write_lock", "wal", "label_interner", "published_labels", "index_catalog", "idmap", "pager", "vector_index",
    "published_node_labels", "published_runs", "published_segments", "stats_cache",
];

fn writer(db: &Db, id: u64, iters: u64, seed: u64, ext: &AtomicU64) {
    let mut r = Rng::new(seed);
    for i in 0..iters {
        let mut tx = db.begin_write();
        let lname = if r.chance(1, 6) { format!("L{}_{}", id, i) } else { "N".to_string() };
        let l = tx.get_or_create_label(&lname).unwrap();
        let rel = tx.get_or_create_rel_type("R").unwrap();
        let mut mine = vec![];
        for _ in 0..1 + r.below(2) {
            let e = ext.fetch_add(1, Ordering::SeqCst);
            if let Ok(n) = tx.create_node(e, l) {
                mine.push(n);
            }
        }
        for n in &mine {
            tx.set_node_property(*n, "p".into(), PropertyValue::Int(r.range(0, 5))).unwrap();
            if r.chance(1, 3) {
                let _ = tx.set_vector(*n, vec![r.range(0, 9) as f32, r.range(0, 9) as f32, 1.0, 0.5]);
            }
        }
        if let Some(first) = mine.first() {
            // touch an older node too (index update path for existing nodes) and create relationships
            if *first > 0 {
                let old = r.below(*first as u64) as u32;
                tx.set_node_property(old, "p".into(), PropertyValue::Int(r.range(0, 5))).unwrap();
                if r.chance(1, 4) {
                    tx.remove_node_property(old, "q").unwrap();
                }
                tx.create_edge(old, rel, *first);
            }
        }
        if r.chance(1, 10) {
            drop(tx); // abandoned transaction
        } else {
            let _ = tx.commit();
        }
    }
}

fn reader(db: &Db, iters: u64, seed: u64) {
    let mut r = Rng::new(seed);
    for _ in 0..iters {
        let snap = db.snapshot();
        let nodes: Vec<u32> = snap.nodes().take(40).collect();
        for n in &nodes {
            let _ = snap.node_property(*n, "p");
            let _ = snap.node_properties(*n);
            let _ = snap.resolve_node_labels(*n);
            for e in snap.neighbors(*n, None).take(5) {
                let _ = snap.edge_property(e, "w");
            }
            let _ = snap.incoming_neighbors(*n, None).take(3).count();
        }
        let _ = snap.lookup_index("N", "p", &PropertyValue::Int(r.range(0, 5)));
        let _ = snap.node_count(None);
        let _ = snap.edge_count(None);
        let _ = snap.resolve_label_id("N");
        // a second snapshot while the first is alive, and a read transaction
        let snap2 = db.snapshot();
        let _ = snap2.node_count(None);
        let _ = db.begin_read();
    }
}

fn maintenance(db: &Db, iters: u64, seed: u64) {
    let mut r = Rng::new(seed);
    for i in 0..iters {
        match r.below(4) {
            0 => {
                let _ = db.compact();
            }
            1 => {
                let _ = db.checkpoint();
            }
            2 => {
                let _ = db.create_index("N", if i % 2 == 0 { "p" } else { "q" });
            }
            _ => {
                let _ = db.search_vector(&[1.0, 2.0, 1.0, 0.5], 3);
            }
        }
        std::thread::sleep(Duration::from_millis(1));
    }
}

fn capi_worker(db: &CDb, id: u64, iters: u64) {
    for i in 0..iters {
        let _ = db.exec(&format!("CREATE (:M {{k: {}, t: {}}})", i, id));
        let _ = db.exec("MATCH (n:M) WHERE n.k = 0 SET n.c = 1");
        let _ = db.query("MATCH (n:M) RETURN count(n) AS c");
        if i % 5 == 0 {
            // explicit transaction through the C API
            let mut txn: *mut ndb_capi::ndb_txn_t = std::ptr::null_mut();
            if ndb_capi::ndb_begin_write(db.0, &mut txn) == ndb_capi::NDB_OK {
                let q = std::ffi::CString::new("CREATE (:M {k: -1})").unwrap();
                let _ = ndb_capi::ndb_txn_query(txn, q.as_ptr(), std::ptr::null());
                let _ = ndb_capi::ndb_txn_commit(txn);
            }
        }
    }
}

fn main() {
    let a = args();
    quiet_panics();
    let mut rep = Report::new(&a.out);
    let mut cw = CaseWriter::new(&a.out, "Corr.C35", 10);
    let mut hist = BTreeMap::<String, u64>::new();
    let mut fails = 0u64;

    let log = Arc::new(LockLog::default());
    log.install();

    let iters = a.n as u64;
    let timeout = Duration::from_secs(if a.tier == "thorough" { 600 } else { 150 });
    let rounds = if a.tier == "thorough" { 4 } else { 2 };
    let mut stuck = false;
    for round in 0..rounds {
        let dir = tempfile::tempdir().unwrap();
        let db = Arc::new(Db::open(dir.path().join("c35")).expect("open"));
        let cdb = Arc::new(CDb::open(&dir.path().join("c35capi")).expect("open capi"));
        let ext = Arc::new(AtomicU64::new(1));
        let (txc, rxc) = mpsc::channel::<&'static str>();
        let seed = a.seed.wrapping_add(round as u64 * 1000);
        let mut expected = 0;
        let mut spawn = |name: &'static str, f: Box<dyn FnOnce() + Send>| {
            let txc = txc.clone();
            expected += 1;
            std::thread::Builder::new().stack_size(16 << 20).spawn(move || {
                let r = std::panic::catch_unwind(std::panic::AssertUnwindSafe(f));
                let _ = txc.send(if r.is_ok() { name } else { "PANIC" });
            }).unwrap();
        };
        for w in 0..2u64 {
            let (db, ext) = (db.clone(), ext.clone());
            spawn("writer", Box::new(move || writer(&db, w, iters, seed + w, &ext)));
        }
        for k in 0..2u64 {
            let db = db.clone();
            spawn("reader", Box::new(move || reader(&db, iters, seed + 10 + k)));
        }
        for k in 0..2u64 {
            let db = db.clone();
            spawn("maintenance", Box::new(move || maintenance(&db, iters, seed + 20 + k)));
        }
        for k in 0..2u64 {
            let cdb = cdb.clone();
            spawn("capi", Box::new(move || capi_worker(&cdb, k, iters / 2 + 1)));
        }
        let deadline = std::time::Instant::now() + timeout;
        let mut finished = vec![];
        while finished.len() < expected {
            let left = deadline.saturating_duration_since(std::time::Instant::now());
            match rxc.recv_timeout(left) {
                Ok(name) => {
                    *hist.entry(format!("finished:{}", name)).or_insert(0) += 1;
                    if name == "PANIC" {
                        fails += 1;
                        rep.fail(round, None, "a worker thread panicked during the concurrent workload", json!({"round": round, "seed": seed}));
                    }
                    finished.push(name);
                }
                Err(_) => {
                    stuck = true;
                    fails += 1;
                    rep.fail(round, None, &format!("watchdog: only {} of {} workers finished within {:?} (threads waiting on each other?)", finished.len(), expected, timeout),
                        json!({"round": round, "seed": seed, "finished": finished, "iterations": iters}));
                    break;
                }
            }
        }
        if stuck {
            break;
        }
        // the handles are dropped here; all workers are done
    }

    // ---- observed patterns -> ids, rank table
    let patterns: Vec<(Vec<&'static str>, &'static str)> = log.patterns.lock().unwrap().iter().cloned().collect();
    let mut names: Vec<&'static str> = LOCKS.to_vec();
    for (h, l) in &patterns {
        for x in h.iter().chain(std::iter::once(l)) {
            if !names.contains(x) {
                names.push(x);
            }
        }
    }
    let id = |x: &str| names.iter().position(|n| *n == x).unwrap();
    let gate = id("write_lock");
    let pats: Vec<(Vec<usize>, usize)> = patterns.iter().map(|(h, l)| (h.iter().map(|x| id(x)).collect(), id(l))).collect();
    let leaf = |l: usize| pats.iter().all(|(h, _)| !h.contains(&l) || h.contains(&gate));
    let mut edges: BTreeSet<(usize, usize)> = BTreeSet::new();
    for (i, (h, l)) in pats.iter().enumerate() {
        if h.contains(l) {
            fails += 1;
            rep.fail(i, None, &format!("re-entrant acquisition: {} requested while already held (held: {:?}); with a waiting writer a second read of a std RwLock deadlocks", patterns[i].1, patterns[i].0),
                json!({"pattern": {"held": patterns[i].0, "lock": patterns[i].1}}));
        }
        if h.contains(&gate) && leaf(*l) {
            *hist.entry("pattern:under_gate_exempt".into()).or_insert(0) += 1;
            continue;
        }
        if !h.is_empty() {
            *hist.entry("pattern:ranked".into()).or_insert(0) += 1;
        } else {
            *hist.entry("pattern:nothing_held".into()).or_insert(0) += 1;
        }
        for x in h {
            edges.insert((*x, *l));
        }
    }
    // longest-path ranks by repeated relaxation; a cycle shows up as a rank exceeding the number of locks
    let nl = names.len();
    let mut rank = vec![0usize; nl];
    let mut cyclic = false;
    for _ in 0..=nl {
        let mut changed = false;
        for (x, l) in &edges {
            if rank[*l] < rank[*x] + 1 {
                rank[*l] = rank[*x] + 1;
                changed = true;
            }
        }
        if !changed {
            break;
        }
        if rank.iter().any(|r| *r > nl) {
            cyclic = true;
            break;
        }
    }
    if cyclic {
        fails += 1;
        let bad: Vec<String> = edges.iter().filter(|(x, l)| rank[*x] > nl / 2 && rank[*l] > nl / 2).map(|(x, l)| format!("{} -> {}", names[*x], names[*l])).collect();
        rep.fail(0, None, "the observed lock-order graph has a cycle outside the writer gate: two threads can wait on each other",
            json!({"edges_on_or_after_cycle": bad}));
    }
    let events = log.events.load(Ordering::Relaxed);
    rep.case(0, json!({"locks": names, "gate": "write_lock",
        "patterns": patterns.iter().map(|(h, l)| json!({"held": h, "lock": l})).collect::<Vec<_>>(),
        "order_edges": edges.iter().map(|(x, l)| format!("{} -> {}", names[*x], names[*l])).collect::<Vec<_>>(),
        "rank": names.iter().enumerate().map(|(i, n)| format!("{}={}", n, rank[i])).collect::<Vec<_>>()}));
    cw.push(format!(
        "{{| pats := {}; ranks := {}; gate := {}%nat |}}",
        coq_list(&pats, |(h, l)| format!("({}, {}%nat)", coq_list(h, |x| format!("{}%nat", x)), l)),
        coq_list(&(0..nl).collect::<Vec<_>>(), |i| format!("({}%nat, {}%nat)", i, rank[*i].min(1000))),
        gate
    ));
    cw.flush();
    let _ = AtomicBool::new(false);
    rep.stats(json!({
        "evaluations": events,
        "corr_cases": 1,
        "distinct_nontrivial": pats.iter().filter(|(h, _)| !h.is_empty()).count(),
        "rule": "lock-acquisition events of 8 worker threads per round (2 writers incl. new labels / indexed properties / vectors / abandoned transactions, 2 readers incl. index lookups, statistics and nested snapshots, 2 maintenance threads: compact / checkpoint / create_index / search_vector, 2 C API threads on a second database incl. explicit transactions); evaluations = events, non-trivial = distinct patterns with a non-empty held set",
        "histogram": hist,
        "direct_failures": fails,
        "distinct_patterns": pats.len(),
        "order_edges": edges.len(),
        "watchdog_stuck": stuck,
        "case_files": cw.files.iter().map(|p| p.to_string_lossy().to_string()).collect::<Vec<_>>(),
    }));
    rep.finish();
    if stuck {
        std::process::exit(0); // worker threads are blocked; do not wait for them
    }
}
