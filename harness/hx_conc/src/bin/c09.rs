//! C09 — concurrent auto-commit writes through the C API (ndb_execute_write).
//!
//! * calibration: one statement on one thread, stepping through the schedule points;
//!   the observed order of its events is the program order the model must have;
//! * driven schedules: explicit thread-id lists executed with the baton scheduler
//!   (corpus witness first, all interleavings of 2 threads x 1 statement, then
//!   generated ones); every case is written out for the Coq model (`Corr/C09.v`);
//! * direct search: (a) per driven case, final value = the committed statements applied
//!   one at a time in commit order; (b) free-running stress, 8 threads x N increments,
//!   final counter = number of successful increments.
use hx_conc::*;
use serde_json::json;
use std::collections::{BTreeMap, BTreeSet};
use std::sync::Arc;
use vh::*;

#[derive(Clone, Copy, PartialEq, Eq, Debug)]
enum Kind {
    Snap,
    Lock,
    Log,
    Publish,
    Unlock,
}
impl Kind {
    fn coq(self) -> &'static str {
        match self {
            Kind::Snap => "ESnap",
            Kind::Lock => "ELock",
            Kind::Log => "ELog",
            Kind::Publish => "EPublish",
            Kind::Unlock => "EUnlock",
        }
    }
}
fn kind_of_point(p: &str) -> Option<Kind> {
    match p {
        "capi.write.snapshot" | "capi.txn.snapshot" => Some(Kind::Snap),
        "capi.write.locked" | "capi.txn.locked" => Some(Kind::Lock),
        "commit.logged" => Some(Kind::Log),
        "commit.run" => Some(Kind::Publish),
        "capi.write.done" | "capi.txn.done" => Some(Kind::Unlock),
        _ => None,
    }
}
const POINTS: &[&str] = &[
    "capi.write.begin", "capi.write.snapshot", "capi.write.locked", "commit.logged", "commit.run", "capi.write.done",
    // explicit transactions (ndb_begin_write / ndb_txn_query / ndb_txn_commit) holding one statement
    "capi.txn.begin", "capi.txn.snapshot", "capi.txn.locked", "capi.txn.done",
];
fn is_begin(p: &str) -> bool {
    p == "capi.write.begin" || p == "capi.txn.begin"
}

/// one statement: auto-commit (ndb_execute_write) or an explicit transaction around it
fn exec_stmt(db: &CDb, cypher: &str, explicit: bool) -> Result<(), String> {
    if !explicit {
        return db.exec(cypher).map(|_| ());
    }
    let mut txn: *mut ndb_capi::ndb_txn_t = std::ptr::null_mut();
    if ndb_capi::ndb_begin_write(db.0, &mut txn) != ndb_capi::NDB_OK {
        return Err(last_error());
    }
    let q = std::ffi::CString::new(cypher).unwrap();
    if ndb_capi::ndb_txn_query(txn, q.as_ptr(), std::ptr::null()) != ndb_capi::NDB_OK {
        let e = last_error();
        let _ = ndb_capi::ndb_txn_rollback(txn);
        return Err(e);
    }
    if ndb_capi::ndb_txn_commit(txn) != ndb_capi::NDB_OK {
        return Err(last_error());
    }
    Ok(())
}


#[derive(Clone, Debug, PartialEq, Eq, PartialOrd, Ord)]
enum Stmt {
    Add(i64),
    Cond(i64, i64),
}
impl Stmt {
    fn cypher(&self) -> String {
        match self {
            Stmt::Add(d) => format!("MATCH (n:C) SET n.c = n.c + ({})", d),
            Stmt::Cond(a, b) => format!("MATCH (n:C) WHERE n.c = {} SET n.c = {}", a, b),
        }
    }
    fn eval(&self, v: i64) -> i64 {
        match self {
            Stmt::Add(d) => v + d,
            Stmt::Cond(a, b) => {
                if v == *a {
                    *b
                } else {
                    v
                }
            }
        }
    }
    fn coq(&self) -> String {
        match self {
            Stmt::Add(d) => format!("(SAdd {})", coq_z(*d as i128)),
            Stmt::Cond(a, b) => format!("(SCond {} {})", coq_z(*a as i128), coq_z(*b as i128)),
        }
    }
    fn js(&self) -> serde_json::Value {
        match self {
            Stmt::Add(d) => json!({"add": d}),
            Stmt::Cond(a, b) => json!({"cond": [a, b]}),
        }
    }
}

fn setup(v0: i64) -> (tempfile::TempDir, Arc<CDb>) {
    let dir = tempfile::tempdir().unwrap();
    let db = CDb::open(&dir.path().join("c09")).expect("open");
    db.exec(&format!("CREATE (:C {{c: {}}})", v0)).expect("create counter");
    (dir, Arc::new(db))
}
fn read_counter(db: &CDb) -> Result<i64, String> {
    let v = db.query("MATCH (n:C) RETURN n.c AS c")?;
    v.as_array()
        .and_then(|a| if a.len() == 1 { a[0].get("c") } else { None })
        .and_then(|c| c.as_i64())
        .ok_or_else(|| format!("unexpected result {}", v))
}
fn teardown(db: Arc<CDb>) {
    if let Ok(db) = Arc::try_unwrap(db) {
        let _ = db.close();
    }
}

/// order of the four events of one statement, observed on the real code
fn calibrate(explicit: bool) -> Result<Vec<Kind>, String> {
    let (_dir, db) = setup(0);
    let baton = Baton::new(1);
    baton.set_filter(0, POINTS);
    baton.install();
    let d = db.clone();
    let h = baton.spawn(0, move || {
        exec_stmt(&d, &Stmt::Add(1).cypher(), explicit).expect("exec");
    });
    let mut order = vec![];
    let mut r = baton.wait_parked(0);
    if !matches!(r, Reached::Parked(p) if is_begin(p)) {
        baton.free_run();
        let _ = h.join();
        return Err(format!("calibration: first point is {:?} (schedule points missing? build with --cfg nervusdb_verif)", r));
    }
    loop {
        r = baton.step(0);
        match r {
            Reached::Parked(p) => match kind_of_point(p) {
                Some(k) => order.push(k),
                None => return Err(format!("calibration: unexpected point {}", p)),
            },
            Reached::Finished => break,
            Reached::Stuck => return Err("calibration: stuck".into()),
        }
    }
    let _ = h.join();
    Baton::uninstall();
    let v = read_counter(&db)?;
    teardown(db);
    if v != 1 {
        return Err(format!("calibration: counter {} after one increment", v));
    }
    Ok(order)
}

struct Outcome {
    sched: Vec<usize>, // schedule actually executed (given prefix + completion tail)
    trace: Vec<(usize, Kind)>,
    final_v: Result<i64, String>,
    done: bool,
    blocked: usize,
    overlapped: bool,
    anomaly: Option<String>,
}

fn drive(group: &[Kind], v0: i64, stmts: &[Vec<Stmt>], sched_prefix: &[usize], complete: bool, explicit_mask: u32) -> Outcome {
    let n = stmts.len();
    let (_dir, db) = setup(v0);
    let baton = Baton::new(n);
    for t in 0..n {
        baton.set_filter(t, POINTS);
    }
    baton.install();
    let mut handles = vec![];
    for t in 0..n {
        let d = db.clone();
        let mine = stmts[t].clone();
        let explicit = explicit_mask & (1 << t) != 0;
        handles.push(baton.spawn(t, move || {
            for s in &mine {
                exec_stmt(&d, &s.cypher(), explicit).expect("exec");
            }
        }));
    }
    let mut anomaly = None;
    for t in 0..n {
        match baton.wait_parked(t) {
            Reached::Parked(p) if is_begin(p) => {}
            Reached::Finished => {}
            r => anomaly = Some(format!("thread {} first reached {:?}", t, r)),
        }
    }
    let mut pos = vec![0usize; n];
    let mut lock: Option<usize> = None;
    let mut trace = vec![];
    let mut sched = vec![];
    let mut blocked = 0;
    let mut overlapped = false;
    let mut step = |t: usize, sched: &mut Vec<usize>, anomaly: &mut Option<String>| {
        sched.push(t);
        if t >= n || baton.is_finished(t) || anomaly.is_some() {
            return;
        }
        let k = group[pos[t]];
        if (0..n).any(|u| u != t && pos[u] != 0) {
            overlapped = true; // t is scheduled while another thread is inside a statement
        }
        if k == Kind::Lock && lock.is_some() {
            blocked += 1;
            return; // the model's blocked step: the thread does not move
        }
        match baton.step(t) {
            Reached::Parked(p) if kind_of_point(p) == Some(k) => {
                trace.push((t, k));
                match k {
                    Kind::Lock => lock = Some(t),
                    Kind::Unlock => lock = None,
                    _ => {}
                }
                pos[t] += 1;
                if pos[t] == group.len() {
                    pos[t] = 0;
                    match baton.step(t) {
                        Reached::Parked(p) if is_begin(p) => {}
                        Reached::Finished => {}
                        r => *anomaly = Some(format!("thread {} after a statement reached {:?}", t, r)),
                    }
                }
            }
            r => *anomaly = Some(format!("thread {} expected {:?}, reached {:?}", t, k, r)),
        }
    };
    for &t in sched_prefix {
        step(t, &mut sched, &mut anomaly);
    }
    if complete {
        let mut rounds = 0;
        while anomaly.is_none() && (0..n).any(|t| !baton.is_finished(t)) && rounds < 10_000 {
            for t in 0..n {
                if !baton.is_finished(t) {
                    step(t, &mut sched, &mut anomaly);
                }
            }
            rounds += 1;
        }
    }
    let done = (0..n).all(|t| baton.is_finished(t));
    baton.free_run();
    for h in handles {
        let _ = h.join();
    }
    Baton::uninstall();
    // a prefix run leaves statements unfinished: they have completed now (free run), so the value is read
    // only when the schedule itself finished everything
    let final_v = read_counter(&db);
    teardown(db);
    Outcome { sched, trace, final_v, done, blocked, overlapped, anomaly }
}

/// Points of a statement at which the FIRST writer is parked while a second writer is released towards its lock
/// acquisition; the second one must stay blocked at every one of them (the writer lock covers the whole statement,
/// in particular the publication of the run) and gets the lock once the first statement is done.
const PROBE_POINTS: &[&str] = &["capi.write.locked", "capi.write.snapshot", "commit.logged", "commit.idmap", "commit.node_labels", "commit.run"];

/// Returns the index in PROBE_POINTS of the first point at which the second writer was NOT blocked
/// (None = blocked everywhere, i.e. the lock is released after the run is published).
fn probe_unlock_position(group: &[Kind]) -> (Option<usize>, Vec<String>) {
    let lock_first = group.first() == Some(&Kind::Lock);
    let mut errors = vec![];
    let mut first_open = None;
    for (i, p) in PROBE_POINTS.iter().enumerate() {
        if !lock_first && *p == "capi.write.snapshot" {
            continue;
        }
        let (_dir, db) = setup(0);
        let baton = Baton::new(2);
        let all: Vec<&'static str> = POINTS.iter().copied().chain(["commit.idmap", "commit.node_labels"]).collect();
        baton.set_filter(0, &all);
        baton.set_filter(1, POINTS);
        baton.install();
        let mut hs = vec![];
        for t in 0..2 {
            let d = db.clone();
            hs.push(baton.spawn(t, move || {
                d.exec("MATCH (n:C) SET n.c = n.c + 1").expect("exec");
            }));
        }
        for t in 0..2 {
            let _ = baton.wait_parked(t);
        }
        // first writer up to P
        let mut reached = false;
        for _ in 0..10 {
            match baton.step(0) {
                Reached::Parked(q) if q == *p => {
                    reached = true;
                    break;
                }
                Reached::Parked(_) => {}
                _ => break,
            }
        }
        if !reached {
            errors.push(format!("probe: the first writer never reached {}", p));
        } else {
            // second writer: everything before its lock acquisition, then the acquisition with a short timeout
            let lock_idx = group.iter().position(|k| *k == Kind::Lock).unwrap_or(0);
            for _ in 0..lock_idx {
                baton.step(1);
            }
            match baton.step_probe(1, std::time::Duration::from_millis(300)) {
                Reached::Stuck => {}
                r => {
                    if first_open.is_none() {
                        first_open = Some(i);
                    }
                    errors.push(format!("a second writer got the writer lock (reached {:?}) while the first statement is parked at {}: the lock does not cover the statement up to the publication of its run", r, p));
                }
            }
        }
        baton.free_run();
        for h in hs {
            let _ = h.join();
        }
        Baton::uninstall();
        match read_counter(&db) {
            Ok(2) => {}
            other => errors.push(format!("probe at {}: counter {:?} after two increments (lost update)", p, other)),
        }
        teardown(db);
    }
    (first_open, errors)
}

/// the observed program order: lock, snapshot, log, publish from the calibration run; the unlock where the probes found it
fn observed_group(point_order: &[Kind], first_open: Option<usize>) -> Vec<Kind> {
    let mut g: Vec<Kind> = point_order.iter().copied().filter(|k| *k != Kind::Unlock).collect();
    let before = match first_open {
        None => None,                                     // released after the run is published
        Some(i) => match PROBE_POINTS[i] {
            "capi.write.locked" | "capi.write.snapshot" => Some(Kind::Snap),
            "commit.logged" => Some(Kind::Log),
            "commit.idmap" | "commit.node_labels" => Some(Kind::Publish),
            _ => None,                                    // at commit.run: after the publication
        },
    };
    match before.and_then(|k| g.iter().position(|x| *x == k)) {
        Some(pos) => g.insert(pos, Kind::Unlock),
        None => g.push(Kind::Unlock),
    }
    g
}

fn stress(threads: usize, per: usize) -> (i64, i64, f64) {
    let t0 = std::time::Instant::now();
    let (_dir, db) = setup(0);
    let ok = Arc::new(std::sync::atomic::AtomicI64::new(0));
    let mut hs = vec![];
    for t in 0..threads {
        let d = db.clone();
        let ok = ok.clone();
        hs.push(std::thread::spawn(move || {
            for _ in 0..per {
                // odd threads use explicit transactions
                if exec_stmt(&d, "MATCH (n:C) SET n.c = n.c + 1", t % 2 == 1).is_ok() {
                    ok.fetch_add(1, std::sync::atomic::Ordering::SeqCst);
                }
            }
        }));
    }
    for h in hs {
        let _ = h.join();
    }
    let v = read_counter(&db).unwrap_or(-1);
    teardown(db);
    (v, ok.load(std::sync::atomic::Ordering::SeqCst), t0.elapsed().as_secs_f64())
}

fn gen_stmt(r: &mut Rng) -> Stmt {
    match r.below(4) {
        0 => Stmt::Add(1),
        1 => Stmt::Add(r.range(-3, 5)),
        2 => Stmt::Cond(r.range(0, 3), r.range(0, 9)),
        _ => Stmt::Add(1),
    }
}

fn main() {
    let a = args();
    quiet_panics();
    let mut r = Rng::new(a.seed);
    let mut cw = CaseWriter::new(&a.out, "Corr.C09", 100);
    let mut rep = Report::new(&a.out);
    let mut hist = BTreeMap::<String, u64>::new();
    let mut nontrivial = BTreeSet::<(Vec<Vec<Stmt>>, Vec<usize>)>::new();
    let mut fails = 0u64;

    // explicit single-statement transactions must show the same program order as auto-commit statements
    match calibrate(true) {
        Ok(g) => {
            *hist.entry(format!("program_order_explicit_txn:{:?}", g)).or_insert(0) += 1;
            if let Ok(g0) = calibrate(false) {
                if g != g0 {
                    rep.fail(0, None, &format!("explicit transactions run their steps in the order {:?}, auto-commit statements in {:?}", g, g0), json!({"phase": "calibration"}));
                }
            }
        }
        Err(e) => rep.fail(0, None, &format!("explicit transaction: {}", e), json!({"phase": "calibration"})),
    }
    let group = match calibrate(false) {
        Ok(g) => g,
        Err(e) => {
            rep.fail(0, None, &e, json!({"phase": "calibration"}));
            rep.stats(json!({"evaluations": 0, "distinct_nontrivial": 0, "case_files": []}));
            rep.finish();
            std::process::exit(0);
        }
    };
    *hist.entry(format!("point_order:{:?}", group)).or_insert(0) += 1;
    // where is the writer lock released?  a second writer is released at every point of the first one
    let (first_open, probe_errors) = probe_unlock_position(&group);
    *hist.entry(format!("unlock_probes:{}", if probe_errors.is_empty() { "second writer blocked at all points" } else { "NOT blocked" })).or_insert(0) += 1;
    for e in &probe_errors {
        fails += 1;
        rep.fail(0, None, e, json!({"phase": "writer-lock probe"}));
    }
    let observed = observed_group(&group, first_open);
    *hist.entry(format!("program_order:{:?}", observed)).or_insert(0) += 1;

    // ---- case list: corpus, exhaustive small, generated
    let mut cases: Vec<(String, i64, Vec<Vec<Stmt>>, Vec<usize>, bool)> = vec![];
    let two_incs = vec![vec![Stmt::Add(1)], vec![Stmt::Add(1)]];
    // witness of the repaired defect (snapshot before lock): both threads take their first step, then run one after the other
    cases.push(("corpus:lost-update-witness".into(), 0, two_incs.clone(), vec![0, 1, 0, 0, 0, 0, 1, 1, 1, 1], true));
    // the schedule of the early-unlock witness (Conc/AutoCommit_proofs.v): with the lock held up to the end it is harmless
    cases.push(("corpus:early-unlock-witness".into(), 0, two_incs.clone(), vec![0, 0, 0, 0, 1, 1, 1, 0, 1, 1], true));
    cases.push(("corpus:three-way".into(), 0, vec![vec![Stmt::Add(1)]; 3], vec![0, 1, 2, 2, 1, 0, 0, 0, 1, 1, 2, 2], true));
    for s in interleavings(&[5, 5]) {
        cases.push(("exhaustive:2x1".into(), 0, two_incs.clone(), s, true));
    }
    let cond = vec![vec![Stmt::Cond(0, 7)], vec![Stmt::Cond(0, 9)]];
    for (i, s) in interleavings(&[5, 5]).into_iter().enumerate() {
        if i % 18 == 0 {
            cases.push(("exhaustive-sample:2x1-cond".into(), 0, cond.clone(), s, true));
        }
    }
    while cases.len() < a.n {
        let n = 2 + r.below(3) as usize;
        let stmts: Vec<Vec<Stmt>> = (0..n).map(|_| (0..1 + r.below(3)).map(|_| gen_stmt(&mut r)).collect()).collect();
        let total: usize = stmts.iter().map(|s| s.len() * 5).sum();
        let len = match r.below(4) {
            0 => r.below(total as u64 + 1) as usize, // a prefix: nothing is completed afterwards
            _ => total + r.below(total as u64 / 2 + 1) as usize,
        };
        // bursty schedules: stay on a thread with probability 1/2
        let mut s = vec![];
        let mut cur = r.below(n as u64) as usize;
        for _ in 0..len {
            if r.chance(1, 2) {
                let extra = if r.chance(1, 20) { 1 } else { 0 }; // rarely an id with no thread
                cur = r.below(n as u64 + extra) as usize;
            }
            s.push(cur);
        }
        let complete = r.chance(3, 4);
        cases.push(("generated".into(), r.range(0, 3), stmts, s, complete));
    }

    let mut idx = 0usize;
    for (tag, v0, stmts, sched, complete) in cases {
        // which threads wrap each statement in an explicit transaction (ndb_begin_write/ndb_txn_query/ndb_txn_commit)
        let explicit_mask: u32 = if tag.starts_with("corpus") { 0 } else { match idx % 3 { 0 => 0, 1 => 0b1010, _ => 0b1111 } };
        if explicit_mask != 0 {
            *hist.entry(format!("explicit_txn_mask:{:#06b}", explicit_mask)).or_insert(0) += 1;
        }
        let o = drive(&group, v0, &stmts, &sched, complete, explicit_mask);
        *hist.entry(format!("kind:{}", tag.split(':').next().unwrap())).or_insert(0) += 1;
        *hist.entry(format!("threads:{}", stmts.len())).or_insert(0) += 1;
        *hist.entry(format!("done:{}", o.done)).or_insert(0) += 1;
        if o.blocked > 0 {
            *hist.entry("with_blocked_lock_step".into()).or_insert(0) += 1;
        }
        if o.overlapped {
            *hist.entry("overlapping_statements".into()).or_insert(0) += 1;
            nontrivial.insert((stmts.clone(), o.sched.clone()));
        }
        let input = json!({"tag": tag, "explicit_txn_thread_mask": explicit_mask, "v0": v0, "stmts": stmts.iter().map(|t| t.iter().map(|s| s.js()).collect::<Vec<_>>()).collect::<Vec<_>>(),
            "schedule": o.sched, "trace": o.trace.iter().map(|(t, k)| format!("{}:{:?}", t, k)).collect::<Vec<_>>(),
            "final": format!("{:?}", o.final_v), "done": o.done});
        if idx < 4 {
            rep.case(idx, input.clone());
        }
        if let Some(an) = &o.anomaly {
            fails += 1;
            rep.fail(idx, None, &format!("driver anomaly: {}", an), input.clone());
        }
        // the unfinished statements of a prefix run complete in the free run afterwards: only compare the value when done
        let final_for_coq = match (&o.final_v, o.done) {
            (Ok(v), true) => Some(*v),
            _ => None,
        };
        // direct property: value = committed statements applied one at a time in commit order
        if o.done {
            let mut next = vec![0usize; stmts.len()];
            let mut v = v0;
            let mut commits = 0;
            for (t, k) in &o.trace {
                if *k == Kind::Publish {
                    v = stmts[*t][next[*t]].eval(v);
                    next[*t] += 1;
                    commits += 1;
                }
            }
            let total: usize = stmts.iter().map(|s| s.len()).sum();
            match &o.final_v {
                Ok(f) if *f == v && commits == total => {}
                other => {
                    fails += 1;
                    rep.fail(idx, None, &format!("lost update: value {:?}, but the {} committed statements applied in commit order give {}", other, commits, v), input.clone());
                }
            }
        }
        // the model's cell is only compared when the schedule finished every statement; otherwise the
        // model value of the executed prefix is not observable (no read between the points) and the case
        // carries the model-independent trace only
        cw.push(format!(
            "{{| observed_group := {}; v0 := {}; stmts := {}; sched := {}; impl_trace := {}; impl_final := {}; impl_done := {} |}}",
            coq_list(&observed, |k| k.coq().to_string()),
            coq_z(v0 as i128),
            coq_list(&stmts, |t| coq_list(t, |s| s.coq())),
            coq_list(&o.sched, |t| format!("{}%nat", t)),
            coq_list(&o.trace, |(t, k)| format!("({}%nat, {})", t, k.coq())),
            coq_opt(&final_for_coq, |v| coq_z(*v as i128)),
            coq_bool(o.done)
        ));
        idx += 1;
    }
    cw.flush();


    // ---- free-running stress (the search)
    let per = a.extra.iter().position(|x| x == "--stress").and_then(|i| a.extra.get(i + 1)).and_then(|s| s.parse().ok()).unwrap_or(200usize);
    let (v, ok, secs) = stress(8, per);
    *hist.entry(format!("stress:8x{}", per)).or_insert(0) += 1;
    if v != ok || ok != (8 * per) as i64 {
        fails += 1;
        rep.fail(idx, None, &format!("stress: counter is {} after {} successful increments (8 threads x {})", v, ok, per),
            json!({"threads": 8, "increments_per_thread": per, "final": v, "successful": ok}));
    }

    rep.stats(json!({
        "evaluations": idx,
        "distinct_nontrivial": nontrivial.len(),
        "rule": "driven schedules of 2-4 threads x 1-3 read-modify-write statements through ndb_execute_write (corpus witness, all 252 interleavings of 2x1 increments, 14 of 2x1 conditional sets, generated bursty schedules incl. prefixes and ids without a thread); non-trivial = some thread was scheduled while another was inside a statement (contended lock or overlapping steps), distinct by (statements, executed schedule)",
        "histogram": hist,
        "direct_failures": fails,
        "stress": {"threads": 8, "per_thread": per, "final": v, "successful": ok, "seconds": secs},
        "case_files": cw.files.iter().map(|p| p.to_string_lossy().to_string()).collect::<Vec<_>>(),
    }));
    rep.finish();
}
