//! C09 — concurrent auto-commit writes through the C API (ndb_execute_write).
//!
//! * calibration: one statement on one thread, stepping through the schedule points;
//!   the observed order of its events is the program order the model must have;
//! * driven schedules: explicit thread-id lists executed with the baton scheduler
//!   (corpus witness first, all interleavings of 2 threads x 1 statement, then
//!   generated ones); every case is written out for the Coq model (`Corr/C09.v`);
//! * direct search: (a) per driven case, final value = the committed statements applied
//!   one at a time in commit order; (b) free-running stress, 8 threads x N increments,
//!   final counter = number of successful increments.
use hx_conc::*;
use serde_json::json;
use std::collections::{BTreeMap, BTreeSet};
use std::sync::Arc;
use vh::*;

#[derive(Clone, Copy, PartialEq, Eq, Debug)]
enum Kind {
    Snap,
    Lock,
    Commit,
    Unlock,
}
impl Kind {
    fn coq(self) -> &'static str {
        match self {
            Kind::Snap => "ESnap",
            Kind::Lock => "ELock",
            Kind::Commit => "ECommit",
            Kind::Unlock => "EUnlock",
        }
    }
}
fn kind_of_point(p: &str) -> Option<Kind> {
    match p {
        "capi.write.snapshot" | "capi.txn.snapshot" => Some(Kind::Snap),
        "capi.write.locked" | "capi.txn.locked" => Some(Kind::Lock),
        "commit.run" => Some(Kind::Commit),
        "capi.write.done" | "capi.txn.done" => Some(Kind::Unlock),
        _ => None,
    }
}
const POINTS: &[&str] = &[
    "capi.write.begin", "capi.write.snapshot", "capi.write.locked", "commit.run", "capi.write.done",
    // explicit transactions (ndb_begin_write / ndb_txn_query / ndb_txn_commit) holding one statement
    "capi.txn.begin", "capi.txn.snapshot", "capi.txn.locked", "capi.txn.done",
];
fn is_begin(p: &str) -> bool {
    p == "capi.write.begin" || p == "capi.txn.begin"
}

/// one statement: auto-commit (ndb_execute_write) or an explicit transaction around it
fn exec_stmt(db: &CDb, cypher: &str, explicit: bool) -> Result<(), String> {
    if !explicit {
        return db.exec(cypher).map(|_| ());
    }
    let mut txn: *mut ndb_capi::ndb_txn_t = std::ptr::null_mut();
    if ndb_capi::ndb_begin_write(db.0, &mut txn) != ndb_capi::NDB_OK {
        return Err(last_error());
    }
    let q = std::ffi::CString::new(cypher).unwrap();
    if ndb_capi::ndb_txn_query(txn, q.as_ptr(), std::ptr::null()) != ndb_capi::NDB_OK {
        let e = last_error();
        let _ = ndb_capi::ndb_txn_rollback(txn);
        return Err(e);
    }
    if ndb_capi::ndb_txn_commit(txn) != ndb_capi::NDB_OK {
        return Err(last_error());
    }
    Ok(())
}


#[derive(Clone, Debug, PartialEq, Eq, PartialOrd, Ord)]
enum Stmt {
    Add(i64),
    Cond(i64, i64),
}
impl Stmt {
    fn cypher(&self) -> String {
        match self {
            Stmt::Add(d) => format!("MATCH (n:C) SET n.c = n.c + ({})", d),
            Stmt::Cond(a, b) => format!("MATCH (n:C) WHERE n.c = {} SET n.c = {}", a, b),
        }
    }
    fn eval(&self, v: i64) -> i64 {
        match self {
            Stmt::Add(d) => v + d,
            Stmt::Cond(a, b) => {
                if v == *a {
                    *b
                } else {
                    v
                }
            }
        }
    }
    fn coq(&self) -> String {
        match self {
            Stmt::Add(d) => format!("(SAdd {})", coq_z(*d as i128)),
            Stmt::Cond(a, b) => format!("(SCond {} {})", coq_z(*a as i128), coq_z(*b as i128)),
        }
    }
    fn js(&self) -> serde_json::Value {
        match self {
            Stmt::Add(d) => json!({"add": d}),
            Stmt::Cond(a, b) => json!({"cond": [a, b]}),
        }
    }
}

fn setup(v0: i64) -> (tempfile::TempDir, Arc<CDb>) {
    let dir = tempfile::tempdir().unwrap();
    let db = CDb::open(&dir.path().join("c09")).expect("open");
    db.exec(&format!("CREATE (:C {{c: {}}})", v0)).expect("create counter");
    (dir, Arc::new(db))
}
fn read_counter(db: &CDb) -> Result<i64, String> {
    let v = db.query("MATCH (n:C) RETURN n.c AS c")?;
    v.as_array()
        .and_then(|a| if a.len() == 1 { a[0].get("c") } else { None })
        .and_then(|c| c.as_i64())
        .ok_or_else(|| format!("unexpected result {}", v))
}
fn teardown(db: Arc<CDb>) {
    if let Ok(db) = Arc::try_unwrap(db) {
        let _ = db.close();
    }
}

/// order of the four events of one statement, observed on the real code
fn calibrate(explicit: bool) -> Result<Vec<Kind>, String> {
    let (_dir, db) = setup(0);
    let baton = Baton::new(1);
    baton.set_filter(0, POINTS);
    baton.install();
    let d = db.clone();
    let h = baton.spawn(0, move || {
        exec_stmt(&d, &Stmt::Add(1).cypher(), explicit).expect("exec");
    });
    let mut order = vec![];
    let mut r = baton.wait_parked(0);
    if !matches!(r, Reached::Parked(p) if is_begin(p)) {
        baton.free_run();
        let _ = h.join();
        return Err(format!("calibration: first point is {:?} (schedule points missing? build with --cfg nervusdb_verif)", r));
    }
    loop {
        r = baton.step(0);
        match r {
            Reached::Parked(p) => match kind_of_point(p) {
                Some(k) => order.push(k),
                None => return Err(format!("calibration: unexpected point {}", p)),
            },
            Reached::Finished => break,
            Reached::Stuck => return Err("calibration: stuck".into()),
        }
    }
    let _ = h.join();
    Baton::uninstall();
    let v = read_counter(&db)?;
    teardown(db);
    if v != 1 {
        return Err(format!("calibration: counter {} after one increment", v));
    }
    Ok(order)
}

struct Outcome {
    sched: Vec<usize>, // schedule actually executed (given prefix + completion tail)
    trace: Vec<(usize, Kind)>,
    final_v: Result<i64, String>,
    done: bool,
    blocked: usize,
    overlapped: bool,
    anomaly: Option<String>,
}

fn drive(group: &[Kind], v0: i64, stmts: &[Vec<Stmt>], sched_prefix: &[usize], complete: bool, explicit_mask: u32) -> Outcome {
    let n = stmts.len();
    let (_dir, db) = setup(v0);
    let baton = Baton::new(n);
    for t in 0..n {
        baton.set_filter(t, POINTS);
    }
    baton.install();
    let mut handles = vec![];
    for t in 0..n {
        let d = db.clone();
        let mine = stmts[t].clone();
        let explicit = explicit_mask & (1 << t) != 0;
        handles.push(baton.spawn(t, move || {
            for s in &mine {
                exec_stmt(&d, &s.cypher(), explicit).expect("exec");
            }
        }));
    }
    let mut anomaly = None;
    for t in 0..n {
        match baton.wait_parked(t) {
            Reached::Parked(p) if is_begin(p) => {}
            Reached::Finished => {}
            r => anomaly = Some(format!("thread {} first reached {:?}", t, r)),
        }
    }
    let mut pos = vec![0usize; n];
    let mut lock: Option<usize> = None;
    let mut trace = vec![];
    let mut sched = vec![];
    let mut blocked = 0;
    let mut overlapped = false;
    let mut step = |t: usize, sched: &mut Vec<usize>, anomaly: &mut Option<String>| {
        sched.push(t);
        if t >= n || baton.is_finished(t) || anomaly.is_some() {
            return;
        }
        let k = group[pos[t]];
        if (0..n).any(|u| u != t && pos[u] != 0) {
            overlapped = true; // t is scheduled while another thread is inside a statement
        }
        if k == Kind::Lock && lock.is_some() {
            blocked += 1;
            return; // the model's blocked step: the thread does not move
        }
        match baton.step(t) {
            Reached::Parked(p) if kind_of_point(p) == Some(k) => {
                trace.push((t, k));
                match k {
                    Kind::Lock => lock = Some(t),
                    Kind::Unlock => lock = None,
                    _ => {}
                }
                pos[t] += 1;
                if pos[t] == group.len() {
                    pos[t] = 0;
                    match baton.step(t) {
                        Reached::Parked(p) if is_begin(p) => {}
                        Reached::Finished => {}
                        r => *anomaly = Some(format!("thread {} after a statement reached {:?}", t, r)),
                    }
                }
            }
            r => *anomaly = Some(format!("thread {} expected {:?}, reached {:?}", t, k, r)),
        }
    };
    for &t in sched_prefix {
        step(t, &mut sched, &mut anomaly);
    }
    if complete {
        let mut rounds = 0;
        while anomaly.is_none() && (0..n).any(|t| !baton.is_finished(t)) && rounds < 10_000 {
            for t in 0..n {
                if !baton.is_finished(t) {
                    step(t, &mut sched, &mut anomaly);
                }
            }
            rounds += 1;
        }
    }
    let done = (0..n).all(|t| baton.is_finished(t));
    baton.free_run();
    for h in handles {
        let _ = h.join();
    }
    Baton::uninstall();
    // a prefix run leaves statements unfinished: they have completed now (free run), so the value is read
    // only when the schedule itself finished everything
    let final_v = read_counter(&db);
    teardown(db);
    Outcome { sched, trace, final_v, done, blocked, overlapped, anomaly }
}

/// Mutual-exclusion probe on the real code: while thread 0 is between `locked` and `done`, thread 1 is
/// released towards its lock acquisition and must NOT reach `capi.write.locked` (it has to block inside
/// begin_write); after thread 0 finished, thread 1 gets the lock by itself.
fn probe_exclusion(group: &[Kind]) -> Result<(), String> {
    let (_dir, db) = setup(0);
    let baton = Baton::new(2);
    baton.set_filter(0, POINTS);
    baton.set_filter(1, POINTS);
    baton.install();
    let mut hs = vec![];
    for t in 0..2 {
        let d = db.clone();
        hs.push(baton.spawn(t, move || {
            d.exec("MATCH (n:C) SET n.c = n.c + 1").expect("exec");
        }));
    }
    let lock_idx = group.iter().position(|k| *k == Kind::Lock).ok_or("no lock step")?;
    let mut res = Ok(());
    for t in 0..2 {
        let _ = baton.wait_parked(t);
    }
    // thread 0: up to and including its lock step; thread 1: up to just before its lock step
    for _ in 0..=lock_idx {
        baton.step(0);
    }
    for _ in 0..lock_idx {
        baton.step(1);
    }
    match baton.step_probe(1, std::time::Duration::from_millis(400)) {
        Reached::Stuck => {}
        r => res = Err(format!("second writer was not blocked while the first holds the writer lock: reached {:?}", r)),
    }
    if res.is_ok() {
        for _ in lock_idx + 1..group.len() {
            baton.step(0);
        }
        baton.step(0); // back to harness code / finish
        match baton.wait_parked_for(1, std::time::Duration::from_secs(20)) {
            Reached::Parked("capi.write.locked") => {}
            r => res = Err(format!("after the first writer finished the second reached {:?} instead of acquiring the lock", r)),
        }
    }
    baton.free_run();
    for h in hs {
        let _ = h.join();
    }
    Baton::uninstall();
    if res.is_ok() {
        let v = read_counter(&db)?;
        if v != 2 {
            res = Err(format!("exclusion probe: counter {} after two increments", v));
        }
    }
    teardown(db);
    res
}

fn stress(threads: usize, per: usize) -> (i64, i64, f64) {
    let t0 = std::time::Instant::now();
    let (_dir, db) = setup(0);
    let ok = Arc::new(std::sync::atomic::AtomicI64::new(0));
    let mut hs = vec![];
    for t in 0..threads {
        let d = db.clone();
        let ok = ok.clone();
        hs.push(std::thread::spawn(move || {
            for _ in 0..per {
                // odd threads use explicit transactions
                if exec_stmt(&d, "MATCH (n:C) SET n.c = n.c + 1", t % 2 == 1).is_ok() {
                    ok.fetch_add(1, std::sync::atomic::Ordering::SeqCst);
                }
            }
        }));
    }
    for h in hs {
        let _ = h.join();
    }
    let v = read_counter(&db).unwrap_or(-1);
    teardown(db);
    (v, ok.load(std::sync::atomic::Ordering::SeqCst), t0.elapsed().as_secs_f64())
}

fn gen_stmt(r: &mut Rng) -> Stmt {
    match r.below(4) {
        0 => Stmt::Add(1),
        1 => Stmt::Add(r.range(-3, 5)),
        2 => Stmt::Cond(r.range(0, 3), r.range(0, 9)),
        _ => Stmt::Add(1),
    }
}

fn main() {
    let a = args();
    quiet_panics();
    let mut r = Rng::new(a.seed);
    let mut cw = CaseWriter::new(&a.out, "Corr.C09", 100);
    let mut rep = Report::new(&a.out);
    let mut hist = BTreeMap::<String, u64>::new();
    let mut nontrivial = BTreeSet::<(Vec<Vec<Stmt>>, Vec<usize>)>::new();
    let mut fails = 0u64;

    // explicit single-statement transactions must show the same program order as auto-commit statements
    match calibrate(true) {
        Ok(g) => {
            *hist.entry(format!("program_order_explicit_txn:{:?}", g)).or_insert(0) += 1;
            if let Ok(g0) = calibrate(false) {
                if g != g0 {
                    rep.fail(0, None, &format!("explicit transactions run their steps in the order {:?}, auto-commit statements in {:?}", g, g0), json!({"phase": "calibration"}));
                }
            }
        }
        Err(e) => rep.fail(0, None, &format!("explicit transaction: {}", e), json!({"phase": "calibration"})),
    }
    let group = match calibrate(false) {
        Ok(g) => g,
        Err(e) => {
            rep.fail(0, None, &e, json!({"phase": "calibration"}));
            rep.stats(json!({"evaluations": 0, "distinct_nontrivial": 0, "case_files": []}));
            rep.finish();
            std::process::exit(0);
        }
    };
    *hist.entry(format!("program_order:{:?}", group)).or_insert(0) += 1;

    // ---- case list: corpus, exhaustive small, generated
    let mut cases: Vec<(String, i64, Vec<Vec<Stmt>>, Vec<usize>, bool)> = vec![];
    let two_incs = vec![vec![Stmt::Add(1)], vec![Stmt::Add(1)]];
    // witness of the repaired defect (snapshot before lock): both threads take their first step, then run one after the other
    cases.push(("corpus:lost-update-witness".into(), 0, two_incs.clone(), vec![0, 1, 0, 0, 0, 1, 1, 1], true));
    cases.push(("corpus:three-way".into(), 0, vec![vec![Stmt::Add(1)]; 3], vec![0, 1, 2, 2, 1, 0, 0, 0, 1, 1, 2, 2], true));
    for s in interleavings(&[4, 4]) {
        cases.push(("exhaustive:2x1".into(), 0, two_incs.clone(), s, true));
    }
    let cond = vec![vec![Stmt::Cond(0, 7)], vec![Stmt::Cond(0, 9)]];
    for (i, s) in interleavings(&[4, 4]).into_iter().enumerate() {
        if i % 5 == 0 {
            cases.push(("exhaustive-sample:2x1-cond".into(), 0, cond.clone(), s, true));
        }
    }
    while cases.len() < a.n {
        let n = 2 + r.below(3) as usize;
        let stmts: Vec<Vec<Stmt>> = (0..n).map(|_| (0..1 + r.below(3)).map(|_| gen_stmt(&mut r)).collect()).collect();
        let total: usize = stmts.iter().map(|s| s.len() * 4).sum();
        let len = match r.below(4) {
            0 => r.below(total as u64 + 1) as usize, // a prefix: nothing is completed afterwards
            _ => total + r.below(total as u64 / 2 + 1) as usize,
        };
        // bursty schedules: stay on a thread with probability 1/2
        let mut s = vec![];
        let mut cur = r.below(n as u64) as usize;
        for _ in 0..len {
            if r.chance(1, 2) {
                let extra = if r.chance(1, 20) { 1 } else { 0 }; // rarely an id with no thread
                cur = r.below(n as u64 + extra) as usize;
            }
            s.push(cur);
        }
        let complete = r.chance(3, 4);
        cases.push(("generated".into(), r.range(0, 3), stmts, s, complete));
    }

    let mut idx = 0usize;
    for (tag, v0, stmts, sched, complete) in cases {
        // which threads wrap each statement in an explicit transaction (ndb_begin_write/ndb_txn_query/ndb_txn_commit)
        let explicit_mask: u32 = if tag.starts_with("corpus") { 0 } else { match idx % 3 { 0 => 0, 1 => 0b1010, _ => 0b1111 } };
        if explicit_mask != 0 {
            *hist.entry(format!("explicit_txn_mask:{:#06b}", explicit_mask)).or_insert(0) += 1;
        }
        let o = drive(&group, v0, &stmts, &sched, complete, explicit_mask);
        *hist.entry(format!("kind:{}", tag.split(':').next().unwrap())).or_insert(0) += 1;
        *hist.entry(format!("threads:{}", stmts.len())).or_insert(0) += 1;
        *hist.entry(format!("done:{}", o.done)).or_insert(0) += 1;
        if o.blocked > 0 {
            *hist.entry("with_blocked_lock_step".into()).or_insert(0) += 1;
        }
        if o.overlapped {
            *hist.entry("overlapping_statements".into()).or_insert(0) += 1;
            nontrivial.insert((stmts.clone(), o.sched.clone()));
        }
        let input = json!({"tag": tag, "explicit_txn_thread_mask": explicit_mask, "v0": v0, "stmts": stmts.iter().map(|t| t.iter().map(|s| s.js()).collect::<Vec<_>>()).collect::<Vec<_>>(),
            "schedule": o.sched, "trace": o.trace.iter().map(|(t, k)| format!("{}:{:?}", t, k)).collect::<Vec<_>>(),
            "final": format!("{:?}", o.final_v), "done": o.done});
        if idx < 4 {
            rep.case(idx, input.clone());
        }
        if let Some(an) = &o.anomaly {
            fails += 1;
            rep.fail(idx, None, &format!("driver anomaly: {}", an), input.clone());
        }
        // the unfinished statements of a prefix run complete in the free run afterwards: only compare the value when done
        let final_for_coq = match (&o.final_v, o.done) {
            (Ok(v), true) => Some(*v),
            _ => None,
        };
        // direct property: value = committed statements applied one at a time in commit order
        if o.done {
            let mut next = vec![0usize; stmts.len()];
            let mut v = v0;
            let mut commits = 0;
            for (t, k) in &o.trace {
                if *k == Kind::Commit {
                    v = stmts[*t][next[*t]].eval(v);
                    next[*t] += 1;
                    commits += 1;
                }
            }
            let total: usize = stmts.iter().map(|s| s.len()).sum();
            match &o.final_v {
                Ok(f) if *f == v && commits == total => {}
                other => {
                    fails += 1;
                    rep.fail(idx, None, &format!("lost update: value {:?}, but the {} committed statements applied in commit order give {}", other, commits, v), input.clone());
                }
            }
        }
        // the model's cell is only compared when the schedule finished every statement; otherwise the
        // model value of the executed prefix is not observable (no read between the points) and the case
        // carries the model-independent trace only
        cw.push(format!(
            "{{| observed_group := {}; v0 := {}; stmts := {}; sched := {}; impl_trace := {}; impl_final := {}; impl_done := {} |}}",
            coq_list(&group, |k| k.coq().to_string()),
            coq_z(v0 as i128),
            coq_list(&stmts, |t| coq_list(t, |s| s.coq())),
            coq_list(&o.sched, |t| format!("{}%nat", t)),
            coq_list(&o.trace, |(t, k)| format!("({}%nat, {})", t, k.coq())),
            coq_opt(&final_for_coq, |v| coq_z(*v as i128)),
            coq_bool(o.done)
        ));
        idx += 1;
    }
    cw.flush();

    // ---- the writer lock really blocks a second writer (the driver above only models it)
    if let Err(e) = probe_exclusion(&group) {
        fails += 1;
        rep.fail(idx, None, &e, json!({"phase": "exclusion-probe"}));
    }
    *hist.entry("exclusion_probe".into()).or_insert(0) += 1;

    // ---- free-running stress (the search)
    let per = a.extra.iter().position(|x| x == "--stress").and_then(|i| a.extra.get(i + 1)).and_then(|s| s.parse().ok()).unwrap_or(200usize);
    let (v, ok, secs) = stress(8, per);
    *hist.entry(format!("stress:8x{}", per)).or_insert(0) += 1;
    if v != ok || ok != (8 * per) as i64 {
        fails += 1;
        rep.fail(idx, None, &format!("stress: counter is {} after {} successful increments (8 threads x {})", v, ok, per),
            json!({"threads": 8, "increments_per_thread": per, "final": v, "successful": ok}));
    }

    rep.stats(json!({
        "evaluations": idx,
        "distinct_nontrivial": nontrivial.len(),
        "rule": "driven schedules of 2-4 threads x 1-3 read-modify-write statements through ndb_execute_write (corpus witness, all 70 interleavings of 2x1 increments, 14 of 2x1 conditional sets, generated bursty schedules incl. prefixes and ids without a thread); non-trivial = some thread was scheduled while another was inside a statement (contended lock or overlapping steps), distinct by (statements, executed schedule)",
        "histogram": hist,
        "direct_failures": fails,
        "stress": {"threads": 8, "per_thread": per, "final": v, "successful": ok, "seconds": secs},
        "case_files": cw.files.iter().map(|p| p.to_string_lossy().to_string()).collect::<Vec<_>>(),
    }));
    rep.finish();
}
