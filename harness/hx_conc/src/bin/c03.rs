//! C03 — snapshot acquisition and reads against commit and compaction on the real engine, driven by
//! explicit schedules through the schedule points (`commit.*`, `compact.*`, `snap.*`).
//!
//! Thread 0 is the writer (a history of commits / compactions through `Db`), threads 1.. are readers
//! (`Db::snapshot()` then k full reads).  One schedule entry = one step of the model `Conc/Snapshot.v`:
//! WLog, WPublish, CPersist, CSink, CLog, CPublish, RAcquire, RRead.  A publication section (WPublish,
//! CPublish) and an acquisition (RAcquire) span several points; they run under the engine's publish_lock and
//! are driven through all their points in one go.  That the lock really excludes an acquisition inside a
//! publication section (and vice versa) is PROBED on the real code: the other thread is released with a short
//! timeout and must stay blocked.
//! Every observed view goes to the model (`Corr/C03.v`).  Direct search: a read is SAFE when no sink step ran
//! since its snapshot was acquired or the snapshot has no property root; a safe read must be exactly the
//! committed state after the operations published at the acquisition; an unsafe read that differs is tagged
//! K-C03-inplace.
use hx_conc::*;
use nervusdb::{Db, GraphSnapshot, PropertyValue};
use serde_json::json;
use std::collections::{BTreeMap, BTreeSet};
use std::sync::{Arc, Mutex};
use vh::*;

#[derive(Clone, Debug, PartialEq, Eq, PartialOrd, Ord)]
struct Tx {
    nodes: Vec<u32>,          // model node ids (= external ids), fresh, consecutive from 1 in creation order
    props: Vec<(u32, i64)>,   // (node, value) of property "p"
    edges: Vec<(u32, u32)>,
}
#[derive(Clone, Debug, PartialEq, Eq, PartialOrd, Ord)]
enum WOp {
    Commit(Tx),
    Compact,
}
#[derive(Clone, Debug, PartialEq, Eq, PartialOrd, Ord)]
struct View {
    nodes: Vec<u32>,
    labeled: Vec<bool>,
    props: Vec<Option<i64>>,
    edges: Vec<(u32, u32)>, // sorted
}

const WLOG: &[&str] = &["commit.logged"];
const WPUBLISH: &[&str] = &["commit.idmap", "commit.node_labels", "commit.run"];
const CPERSIST: &[&str] = &["compact.persisted"];
const CSINK: &[&str] = &["compact.sunk"];
const CLOG: &[&str] = &["compact.logged"];
const CPUBLISH: &[&str] = &["compact.props_root", "compact.stats_root", "compact.runs_cleared", "compact.segments"];
const RACQUIRE: &[&str] = &["snap.i2e", "snap.runs", "snap.segments", "snap.labels", "snap.node_labels", "snap.props_root", "r.acquired"];

fn coq_tx(x: &Tx) -> String {
    format!(
        "{{| t_nodes := {}; t_props := {}; t_edges := {} |}}",
        coq_list(&x.nodes, |n| format!("{}%nat", n)),
        coq_list(&x.props, |(n, v)| format!("({}%nat, {})", n, coq_z(*v as i128))),
        coq_list(&x.edges, |(a, b)| format!("({}%nat, {}%nat)", a, b))
    )
}
fn coq_wop(o: &WOp) -> String {
    match o {
        WOp::Commit(x) => format!("(WCommit {})", coq_tx(x)),
        WOp::Compact => "WCompact".into(),
    }
}
fn coq_view(v: &View) -> String {
    format!(
        "{{| v_nodes := {}; v_labeled := {}; v_props := {}; v_edges := {} |}}",
        coq_list(&v.nodes, |n| format!("{}%nat", n)),
        coq_list(&v.labeled, |b| coq_bool(*b).to_string()),
        coq_list(&v.props, |p| coq_opt(p, |z| coq_z(*z as i128))),
        coq_list(&v.edges, |(a, b)| format!("({}%nat, {}%nat)", a, b))
    )
}

/// the committed state after the first j operations, as a view
fn spec_view(h: &[WOp], j: usize) -> View {
    let mut nodes: Vec<u32> = vec![];
    let mut props: BTreeMap<u32, i64> = BTreeMap::new();
    let mut edges: Vec<(u32, u32)> = vec![];
    for o in &h[..j] {
        if let WOp::Commit(x) = o {
            nodes.extend(&x.nodes);
            for (n, v) in x.props.iter().rev() {
                props.insert(*n, *v);
            }
            edges.extend(&x.edges);
        }
    }
    edges.sort();
    View { labeled: nodes.iter().map(|_| true).collect(), props: nodes.iter().map(|n| props.get(n).copied()).collect(), nodes, edges }
}

fn read_view(snap: &nervusdb::DbSnapshot, universe: u32) -> View {
    let iids: Vec<u32> = snap.nodes().collect();
    let nodes: Vec<u32> = iids.iter().map(|i| snap.resolve_external(*i).map(|e| e as u32).unwrap_or(0)).collect();
    let labeled = iids.iter().map(|i| snap.resolve_node_labels(*i).is_some()).collect();
    let props = iids
        .iter()
        .map(|i| match snap.node_property(*i, "p") {
            Some(PropertyValue::Int(v)) => Some(v),
            Some(_) => Some(i64::MIN),
            None => None,
        })
        .collect();
    let mut edges = vec![];
    for src in 0..universe {
        for e in snap.neighbors(src, None) {
            edges.push((e.src + 1, e.dst + 1));
        }
    }
    edges.sort();
    View { nodes, labeled, props, edges }
}

/// model steps of one writer operation: (name, points the step runs through)
fn op_steps(o: &WOp) -> Vec<(&'static str, &'static [&'static str])> {
    match o {
        WOp::Commit(_) => vec![("WLog", WLOG), ("WPublish", WPUBLISH)],
        WOp::Compact => vec![("CPersist", CPERSIST), ("CSink", CSINK), ("CLog", CLOG), ("CPublish", CPUBLISH)],
    }
}
fn steps_of(h: &[WOp]) -> usize {
    h.iter().map(|o| op_steps(o).len()).sum()
}

struct Scenario {
    _dir: tempfile::TempDir,
    baton: Arc<Baton>,
    handles: Vec<std::thread::JoinHandle<()>>,
    obs: Arc<Mutex<Vec<(usize, View)>>>,
    n: usize,
}

fn start(hist: &[WOp], readers: &[usize]) -> Result<Scenario, String> {
    let dir = tempfile::tempdir().unwrap();
    let db = Arc::new(Db::open(dir.path().join("c03")).expect("open"));
    {
        let mut tx = db.begin_write();
        tx.get_or_create_label("N").unwrap();
        tx.get_or_create_rel_type("R").unwrap();
        tx.commit().unwrap();
    }
    let universe: u32 = hist.iter().map(|o| if let WOp::Commit(x) = o { x.nodes.len() as u32 } else { 0 }).sum();
    let n = 1 + readers.len();
    let baton = Baton::new(n);
    baton.set_filter(0, &["w.op", "commit.*", "compact.*"]);
    for r in 1..n {
        baton.set_filter(r, &["r.start", "snap.*", "r.acquired", "r.readdone"]);
    }
    baton.install();
    let obs: Arc<Mutex<Vec<(usize, View)>>> = Arc::new(Mutex::new(vec![]));
    let mut handles = vec![];
    {
        let db = db.clone();
        let hist = hist.to_vec();
        let b = baton.clone();
        handles.push(baton.spawn(0, move || {
            for o in &hist {
                b.point("w.op");
                match o {
                    WOp::Commit(x) => {
                        let mut tx = db.begin_write();
                        let l = tx.get_or_create_label("N").unwrap();
                        let rel = tx.get_or_create_rel_type("R").unwrap();
                        for nd in &x.nodes {
                            let iid = tx.create_node(*nd as u64, l).unwrap();
                            assert_eq!(iid, nd - 1, "internal id of node {}", nd);
                        }
                        for (nd, v) in x.props.iter().rev() {
                            tx.set_node_property(nd - 1, "p".to_string(), PropertyValue::Int(*v)).unwrap();
                        }
                        for (a, b2) in &x.edges {
                            tx.create_edge(a - 1, rel, b2 - 1);
                        }
                        tx.commit().unwrap();
                    }
                    WOp::Compact => db.compact().unwrap(),
                }
            }
        }));
    }
    for r in 1..n {
        let db = db.clone();
        let b = baton.clone();
        let reads = readers[r - 1];
        let obs = obs.clone();
        handles.push(baton.spawn(r, move || {
            b.point("r.start");
            let snap = db.snapshot();
            b.point("r.acquired");
            for k in 0..reads {
                let v = read_view(&snap, universe);
                obs.lock().unwrap().push((r, v));
                if k + 1 < reads {
                    b.point("r.readdone");
                }
            }
        }));
    }
    for t in 0..n {
        match baton.wait_parked(t) {
            Reached::Parked("w.op") | Reached::Parked("r.start") | Reached::Finished => {}
            r => return Err(format!("thread {} first reached {:?}", t, r)),
        }
    }
    Ok(Scenario { _dir: dir, baton, handles, obs, n })
}

impl Scenario {
    fn finish(self) -> Vec<(usize, View)> {
        self.baton.free_run();
        for h in self.handles {
            let _ = h.join();
        }
        Baton::uninstall();
        let o = self.obs.lock().unwrap().clone();
        o
    }
    /// run thread t through the given points, one after the other
    fn through(&self, t: usize, pts: &[&str]) -> Result<(), String> {
        for p in pts {
            match self.baton.step(t) {
                Reached::Parked(q) if q == *p => {}
                r => return Err(format!("thread {} expected {}, reached {:?}", t, p, r)),
            }
        }
        Ok(())
    }
}

struct Outcome {
    obs: Vec<(usize, View)>,
    safe: Vec<bool>,
    acq_j: Vec<usize>, // per observation: operations published when its snapshot was acquired
    executed: Vec<usize>,
    anomaly: Option<String>,
}

fn drive(hist: &[WOp], readers: &[usize], sched: &[usize]) -> Outcome {
    let sc = match start(hist, readers) {
        Ok(s) => s,
        Err(e) => return Outcome { obs: vec![], safe: vec![], acq_j: vec![], executed: vec![], anomaly: Some(e) },
    };
    let n = sc.n;
    let wsteps: Vec<(&str, &[&str])> = hist.iter().flat_map(|o| op_steps(o)).collect();
    let mut wpc = 0usize; // writer: model steps executed
    let mut published = 0usize; // operations whose publication completed
    let mut sinks = 0usize;
    let mut root = false;
    let mut rpc = vec![0usize; n];
    let mut r_j = vec![0usize; n];
    let mut r_sinks = vec![0usize; n];
    let mut r_root = vec![false; n];
    let mut executed = vec![];
    let mut anomaly: Option<String> = None;
    let mut safe = vec![];
    let mut acq_j = vec![];
    for &t in sched {
        executed.push(t);
        if anomaly.is_some() || t >= n || sc.baton.is_finished(t) {
            continue;
        }
        if t == 0 {
            if wpc >= wsteps.len() {
                continue;
            }
            let (name, pts) = wsteps[wpc];
            if let Err(e) = sc.through(0, pts) {
                anomaly = Some(e);
                continue;
            }
            wpc += 1;
            match name {
                "CSink" => sinks += 1,
                "WPublish" | "CPublish" => {
                    published += 1;
                    if name == "CPublish" {
                        root = true;
                    }
                    // back to the harness code between two operations (or the end of the thread)
                    match sc.baton.step(0) {
                        Reached::Parked("w.op") | Reached::Finished => {}
                        r => anomaly = Some(format!("writer after an operation reached {:?}", r)),
                    }
                }
                _ => {}
            }
        } else if rpc[t] == 0 {
            if let Err(e) = sc.through(t, RACQUIRE) {
                anomaly = Some(e);
                continue;
            }
            r_j[t] = published;
            r_sinks[t] = sinks;
            r_root[t] = root;
            rpc[t] = 1;
        } else if rpc[t] <= readers[t - 1] {
            match sc.baton.step(t) {
                Reached::Parked("r.readdone") | Reached::Finished => {
                    safe.push(!r_root[t] || sinks == r_sinks[t]);
                    acq_j.push(r_j[t]);
                }
                r => anomaly = Some(format!("reader {} in a read reached {:?}", t, r)),
            }
            rpc[t] += 1;
        }
    }
    let mut obs = sc.finish();
    obs.truncate(safe.len()); // reads performed in the free run after the schedule are not part of the case
    Outcome { obs, safe, acq_j, executed, anomaly }
}

/// the publication lock on the real code: an acquisition cannot start inside a publication section and a
/// publication section cannot start inside an acquisition
fn probes() -> Vec<(String, Result<(), String>)> {
    let tx1 = Tx { nodes: vec![1], props: vec![(1, 5)], edges: vec![(1, 1)] };
    let short = std::time::Duration::from_millis(400);
    let long = std::time::Duration::from_secs(20);
    let mut out = vec![];
    // (i) writer parked inside the commit's publication section
    let r = (|| -> Result<(), String> {
        let sc = start(&[WOp::Commit(tx1.clone())], &[1])?;
        sc.through(0, WLOG)?;
        sc.through(0, &["commit.idmap"])?;
        let res = match sc.baton.step_probe(1, short) {
            Reached::Stuck => {
                sc.through(0, &["commit.node_labels", "commit.run"])?;
                match sc.baton.wait_parked_for(1, long) {
                    Reached::Parked("snap.i2e") => Ok(()),
                    r => Err(format!("after the publication section the reader reached {:?}", r)),
                }
            }
            r => Err(format!("a snapshot acquisition started inside a commit's publication section (reader reached {:?} while the writer is parked at commit.idmap): snapshots can be torn", r)),
        };
        sc.finish();
        res
    })();
    out.push(("reader-blocked-by-commit-publication".to_string(), r));
    // (ii) writer parked inside the compaction's publication section
    let r = (|| -> Result<(), String> {
        let sc = start(&[WOp::Commit(tx1.clone()), WOp::Compact], &[1])?;
        sc.through(0, WLOG)?;
        sc.through(0, WPUBLISH)?;
        sc.baton.step(0);
        sc.through(0, &["compact.persisted", "compact.sunk", "compact.logged", "compact.props_root", "compact.stats_root", "compact.runs_cleared"])?;
        let res = match sc.baton.step_probe(1, short) {
            Reached::Stuck => {
                sc.through(0, &["compact.segments"])?;
                match sc.baton.wait_parked_for(1, long) {
                    Reached::Parked("snap.i2e") => Ok(()),
                    r => Err(format!("after the publication section the reader reached {:?}", r)),
                }
            }
            r => Err(format!("a snapshot acquisition started between clear_runs and install_segments (reader reached {:?}): relationships can be lost", r)),
        };
        sc.finish();
        res
    })();
    out.push(("reader-blocked-by-compaction-publication".to_string(), r));
    // (iii) reader parked inside its acquisition
    let r = (|| -> Result<(), String> {
        let sc = start(&[WOp::Commit(tx1.clone())], &[1])?;
        sc.through(0, WLOG)?;
        sc.through(1, &["snap.i2e", "snap.runs"])?;
        let res = match sc.baton.step_probe(0, short) {
            Reached::Stuck => {
                sc.through(1, &["snap.segments", "snap.labels", "snap.node_labels", "snap.props_root", "r.acquired"])?;
                match sc.baton.wait_parked_for(0, long) {
                    Reached::Parked("commit.idmap") => Ok(()),
                    r => Err(format!("after the acquisition the writer reached {:?}", r)),
                }
            }
            r => Err(format!("a commit's publication section started inside a snapshot acquisition (writer reached {:?} while the reader is parked at snap.runs): snapshots can be torn", r)),
        };
        sc.finish();
        res
    })();
    out.push(("writer-blocked-by-acquisition".to_string(), r));
    out
}

fn gen_history(r: &mut Rng, ops: usize) -> Vec<WOp> {
    let mut h = vec![];
    let mut next = 1u32;
    let mut since_compact = 0;
    for _ in 0..ops {
        if since_compact > 0 && r.chance(1, 3) {
            h.push(WOp::Compact);
            since_compact = 0;
            continue;
        }
        let mut x = Tx { nodes: vec![], props: vec![], edges: vec![] };
        for _ in 0..r.below(3) {
            x.nodes.push(next);
            next += 1;
        }
        if next == 1 {
            x.nodes.push(next);
            next += 1;
        }
        let existing = next - 1;
        let mut seen = BTreeSet::new();
        for _ in 0..1 + r.below(2) {
            let nd = 1 + r.below(existing as u64) as u32;
            if seen.insert(nd) {
                x.props.push((nd, r.range(1, 9)));
            }
        }
        for _ in 0..r.below(3) {
            x.edges.push((1 + r.below(existing as u64) as u32, 1 + r.below(existing as u64) as u32));
        }
        x.edges.sort();
        x.edges.dedup();
        h.push(WOp::Commit(x));
        since_compact += 1;
    }
    h
}

fn main() {
    let a = args();
    quiet_panics();
    let mut r = Rng::new(a.seed);
    let mut cw = CaseWriter::new(&a.out, "Corr.C03", 120);
    let mut rep = Report::new(&a.out);
    let mut hist = BTreeMap::<String, u64>::new();
    let mut nontrivial = BTreeSet::<(Vec<WOp>, Vec<usize>, Vec<usize>)>::new();
    let mut fails = 0u64;

    // ---- the publication lock really excludes what the model treats as atomic
    for (name, res) in probes() {
        *hist.entry(format!("probe:{}:{}", name, if res.is_ok() { "blocked" } else { "NOT-blocked" })).or_insert(0) += 1;
        if let Err(e) = res {
            fails += 1;
            rep.fail(0, None, &e, json!({"probe": name}));
        }
    }

    let tx1 = Tx { nodes: vec![1], props: vec![(1, 5)], edges: vec![(1, 1)] };
    let tx2 = Tx { nodes: vec![], props: vec![(1, 6)], edges: vec![] };
    let inplace_h = vec![WOp::Commit(tx1.clone()), WOp::Compact, WOp::Commit(tx2.clone()), WOp::Compact];
    let mut cases: Vec<(String, Vec<WOp>, Vec<usize>, Vec<usize>)> = vec![];
    // corpus = the witness / examples of Conc/Snapshot_proofs.v
    cases.push(("corpus:inplace".into(), inplace_h.clone(), vec![3], [vec![0; 6], vec![1, 1], vec![0; 2], vec![1], vec![0; 2], vec![1]].concat()));
    cases.push(("corpus:three-readers".into(), inplace_h.clone(), vec![1, 1, 2], vec![0, 1, 0, 2, 2, 1, 0, 0, 0, 0, 3, 3, 0, 0, 3]));
    // all interleavings of the in-place history (12 writer steps) with one reader (acquire + 2 reads): 455
    let all = interleavings(&[12, 3]);
    let exhaustive = a.tier == "thorough" || a.n >= 600;
    for (i, s) in all.into_iter().enumerate() {
        if exhaustive || i % 4 == 0 {
            cases.push(("exhaustive:inplace-history-x-reader".into(), inplace_h.clone(), vec![2], s));
        }
    }
    while cases.len() < a.n {
        let nops = 2 + r.below(5) as usize;
        let h = gen_history(&mut r, nops);
        let nr = 1 + r.below(3) as usize;
        let readers: Vec<usize> = (0..nr).map(|_| 1 + r.below(3) as usize).collect();
        let mut sched: Vec<usize> = vec![0; steps_of(&h)];
        for (i, k) in readers.iter().enumerate() {
            sched.extend(std::iter::repeat(i + 1).take(1 + k));
        }
        for i in (1..sched.len()).rev() {
            let j = r.below(i as u64 + 1) as usize;
            sched.swap(i, j);
        }
        if r.chance(1, 8) {
            let cut = r.below(sched.len() as u64 + 1) as usize;
            sched.truncate(cut);
        }
        cases.push(("generated".into(), h, readers, sched));
    }

    let mut idx = 0usize;
    let mut known_seen = false;
    for (tag, h, readers, sched) in cases {
        let o = drive(&h, &readers, &sched);
        *hist.entry(format!("kind:{}", tag.split(':').next().unwrap())).or_insert(0) += 1;
        *hist.entry(format!("readers:{}", readers.len())).or_insert(0) += 1;
        *hist.entry(format!("ops:{}", h.len())).or_insert(0) += 1;
        let input = json!({"tag": tag, "history": h.iter().map(|o| format!("{:?}", o)).collect::<Vec<_>>(), "reads_per_reader": readers,
            "schedule": o.executed, "observations": o.obs.iter().map(|(t, v)| format!("{}:{:?}", t, v)).collect::<Vec<_>>(), "safe": o.safe});
        if idx < 5 {
            rep.case(idx, input.clone());
        }
        if let Some(an) = &o.anomaly {
            fails += 1;
            rep.fail(idx, None, &format!("driver anomaly: {}", an), input.clone());
        }
        for (i, (t, v)) in o.obs.iter().enumerate() {
            let expect = spec_view(&h, o.acq_j[i]);
            if *v == expect {
                *hist.entry(if o.safe[i] { "read:safe".into() } else { "read:unsafe-but-equal".into() }).or_insert(0) += 1;
                continue;
            }
            if o.safe[i] {
                fails += 1;
                rep.fail(idx, None, &format!("reader {} (snapshot taken after {} published operations, no sink step since) sees {:?} instead of {:?}", t, o.acq_j[i], v, expect), input.clone());
            } else {
                *hist.entry("finding:inplace".into()).or_insert(0) += 1;
                if !known_seen {
                    known_seen = true;
                    rep.fail(idx, Some("K-C03-inplace"), &format!("reader {}'s snapshot (taken after {} published operations) shows {:?} after a later compaction sank properties in place; committed state at acquisition {:?}", t, o.acq_j[i], v, expect), input.clone());
                }
            }
        }
        if o.safe.iter().any(|b| !*b) || o.acq_j.iter().any(|j| *j > 0 && *j < h.len()) {
            nontrivial.insert((h.clone(), readers.clone(), o.executed.clone()));
        }
        cw.push(format!(
            "{{| hist := {}; readers := {}; sched := {}; impl_obs := {}; impl_safe := {} |}}",
            coq_list(&h, coq_wop),
            coq_list(&readers, |k| format!("{}%nat", k)),
            coq_list(&o.executed, |t| format!("{}%nat", t)),
            coq_list(&o.obs, |(t, v)| format!("({}%nat, {})", t, coq_view(v))),
            coq_list(&o.safe, |b| coq_bool(*b).to_string())
        ));
        idx += 1;
    }
    cw.flush();
    rep.stats(json!({
        "evaluations": idx,
        "distinct_nontrivial": nontrivial.len(),
        "rule": "3 lock probes; writer histories of 2-6 commits/compactions (1-2 property sets, 0-2 new nodes, 0-2 relationships per transaction) against 1-3 readers with 1-3 reads, random interleavings of the model steps incl. prefixes; corpus; interleavings of the 12 writer steps of commit-compact-commit-compact with one reader's acquire + 2 reads (all 455 in the thorough tier / n>=600, every 4th otherwise); non-trivial = a snapshot taken strictly inside the history or an unsafe read, distinct by (history, readers, schedule)",
        "histogram": hist,
        "direct_failures": fails,
        "case_files": cw.files.iter().map(|p| p.to_string_lossy().to_string()).collect::<Vec<_>>(),
    }));
    rep.finish();
}
