//! C03 — snapshot acquisition and reads against the publication steps of commit and
//! compaction, on the real engine, driven by explicit schedules through the schedule
//! points (`commit.*`, `compact.*`, `snap.*`).
//!
//! Thread 0 is the writer (a history of commits / compactions through `Db`), threads 1..
//! are readers (`Db::snapshot()` then k full reads).  One schedule entry = one model step
//! = the code between two points.  Every observed view goes to the model (`Corr/C03.v`).
//! Direct search: every view must be the committed state after some prefix of the history
//! within the bounds given by the schedule, and all views of one snapshot must be equal;
//! failures are tagged K-C03-torn / K-C03-inplace only when the schedule satisfies the
//! class predicate.
use hx_conc::*;
use nervusdb::{Db, GraphSnapshot, PropertyValue};
use serde_json::json;
use std::collections::{BTreeMap, BTreeSet};
use std::sync::{Arc, Mutex};
use vh::*;

#[derive(Clone, Debug, PartialEq, Eq, PartialOrd, Ord)]
struct Tx {
    nodes: Vec<u32>,          // model node ids (= external ids), fresh, consecutive from 1 in creation order
    props: Vec<(u32, i64)>,   // (node, value) of property "p"
    edges: Vec<(u32, u32)>,
}
#[derive(Clone, Debug, PartialEq, Eq, PartialOrd, Ord)]
enum WOp {
    Commit(Tx),
    Compact,
}
#[derive(Clone, Debug, PartialEq, Eq, PartialOrd, Ord)]
struct View {
    nodes: Vec<u32>,
    labeled: Vec<bool>,
    props: Vec<Option<i64>>,
    edges: Vec<(u32, u32)>, // sorted
}

const COMMIT_POINTS: &[&str] = &["commit.logged", "commit.idmap", "commit.node_labels", "commit.run"];
const COMPACT_POINTS: &[&str] =
    &["compact.persisted", "compact.sunk", "compact.logged", "compact.props_root", "compact.stats_root", "compact.runs_cleared", "compact.segments"];
const ACQ_POINTS: &[&str] = &["snap.i2e", "snap.runs", "snap.segments", "snap.labels", "snap.node_labels", "snap.props_root", "r.acquired"];

fn coq_tx(x: &Tx) -> String {
    format!(
        "{{| t_nodes := {}; t_props := {}; t_edges := {} |}}",
        coq_list(&x.nodes, |n| format!("{}%nat", n)),
        coq_list(&x.props, |(n, v)| format!("({}%nat, {})", n, coq_z(*v as i128))),
        coq_list(&x.edges, |(a, b)| format!("({}%nat, {}%nat)", a, b))
    )
}
fn coq_wop(o: &WOp) -> String {
    match o {
        WOp::Commit(x) => format!("(WCommit {})", coq_tx(x)),
        WOp::Compact => "WCompact".into(),
    }
}
fn coq_view(v: &View) -> String {
    format!(
        "{{| v_nodes := {}; v_labeled := {}; v_props := {}; v_edges := {} |}}",
        coq_list(&v.nodes, |n| format!("{}%nat", n)),
        coq_list(&v.labeled, |b| coq_bool(*b).to_string()),
        coq_list(&v.props, |p| coq_opt(p, |z| coq_z(*z as i128))),
        coq_list(&v.edges, |(a, b)| format!("({}%nat, {}%nat)", a, b))
    )
}

/// the committed state after the first j operations, as a view
fn spec_view(h: &[WOp], j: usize) -> View {
    let mut nodes: Vec<u32> = vec![];
    let mut props: BTreeMap<u32, i64> = BTreeMap::new();
    let mut edges: Vec<(u32, u32)> = vec![];
    for o in &h[..j] {
        if let WOp::Commit(x) = o {
            nodes.extend(&x.nodes);
            // within one transaction the first entry for a node wins in the model (assoc); generated
            // transactions have at most one entry per node
            for (n, v) in x.props.iter().rev() {
                props.insert(*n, *v);
            }
            edges.extend(&x.edges);
        }
    }
    edges.sort();
    View { labeled: nodes.iter().map(|_| true).collect(), props: nodes.iter().map(|n| props.get(n).copied()).collect(), nodes, edges }
}

fn read_view(snap: &nervusdb::DbSnapshot, universe: u32) -> View {
    let iids: Vec<u32> = snap.nodes().collect();
    let nodes: Vec<u32> = iids.iter().map(|i| snap.resolve_external(*i).map(|e| e as u32).unwrap_or(0)).collect();
    let labeled = iids.iter().map(|i| snap.resolve_node_labels(*i).is_some()).collect();
    let props = iids
        .iter()
        .map(|i| match snap.node_property(*i, "p") {
            Some(PropertyValue::Int(v)) => Some(v),
            Some(_) => Some(i64::MIN),
            None => None,
        })
        .collect();
    let mut edges = vec![];
    for src in 0..universe {
        for e in snap.neighbors(src, None) {
            edges.push((e.src + 1, e.dst + 1));
        }
    }
    edges.sort();
    View { nodes, labeled, props, edges }
}

struct Outcome {
    obs: Vec<(usize, View)>,
    executed: Vec<usize>,
    anomaly: Option<String>,
    // per reader: (ops completed at first acquisition step, ops started at last acquisition step, torn class, root set at acquisition)
    windows: BTreeMap<usize, (usize, usize, bool, bool)>,
    // per observation (same order as obs): a sink step ran between the reader's acquisition and this read
    sink_before: Vec<bool>,
}

fn drive(hist: &[WOp], readers: &[usize], sched: &[usize]) -> Outcome {
    let dir = tempfile::tempdir().unwrap();
    let db = Arc::new(Db::open(dir.path().join("c03")).expect("open"));
    {
        // intern the label and the relationship type up front; the transaction itself is empty
        let tx = db.begin_write();
        let mut tx = tx;
        tx.get_or_create_label("N").unwrap();
        tx.get_or_create_rel_type("R").unwrap();
        tx.commit().unwrap();
    }
    let universe: u32 = hist.iter().map(|o| if let WOp::Commit(x) = o { x.nodes.len() as u32 } else { 0 }).sum();
    let n = 1 + readers.len();
    let baton = Baton::new(n);
    baton.set_filter(0, &["w.op", "commit.*", "compact.*"]);
    for r in 1..n {
        baton.set_filter(r, &["r.start", "snap.*", "r.acquired", "r.readdone"]);
    }
    baton.install();
    let obs: Arc<Mutex<Vec<(usize, View)>>> = Arc::new(Mutex::new(vec![]));
    let mut handles = vec![];
    {
        let db = db.clone();
        let hist = hist.to_vec();
        let b = baton.clone();
        handles.push(baton.spawn(0, move || {
            for o in &hist {
                b.point("w.op");
                match o {
                    WOp::Commit(x) => {
                        let mut tx = db.begin_write();
                        let l = tx.get_or_create_label("N").unwrap();
                        let rel = tx.get_or_create_rel_type("R").unwrap();
                        for nd in &x.nodes {
                            let iid = tx.create_node(*nd as u64, l).unwrap();
                            assert_eq!(iid, nd - 1, "internal id of node {}", nd);
                        }
                        for (nd, v) in x.props.iter().rev() {
                            tx.set_node_property(nd - 1, "p".to_string(), PropertyValue::Int(*v)).unwrap();
                        }
                        for (a, b2) in &x.edges {
                            tx.create_edge(a - 1, rel, b2 - 1);
                        }
                        tx.commit().unwrap();
                    }
                    WOp::Compact => db.compact().unwrap(),
                }
            }
        }));
    }
    for r in 1..n {
        let db = db.clone();
        let b = baton.clone();
        let reads = readers[r - 1];
        let obs = obs.clone();
        handles.push(baton.spawn(r, move || {
            b.point("r.start");
            let snap = db.snapshot();
            b.point("r.acquired");
            for k in 0..reads {
                let v = read_view(&snap, universe);
                obs.lock().unwrap().push((r, v));
                if k + 1 < reads {
                    b.point("r.readdone");
                }
            }
        }));
    }
    let mut anomaly = None;
    for t in 0..n {
        match baton.wait_parked(t) {
            Reached::Parked("w.op") | Reached::Parked("r.start") | Reached::Finished => {}
            r => anomaly = Some(format!("thread {} first reached {:?}", t, r)),
        }
    }
    // controller state mirroring the model's program counters
    let mut wop = 0usize; // index of the writer's current operation
    let mut wpos = 0usize; // steps of it already executed
    let mut rpos = vec![0usize; n]; // reader: steps executed (7 acquisition steps, then reads)
    let mut executed = vec![];
    let mut windows: BTreeMap<usize, (usize, usize, bool, bool)> = BTreeMap::new();
    let mut writer_steps_total = 0usize;
    let mut first_acq_wsteps = vec![0usize; n];
    let mut root_set = false;
    let mut sinks_done = 0usize;
    let mut sinks_at_acq = vec![0usize; n];
    let mut sink_before = vec![];
    for &t in sched {
        executed.push(t);
        if anomaly.is_some() || t >= n || baton.is_finished(t) {
            continue;
        }
        if t == 0 {
            let pts: &[&str] = match &hist[wop] {
                WOp::Commit(_) => COMMIT_POINTS,
                WOp::Compact => COMPACT_POINTS,
            };
            match baton.step(0) {
                Reached::Parked(p) if p == pts[wpos] => {
                    writer_steps_total += 1;
                    if p == "compact.sunk" {
                        sinks_done += 1;
                    }
                    if p == "compact.props_root" {
                        root_set = true;
                    }
                    wpos += 1;
                    if wpos == pts.len() {
                        wpos = 0;
                        wop += 1;
                        match baton.step(0) {
                            Reached::Parked("w.op") | Reached::Finished => {}
                            r => anomaly = Some(format!("writer after an operation reached {:?}", r)),
                        }
                    }
                }
                r => anomaly = Some(format!("writer expected {}, reached {:?}", pts[wpos], r)),
            }
        } else {
            let k = rpos[t];
            if k == 0 {
                windows.insert(t, (wop, 0, wpos != 0, false));
                first_acq_wsteps[t] = writer_steps_total;
            }
            let r = baton.step(t);
            if k < ACQ_POINTS.len() {
                if r != Reached::Parked(ACQ_POINTS[k]) && !(k + 1 == ACQ_POINTS.len() && r == Reached::Finished) {
                    anomaly = Some(format!("reader {} expected {}, reached {:?}", t, ACQ_POINTS[k], r));
                }
                if k == 5 {
                    // RRoot done: the window closes here (RStats has no effect on the view)
                    let w = windows.get_mut(&t).unwrap();
                    w.1 = wop + if wpos != 0 { 1 } else { 0 };
                    w.2 = w.2 || writer_steps_total != first_acq_wsteps[t];
                    w.3 = root_set;
                    sinks_at_acq[t] = sinks_done;
                }
            } else {
                match r {
                    Reached::Parked("r.readdone") | Reached::Finished => sink_before.push(sinks_done != sinks_at_acq[t]),
                    r => anomaly = Some(format!("reader {} in a read reached {:?}", t, r)),
                }
            }
            rpos[t] += 1;
        }
    }
    baton.free_run();
    for h in handles {
        let _ = h.join();
    }
    Baton::uninstall();
    // reads performed after the schedule ended (free run) are not part of the case
    let mut o = obs.lock().unwrap().clone();
    o.truncate(sink_before.len());
    Outcome { obs: o, executed, anomaly, windows, sink_before }
}

fn gen_history(r: &mut Rng, ops: usize) -> Vec<WOp> {
    let mut h = vec![];
    let mut next = 1u32;
    let mut since_compact = 0;
    for _ in 0..ops {
        if since_compact > 0 && r.chance(1, 3) {
            h.push(WOp::Compact);
            since_compact = 0;
            continue;
        }
        let mut x = Tx { nodes: vec![], props: vec![], edges: vec![] };
        for _ in 0..r.below(3) {
            x.nodes.push(next);
            next += 1;
        }
        if next == 1 {
            x.nodes.push(next);
            next += 1;
        }
        let existing = next - 1;
        let mut seen = BTreeSet::new();
        for _ in 0..1 + r.below(2) {
            let nd = 1 + r.below(existing as u64) as u32;
            if seen.insert(nd) {
                x.props.push((nd, r.range(1, 9)));
            }
        }
        for _ in 0..r.below(3) {
            x.edges.push((1 + r.below(existing as u64) as u32, 1 + r.below(existing as u64) as u32));
        }
        x.edges.sort();
        x.edges.dedup();
        h.push(WOp::Commit(x));
        since_compact += 1;
    }
    h
}
fn steps_of(h: &[WOp]) -> usize {
    h.iter().map(|o| if let WOp::Commit(_) = o { 4 } else { 7 }).sum()
}

fn main() {
    let a = args();
    quiet_panics();
    let mut r = Rng::new(a.seed);
    let mut cw = CaseWriter::new(&a.out, "Corr.C03", 120);
    let mut rep = Report::new(&a.out);
    let mut hist = BTreeMap::<String, u64>::new();
    let mut nontrivial = BTreeSet::<(Vec<WOp>, Vec<usize>, Vec<usize>)>::new();
    let mut fails = 0u64;

    let tx1 = Tx { nodes: vec![1], props: vec![(1, 5)], edges: vec![(1, 1)] };
    let tx2 = Tx { nodes: vec![], props: vec![(1, 6)], edges: vec![] };
    let mut cases: Vec<(String, Vec<WOp>, Vec<usize>, Vec<usize>)> = vec![];
    // corpus = the witnesses of Props/C03.v
    cases.push(("corpus:torn-commit".into(), vec![WOp::Commit(tx1.clone())], vec![1], vec![0, 0, 1, 1, 1, 1, 1, 1, 1, 1, 0, 0]));
    cases.push(("corpus:torn-compact-lost".into(), vec![WOp::Commit(tx1.clone()), WOp::Compact], vec![1],
        [vec![0; 10], vec![1; 8], vec![0]].concat()));
    cases.push(("corpus:torn-compact-doubled".into(), vec![WOp::Commit(tx1.clone()), WOp::Compact], vec![1],
        [vec![0; 4], vec![1; 2], vec![0; 7], vec![1; 6]].concat()));
    let inplace_h = vec![WOp::Commit(tx1.clone()), WOp::Compact, WOp::Commit(tx2.clone()), WOp::Compact];
    cases.push(("corpus:inplace".into(), inplace_h.clone(), vec![3],
        [vec![0; 11], vec![1; 7], vec![1], vec![0; 4], vec![1], vec![0; 7], vec![1]].concat()));
    cases.push(("corpus:quiescent".into(), inplace_h.clone(), vec![1], [vec![0; 11], vec![1; 8]].concat()));
    // all interleavings of one commit (4 steps) with one acquisition + read (8 steps): 495
    let exhaustive = a.tier == "thorough" || a.n >= 600;
    let all = interleavings(&[4, 8]);
    for (i, s) in all.into_iter().enumerate() {
        if exhaustive || i % 4 == 0 {
            cases.push(("exhaustive:commit-x-acquire".into(), vec![WOp::Commit(tx1.clone())], vec![1], s));
        }
    }
    // one compaction (7 steps, after a commit) against one acquisition + read: 6435 interleavings, sampled
    let comp = interleavings(&[7, 8]);
    let take = if a.tier == "thorough" { 1500 } else { 150 };
    for _ in 0..take {
        let s = r.pick(&comp).clone();
        cases.push(("sampled:compact-x-acquire".into(), vec![WOp::Commit(tx1.clone()), WOp::Compact], vec![1], [vec![0; 4], s].concat()));
    }
    while cases.len() < a.n {
        if r.chance(1, 6) {
            // in-place family: a snapshot acquired after a compaction is held across later commits and compactions
            let v1 = r.range(1, 9);
            let v2 = r.range(1, 9);
            let h = vec![
                WOp::Commit(Tx { nodes: vec![1, 2], props: vec![(1, v1), (2, v1 + 1)], edges: vec![(1, 2)] }),
                WOp::Compact,
                WOp::Commit(Tx { nodes: vec![3], props: vec![(if r.chance(1, 2) { 1 } else { 2 }, v2)], edges: vec![(3, 1)] }),
                WOp::Compact,
            ];
            let reads = 2 + r.below(2) as usize;
            let mut tail: Vec<usize> = vec![0; 11];
            for _ in 0..reads {
                let q = r.below(tail.len() as u64 + 1) as usize;
                tail.insert(q, 1);
            }
            cases.push(("generated-inplace".into(), h, vec![reads], [vec![0; 11], vec![1; 7], tail].concat()));
            continue;
        }
        let nops = 2 + r.below(4) as usize;
        let h = gen_history(&mut r, nops);
        let nr = 1 + r.below(2) as usize;
        let readers: Vec<usize> = (0..nr).map(|_| 1 + r.below(3) as usize).collect();
        let mut sched: Vec<usize> = vec![0; steps_of(&h)];
        for (i, k) in readers.iter().enumerate() {
            sched.extend(std::iter::repeat(i + 1).take(7 + k));
        }
        match r.below(3) {
            0 => {
                // fully random interleaving
                for i in (1..sched.len()).rev() {
                    let j = r.below(i as u64 + 1) as usize;
                    sched.swap(i, j);
                }
            }
            _ => {
                // bursty: readers acquire in one go at a random position (often quiescent), reads spread out
                let mut s: Vec<usize> = vec![0; steps_of(&h)];
                for (i, k) in readers.iter().enumerate() {
                    let p = r.below(s.len() as u64 + 1) as usize;
                    for _ in 0..7 {
                        s.insert(p, i + 1);
                    }
                    for _ in 0..*k {
                        let q = p + 7 + r.below((s.len() - p - 7) as u64 + 1) as usize;
                        s.insert(q, i + 1);
                    }
                }
                sched = s;
            }
        }
        cases.push(("generated".into(), h, readers, sched));
    }

    let mut idx = 0usize;
    let mut known_seen = BTreeSet::new();
    for (tag, h, readers, sched) in cases {
        let o = drive(&h, &readers, &sched);
        *hist.entry(format!("kind:{}", tag.split(':').next().unwrap())).or_insert(0) += 1;
        *hist.entry(format!("readers:{}", readers.len())).or_insert(0) += 1;
        *hist.entry(format!("ops:{}", h.len())).or_insert(0) += 1;
        let input = json!({"tag": tag, "history": h.iter().map(|o| format!("{:?}", o)).collect::<Vec<_>>(), "reads_per_reader": readers,
            "schedule": o.executed, "observations": o.obs.iter().map(|(t, v)| format!("{}:{:?}", t, v)).collect::<Vec<_>>()});
        if idx < 5 {
            rep.case(idx, input.clone());
        }
        if let Some(an) = &o.anomaly {
            fails += 1;
            rep.fail(idx, None, &format!("driver anomaly: {}", an), input.clone());
        }
        // direct property
        let mut first: BTreeMap<usize, View> = BTreeMap::new();
        let mut interesting = false;
        for (i, (t, v)) in o.obs.iter().enumerate() {
            let (lo, hi, torn_class, root_at_acq) = o.windows.get(t).copied().unwrap_or((0, h.len(), false, false));
            if torn_class {
                interesting = true;
            }
            match first.get(t) {
                None => {
                    first.insert(*t, v.clone());
                    let okj = (lo..=hi.min(h.len())).any(|j| spec_view(&h, j) == *v);
                    if !okj {
                        // the first read itself may come after a sink step that rewrote the tree in place
                        let class = if torn_class { Some("K-C03-torn") } else if o.sink_before[i] && root_at_acq { Some("K-C03-inplace") } else { None };
                        if let Some(c) = class {
                            *hist.entry(format!("finding:{}", &c[6..])).or_insert(0) += 1;
                            interesting = true;
                            if !known_seen.insert(c) {
                                continue;
                            }
                        } else {
                            fails += 1;
                        }
                        rep.fail(idx, class, &format!("reader {} sees {:?}, which is not the committed state after any prefix of length {}..{}", t, v, lo, hi), input.clone());
                    }
                }
                Some(f) => {
                    if f != v {
                        let inplace_class = o.sink_before[i] && root_at_acq;
                        let class = if inplace_class { Some("K-C03-inplace") } else if torn_class && o.sink_before[i] { Some("K-C03-torn") } else { None };
                        interesting = true;
                        if let Some(c) = class {
                            *hist.entry(format!("finding:{}", &c[6..])).or_insert(0) += 1;
                            if !known_seen.insert(c) {
                                continue;
                            }
                        } else {
                            fails += 1;
                        }
                        rep.fail(idx, class, &format!("reader {}'s snapshot changed: first read {:?}, later read {:?}", t, f, v), input.clone());
                    }
                }
            }
        }
        if interesting || o.sink_before.iter().any(|b| *b) {
            nontrivial.insert((h.clone(), readers.clone(), o.executed.clone()));
        }
        cw.push(format!(
            "{{| hist := {}; readers := {}; sched := {}; impl_obs := {} |}}",
            coq_list(&h, coq_wop),
            coq_list(&readers, |k| format!("{}%nat", k)),
            coq_list(&o.executed, |t| format!("{}%nat", t)),
            coq_list(&o.obs, |(t, v)| format!("({}%nat, {})", t, coq_view(v)))
        ));
        idx += 1;
    }
    cw.flush();
    rep.stats(json!({
        "evaluations": idx,
        "distinct_nontrivial": nontrivial.len(),
        "rule": "writer histories of 1-5 commits/compactions (1-2 property sets, 0-2 new nodes, 0-2 relationships per transaction) against 1-2 readers with 1-3 reads; corpus witnesses, interleavings of one commit with one acquisition (all 495 in the thorough tier / n>=600, every 4th otherwise), sampled interleavings of one compaction with one acquisition, generated random and bursty schedules; non-trivial = the acquisition overlapped writer steps or a sink step ran during the snapshot's lifetime, distinct by (history, readers, schedule)",
        "histogram": hist,
        "direct_failures": fails,
        "case_files": cw.files.iter().map(|p| p.to_string_lossy().to_string()).collect::<Vec<_>>(),
    }));
    rep.finish();
}
