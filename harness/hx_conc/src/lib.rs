//! Shared pieces of the concurrency harness (C03 C09 C10 C35):
//!  * `Baton`: a deterministic scheduler.  Worker threads park at the named schedule
//!    points of the real code (`nervusdb_storage::verif::point`, compiled in with
//!    `--cfg nervusdb_verif`) and at harness-level points; the controller releases
//!    exactly one thread at a time and waits until it parks again or finishes, so a
//!    run is the sequential execution of the segments in the order of the schedule.
//!  * `LockLog`: collects the named lock-acquisition events (lock, held set).
//!  * thin safe wrappers over the C API.
use std::cell::Cell;
use std::collections::BTreeSet;
use std::ffi::{CStr, CString};
use std::sync::{Arc, Condvar, Mutex};
use std::time::{Duration, Instant};

use nervusdb_storage::verif::{self, Event};

thread_local! {
    static TID: Cell<Option<usize>> = const { Cell::new(None) };
}

pub fn set_tid(t: Option<usize>) {
    TID.with(|c| c.set(t));
}
pub fn tid() -> Option<usize> {
    TID.with(|c| c.get())
}

#[derive(Debug, Clone, PartialEq, Eq)]
pub enum Reached {
    Parked(&'static str),
    Finished,
    Stuck,
}

struct Inner {
    at: Vec<Option<&'static str>>,
    go: Vec<bool>,
    finished: Vec<bool>,
    filter: Vec<Vec<&'static str>>, // per thread: point names (exact) or prefixes ending in '*'
    log: Vec<(usize, &'static str)>,
    free_run: bool,
}

pub struct Baton {
    inner: Mutex<Inner>,
    cv: Condvar,
    pub timeout: Duration,
}

fn matches(filter: &[&'static str], name: &str) -> bool {
    filter.iter().any(|f| if let Some(p) = f.strip_suffix('*') { name.starts_with(p) } else { *f == name })
}

impl Baton {
    pub fn new(nthreads: usize) -> Arc<Baton> {
        Arc::new(Baton {
            inner: Mutex::new(Inner {
                at: vec![None; nthreads],
                go: vec![false; nthreads],
                finished: vec![false; nthreads],
                filter: vec![vec![]; nthreads],
                log: vec![],
                free_run: false,
            }),
            cv: Condvar::new(),
            timeout: Duration::from_secs(20),
        })
    }

    /// install this baton as the observer of the code's schedule points
    pub fn install(self: &Arc<Self>) {
        let me = self.clone();
        verif::set_observer(Some(Arc::new(move |ev: Event<'_>| {
            if let Event::Point(name) = ev {
                me.point(name);
            }
        })));
    }
    pub fn uninstall() {
        verif::set_observer(None);
    }

    pub fn set_filter(&self, t: usize, f: &[&'static str]) {
        self.inner.lock().unwrap().filter[t] = f.to_vec();
    }

    /// let every parked and future thread run freely (used to drain a scenario)
    pub fn free_run(&self) {
        let mut g = self.inner.lock().unwrap();
        g.free_run = true;
        self.cv.notify_all();
    }

    /// called by worker threads (from the code's hooks or directly by harness code)
    pub fn point(&self, name: &'static str) {
        let Some(t) = tid() else { return };
        let mut g = self.inner.lock().unwrap();
        if t >= g.at.len() || g.free_run || !matches(&g.filter[t], name) {
            return;
        }
        g.at[t] = Some(name);
        g.log.push((t, name));
        self.cv.notify_all();
        while !g.go[t] && !g.free_run {
            g = self.cv.wait(g).unwrap();
        }
        g.go[t] = false;
        g.at[t] = None;
    }

    /// spawn worker `t`; it runs `f` and is marked finished afterwards (also on panic)
    pub fn spawn<F: FnOnce() + Send + 'static>(self: &Arc<Self>, t: usize, f: F) -> std::thread::JoinHandle<()> {
        let me = self.clone();
        std::thread::Builder::new()
            .stack_size(16 << 20)
            .spawn(move || {
                set_tid(Some(t));
                let r = std::panic::catch_unwind(std::panic::AssertUnwindSafe(f));
                let mut g = me.inner.lock().unwrap();
                g.finished[t] = true;
                if r.is_err() {
                    g.log.push((t, "PANIC"));
                }
                me.cv.notify_all();
            })
            .unwrap()
    }

    fn wait_for(&self, t: usize, need_consumed: bool) -> Reached {
        self.wait_for_until(t, need_consumed, self.timeout)
    }

    fn wait_for_until(&self, t: usize, need_consumed: bool, timeout: Duration) -> Reached {
        let deadline = Instant::now() + timeout;
        let mut g = self.inner.lock().unwrap();
        loop {
            if (!need_consumed || !g.go[t]) && g.at[t].is_some() {
                return Reached::Parked(g.at[t].unwrap());
            }
            if g.finished[t] {
                return Reached::Finished;
            }
            let now = Instant::now();
            if now >= deadline {
                return Reached::Stuck;
            }
            let (ng, _) = self.cv.wait_timeout(g, deadline - now).unwrap();
            g = ng;
        }
    }

    /// wait until worker `t` parks for the first time (or finishes)
    pub fn wait_parked(&self, t: usize) -> Reached {
        self.wait_for(t, false)
    }

    /// where worker `t` is parked now
    pub fn at(&self, t: usize) -> Option<&'static str> {
        self.inner.lock().unwrap().at[t]
    }
    pub fn is_finished(&self, t: usize) -> bool {
        self.inner.lock().unwrap().finished[t]
    }

    /// release worker `t` from its point and wait until it parks again or finishes
    pub fn step(&self, t: usize) -> Reached {
        {
            let mut g = self.inner.lock().unwrap();
            if g.finished[t] {
                return Reached::Finished;
            }
            assert!(g.at[t].is_some(), "step of a thread that is not parked");
            g.go[t] = true;
            self.cv.notify_all();
        }
        self.wait_for(t, true)
    }

    /// like `step`, but gives up after `timeout` (the thread keeps running: it is blocked somewhere
    /// between two points); `wait_parked_for` picks it up again later
    pub fn step_probe(&self, t: usize, timeout: Duration) -> Reached {
        {
            let mut g = self.inner.lock().unwrap();
            if g.finished[t] {
                return Reached::Finished;
            }
            assert!(g.at[t].is_some(), "step of a thread that is not parked");
            g.go[t] = true;
            self.cv.notify_all();
        }
        self.wait_for_until(t, true, timeout)
    }
    pub fn wait_parked_for(&self, t: usize, timeout: Duration) -> Reached {
        self.wait_for_until(t, true, timeout)
    }

    pub fn log(&self) -> Vec<(usize, &'static str)> {
        self.inner.lock().unwrap().log.clone()
    }
}

// ------------------------------------------------------------------ lock events

thread_local! {
    static CUR_OP: Cell<&'static str> = const { Cell::new("(none)") };
}
/// label the public operation the calling thread is about to perform (for the coverage table of C35)
pub fn set_op(name: &'static str) {
    CUR_OP.with(|c| c.set(name));
}

pub type Pattern = (Vec<&'static str>, &'static str);

#[derive(Default)]
pub struct LockLog {
    /// distinct acquisition patterns: (sorted held set, lock)
    pub patterns: Mutex<BTreeSet<Pattern>>,
    /// the same, per public operation during which they were observed
    pub by_op: Mutex<std::collections::BTreeMap<&'static str, BTreeSet<Pattern>>>,
    pub events: std::sync::atomic::AtomicU64,
}

impl LockLog {
    pub fn install(self: &Arc<Self>) {
        let me = self.clone();
        verif::set_observer(Some(Arc::new(move |ev: Event<'_>| {
            if let Event::Acquire { lock, held } = ev {
                me.events.fetch_add(1, std::sync::atomic::Ordering::Relaxed);
                let mut h: Vec<&'static str> = held.to_vec();
                h.sort();
                h.dedup();
                let op = CUR_OP.with(|c| c.get());
                {
                    let mut g = me.patterns.lock().unwrap();
                    if !g.contains(&(h.clone(), lock)) {
                        g.insert((h.clone(), lock));
                    }
                }
                let mut b = me.by_op.lock().unwrap();
                let e = b.entry(op).or_default();
                if !e.contains(&(h.clone(), lock)) {
                    e.insert((h, lock));
                }
            }
        })));
    }
}

// ------------------------------------------------------------------ C API wrappers

pub struct CDb(pub *mut ndb_capi::ndb_db_t);
unsafe impl Send for CDb {}
unsafe impl Sync for CDb {}

pub fn last_error() -> String {
    let mut buf = vec![0u8; 1024];
    let n = ndb_capi::ndb_last_error_message(buf.as_mut_ptr().cast(), buf.len());
    String::from_utf8_lossy(&buf[..n.min(buf.len())]).trim_end_matches('\0').to_string()
}

impl CDb {
    pub fn open(path: &std::path::Path) -> Result<CDb, String> {
        let p = CString::new(path.to_string_lossy().to_string()).unwrap();
        let mut db: *mut ndb_capi::ndb_db_t = std::ptr::null_mut();
        if ndb_capi::ndb_open(p.as_ptr(), &mut db) == ndb_capi::NDB_OK {
            Ok(CDb(db))
        } else {
            Err(last_error())
        }
    }
    pub fn exec(&self, cypher: &str) -> Result<u32, String> {
        let q = CString::new(cypher).unwrap();
        let mut n: u32 = 0;
        if ndb_capi::ndb_execute_write(self.0, q.as_ptr(), std::ptr::null(), &mut n) == ndb_capi::NDB_OK {
            Ok(n)
        } else {
            Err(last_error())
        }
    }
    pub fn query(&self, cypher: &str) -> Result<serde_json::Value, String> {
        let q = CString::new(cypher).unwrap();
        let mut res: *mut ndb_capi::ndb_result_t = std::ptr::null_mut();
        if ndb_capi::ndb_query(self.0, q.as_ptr(), std::ptr::null(), &mut res) != ndb_capi::NDB_OK {
            return Err(last_error());
        }
        let mut js: *mut std::os::raw::c_char = std::ptr::null_mut();
        let rc = ndb_capi::ndb_result_to_json(res, &mut js);
        let out = if rc == ndb_capi::NDB_OK {
            let s = unsafe { CStr::from_ptr(js) }.to_string_lossy().to_string();
            ndb_capi::ndb_string_free(js);
            serde_json::from_str(&s).map_err(|e| e.to_string())
        } else {
            Err(last_error())
        };
        ndb_capi::ndb_result_free(res);
        out
    }
    pub fn close(self) -> Result<(), String> {
        if ndb_capi::ndb_close(self.0) == ndb_capi::NDB_OK { Ok(()) } else { Err(last_error()) }
    }
}

/// all interleavings of threads with the given numbers of steps (each thread id t appears counts[t] times)
pub fn interleavings(counts: &[usize]) -> Vec<Vec<usize>> {
    fn go(rem: &mut Vec<usize>, cur: &mut Vec<usize>, out: &mut Vec<Vec<usize>>) {
        if rem.iter().all(|c| *c == 0) {
            out.push(cur.clone());
            return;
        }
        for t in 0..rem.len() {
            if rem[t] > 0 {
                rem[t] -= 1;
                cur.push(t);
                go(rem, cur, out);
                cur.pop();
                rem[t] += 1;
            }
        }
    }
    let mut out = vec![];
    go(&mut counts.to_vec(), &mut vec![], &mut out);
    out
}
