//! C26 — the on-disk B-tree as a sorted multimap: correspondence cases + direct search.
//!
//! Every history is run against the real `BTree` / `Pager` through the public API on a
//! file in a temp dir.  After every mutating step the property is tested directly
//! against a reference multimap (full scan as the callers scan, lookup of the touched
//! key, delete result), also after re-opening the pager.  The implementation's results,
//! the reference's results and the final page images (decoded here from the raw pages)
//! are written as Coq cases for the model.
use nervusdb_storage::PAGE_SIZE;
use nervusdb_storage::index::btree::BTree;
use nervusdb_storage::index::ordered_key::encode_index_key;
use nervusdb_storage::pager::{PageId, Pager};
use nervusdb_storage::property::PropertyValue as PV;
use serde_json::json;
use std::cmp::Ordering;
use std::collections::{BTreeMap, BTreeSet, HashMap};
use std::panic::AssertUnwindSafe;
use vh::*;

// ---------- page decoder (layout of btree.rs; a layout change shows up as a correspondence mismatch) ----------
#[derive(Clone, Debug, PartialEq)]
enum DPage {
    Leaf { cells: Vec<(Vec<u8>, u64)>, right: u64, begin: usize },
    Internal { leftmost: u64, cells: Vec<(Vec<u8>, u64)>, begin: usize },
    None,
}
fn u16le(b: &[u8], o: usize) -> usize {
    u16::from_le_bytes([b[o], b[o + 1]]) as usize
}
fn u64le(b: &[u8], o: usize) -> u64 {
    u64::from_le_bytes(b[o..o + 8].try_into().unwrap())
}
fn varint(b: &[u8]) -> (usize, usize) {
    let (mut v, mut sh, mut i) = (0usize, 0, 0);
    loop {
        v |= ((b[i] & 0x7F) as usize) << sh;
        if b[i] & 0x80 == 0 {
            return (v, i + 1);
        }
        sh += 7;
        i += 1;
    }
}
fn decode_page(b: &[u8; PAGE_SIZE]) -> DPage {
    if &b[0..4] != b"NDBI" {
        return DPage::None;
    }
    let count = u16le(b, 6);
    let begin = u16le(b, 8);
    match b[4] {
        0 => {
            let cells = (0..count)
                .map(|i| {
                    let off = u16le(b, 24 + 2 * i);
                    let (kl, vl) = varint(&b[off..]);
                    let ks = off + vl;
                    (b[ks..ks + kl].to_vec(), u64le(b, ks + kl))
                })
                .collect();
            DPage::Leaf { cells, right: u64le(b, 16), begin }
        }
        _ => {
            let cells = (0..count)
                .map(|i| {
                    let off = u16le(b, 32 + 2 * i);
                    let child = u64le(b, off);
                    let (kl, vl) = varint(&b[off + 8..]);
                    let ks = off + 8 + vl;
                    (b[ks..ks + kl].to_vec(), child)
                })
                .collect();
            DPage::Internal { leftmost: u64le(b, 24), cells, begin }
        }
    }
}
fn read_dpage(pager: &Pager, id: u64) -> DPage {
    match pager.read_page(PageId::new(id)) {
        Ok(b) => decode_page(&b),
        Err(_) => DPage::None,
    }
}
fn varint_len(n: usize) -> usize {
    let (mut v, mut k) = (n, 1);
    while v >= 0x80 {
        v >>= 7;
        k += 1;
    }
    k
}
fn leaf_cost(k: &[u8]) -> usize {
    varint_len(k.len()) + k.len() + 8 + 2
}
/// domain of the property's insert: the cell of the key takes at most half a page (larger keys can make a
/// leaf unsplittable in two; the code then refuses the insert with "index page: no space")
fn in_key_domain(k: &[u8]) -> bool {
    leaf_cost(k) <= (PAGE_SIZE - 24) / 2
}

// ---------- reference multimap (sorted by key, newest first among equal keys) ----------
#[derive(Default)]
struct Ref(Vec<(Vec<u8>, u64)>);
impl Ref {
    fn insert(&mut self, k: &[u8], v: u64) {
        let pos = self.0.partition_point(|(x, _)| x.as_slice() < k);
        self.0.insert(pos, (k.to_vec(), v));
    }
    fn delete(&mut self, k: &[u8], v: u64) -> bool {
        match self.0.iter().position(|(x, y)| x.as_slice() == k && *y == v) {
            Some(i) => {
                self.0.remove(i);
                true
            }
            None => false,
        }
    }
    fn from(&self, k: &[u8]) -> &[(Vec<u8>, u64)] {
        let pos = self.0.partition_point(|(x, _)| x.as_slice() < k);
        &self.0[pos..]
    }
    fn lookup(&self, k: &[u8]) -> Option<u64> {
        self.from(k).first().and_then(|(x, v)| if x.as_slice() == k { Some(*v) } else { None })
    }
    fn has_key(&self, k: &[u8]) -> bool {
        self.lookup(k).is_some()
    }
}

// ---------- histories ----------
#[derive(Clone, Debug)]
struct KeySpec {
    head: Vec<u8>,
    fill: u8,
    len: usize,
}
impl KeySpec {
    fn expand(&self) -> Vec<u8> {
        let mut k = self.head.clone();
        while k.len() < self.len {
            k.push(self.fill);
        }
        k
    }
    fn plain(b: Vec<u8>) -> Self {
        let len = b.len();
        KeySpec { head: b, fill: 0, len }
    }
}
#[derive(Clone, Debug)]
enum Op {
    Ins(usize, u64),
    Del(usize, u64),
    Look(usize),
    Scan(usize, usize),
    Reopen,
}
#[derive(Clone, Debug, PartialEq)]
enum Res {
    Unit,
    Bool(bool),
    Err(u8),
    Panic,
    Opt(Option<u64>),
    List(Vec<(Vec<u8>, u64)>),
}
struct History {
    profile: &'static str,
    keys: Vec<KeySpec>,
    ops: Vec<Op>,
}

/// the callers' scan loop (api.rs, read_path_property_store.rs, catalog.rs)
fn scan_impl(tree: &BTree, pager: &Pager, from: &[u8], lim: usize) -> Result<Vec<(Vec<u8>, u64)>, String> {
    let mut cur = tree.cursor_lower_bound(pager, from).map_err(|e| e.to_string())?;
    let mut out = Vec::new();
    while cur.is_valid().map_err(|e| e.to_string())? {
        if out.len() >= lim {
            break;
        }
        out.push((cur.key().map_err(|e| e.to_string())?, cur.payload().map_err(|e| e.to_string())?));
        if !cur.advance().map_err(|e| e.to_string())? {
            break;
        }
    }
    Ok(out)
}
/// read_node_property_from_store's lookup
fn lookup_impl(tree: &BTree, pager: &Pager, k: &[u8]) -> Result<Option<u64>, String> {
    let mut cur = tree.cursor_lower_bound(pager, k).map_err(|e| e.to_string())?;
    if cur.is_valid().map_err(|e| e.to_string())? {
        let got = cur.key().map_err(|e| e.to_string())?;
        if got == k {
            return Ok(Some(cur.payload().map_err(|e| e.to_string())?));
        }
    }
    Ok(None)
}
fn err_code(msg: &str) -> u8 {
    if msg.contains("index page: no space") { 0 } else { 1 }
}

struct Outcome {
    impl_res: Vec<Res>,
    ref_res: Vec<Res>,
    root: u64,
    pages: Vec<DPage>,
    dup: bool,
    /// first direct failure: (op index, class, what)
    fail: Option<(usize, Option<&'static str>, String)>,
    splits: usize,
    depth: usize,
}

fn run_history(h: &History) -> Outcome {
    let dir = tempfile::tempdir().unwrap();
    let path = dir.path().join("c26.ndb");
    let mut pager = Pager::open(&path).unwrap();
    let mut tree = BTree::create(&mut pager).unwrap();
    let keys: Vec<Vec<u8>> = h.keys.iter().map(|k| k.expand()).collect();
    let mut rf = Ref::default();
    let (mut impl_res, mut ref_res) = (Vec::new(), Vec::new());
    let mut dup = false;
    let mut fail: Option<(usize, Option<&'static str>, String)> = None;
    let mut diverged = false;
    for (i, op) in h.ops.iter().enumerate() {
        let mut check_key: Option<&[u8]> = None;
        let mut mutated = false;
        match op {
            Op::Ins(ki, v) => {
                let k = &keys[*ki];
                if rf.has_key(k) {
                    dup = true;
                }
                let r = catch(AssertUnwindSafe(|| tree.insert(&mut pager, k, *v)));
                rf.insert(k, *v);
                ref_res.push(Res::Unit);
                let res = match r {
                    Ok(Ok(())) => Res::Unit,
                    Ok(Err(e)) => Res::Err(err_code(&e.to_string())),
                    Err(_) => Res::Panic,
                };
                if res != Res::Unit {
                    if in_key_domain(k) && fail.is_none() {
                        fail = Some((i, None, format!("insert of a {}-byte key did not succeed: {:?}", k.len(), res)));
                    }
                    // the reference keeps the entry, the tree does not: stop the direct comparison of this history
                    diverged = true;
                }
                impl_res.push(res);
                check_key = Some(k);
                mutated = true;
            }
            Op::Del(ki, v) => {
                let k = &keys[*ki];
                let r = catch(AssertUnwindSafe(|| tree.delete(&mut pager, k, *v)));
                let want = rf.delete(k, *v);
                ref_res.push(Res::Bool(want));
                let res = match r {
                    Ok(Ok(b)) => Res::Bool(b),
                    Ok(Err(e)) => Res::Err(err_code(&e.to_string())),
                    Err(_) => Res::Panic,
                };
                if res != Res::Bool(want) && fail.is_none() && !diverged {
                    let class = if dup { Some("K-C26-dups") } else { None };
                    fail = Some((i, class, format!("delete returned {:?}, the multimap says {}", res, want)));
                }
                impl_res.push(res);
                check_key = Some(k);
                mutated = true;
            }
            Op::Look(ki) => {
                let k = &keys[*ki];
                let want = rf.lookup(k);
                ref_res.push(Res::Opt(want));
                let res = match lookup_impl(&tree, &pager, k) {
                    Ok(o) => Res::Opt(o),
                    Err(e) => Res::Err(err_code(&e)),
                };
                impl_res.push(res);
                check_key = Some(k);
            }
            Op::Scan(ki, lim) => {
                let k = &keys[*ki];
                let want: Vec<_> = rf.from(k).iter().take(*lim).cloned().collect();
                let res = match scan_impl(&tree, &pager, k, *lim) {
                    Ok(l) => Res::List(l),
                    Err(e) => Res::Err(err_code(&e)),
                };
                if res != Res::List(want.clone()) && fail.is_none() && !diverged {
                    let class = classify_scan(dup);
                    fail = Some((i, class, format!("scan from a key returned {} entries, the multimap has {}", res_len(&res), want.len())));
                }
                ref_res.push(Res::List(want));
                impl_res.push(res);
            }
            Op::Reopen => {
                let root = tree.root();
                drop(pager);
                pager = Pager::open(&path).unwrap();
                tree = BTree::load(root);
                ref_res.push(Res::Unit);
                impl_res.push(Res::Unit);
                mutated = true; // re-check everything after the reopen
            }
        }
        // direct search: the property itself after every step
        if fail.is_none() && !diverged && (mutated || check_key.is_some()) {
            if let Some(k) = check_key {
                let got = lookup_impl(&tree, &pager, k);
                let want = rf.lookup(k);
                if got != Ok(want) {
                    let class = if dup { Some("K-C26-dups") } else { None };
                    fail = Some((i, class, format!("lookup returned {:?}, the newest stored payload is {:?}", got, want)));
                }
            }
            if fail.is_none() && mutated {
                let got = scan_impl(&tree, &pager, &[], usize::MAX);
                let res = match got {
                    Ok(l) => Res::List(l),
                    Err(e) => Res::Err(err_code(&e)),
                };
                if res != Res::List(rf.0.clone()) {
                    let class = classify_scan(dup);
                    fail = Some((i, class, format!("full scan returned {} entries / differs, the multimap has {}", res_len(&res), rf.0.len())));
                }
            }
        }
    }
    // final images through a re-opened pager
    let root = tree.root().as_u64();
    drop(pager);
    let pager = Pager::open(&path).unwrap();
    let npages = (std::fs::metadata(&path).unwrap().len() as usize / PAGE_SIZE) as u64;
    let pages: Vec<DPage> = (2..npages).map(|id| read_dpage(&pager, id)).collect();
    let splits = pages.iter().filter(|p| **p != DPage::None).count().saturating_sub(1);
    let mut depth = 1;
    let mut p = root;
    while let DPage::Internal { leftmost, .. } = read_dpage(&pager, p) {
        depth += 1;
        p = leftmost;
        if depth > 64 {
            break;
        }
    }
    Outcome { impl_res, ref_res, root, pages, dup, fail, splits, depth }
}
fn res_len(r: &Res) -> usize {
    match r {
        Res::List(l) => l.len(),
        _ => 0,
    }
}
/// a wrong scan is K-C26-dups only if a key was stored twice at the same time
fn classify_scan(dup: bool) -> Option<&'static str> {
    if dup { Some("K-C26-dups") } else { None }
}

// ---------- generators ----------
const SYM: &[u8] = b"abc";
fn head(r: &mut Rng, lo: i64, hi: i64) -> Vec<u8> {
    let n = r.range(lo, hi) as usize;
    (0..n).map(|_| *r.pick(SYM)).collect()
}
fn long_len(r: &mut Rng) -> usize {
    match r.below(4) {
        0 => r.range(1, 900) as usize,
        1 => *r.pick(&[126usize, 127, 128, 129, 899, 900]),
        _ => r.range(400, 900) as usize,
    }
}
/// mixed ops over a given key table; `pdel` in percent; inserts use fresh payloads mostly
fn mixed_ops(r: &mut Rng, nkeys: usize, n: usize, pdel: u64, allow_dup: bool) -> Vec<Op> {
    let mut ops = Vec::new();
    let mut live: Vec<(usize, u64)> = Vec::new();
    let mut next_payload = 1u64;
    for _ in 0..n {
        let x = r.below(100);
        if x < pdel && !live.is_empty() {
            // mostly a stored pair, sometimes a pair that is not stored
            if r.chance(9, 10) {
                let i = r.below(live.len() as u64) as usize;
                let (k, v) = live.swap_remove(i);
                ops.push(Op::Del(k, v));
            } else {
                ops.push(Op::Del(r.below(nkeys as u64) as usize, r.below(next_payload + 2)));
            }
        } else if x < pdel + 6 {
            ops.push(Op::Look(r.below(nkeys as u64) as usize));
        } else if x < pdel + 9 {
            ops.push(Op::Scan(r.below(nkeys as u64) as usize, *r.pick(&[1usize, 3, 20, 10000])));
        } else if x < pdel + 10 {
            ops.push(Op::Reopen);
        } else {
            let k = r.below(nkeys as u64) as usize;
            if !allow_dup && live.iter().any(|(kk, _)| *kk == k) {
                ops.push(Op::Look(k));
                continue;
            }
            // payloads: usually fresh and increasing, sometimes a repeat / a small one (equal pairs, unsorted payloads)
            let v = match r.below(10) {
                0 => r.below(next_payload + 1),
                _ => {
                    next_payload += 1;
                    next_payload
                }
            };
            live.push((k, v));
            ops.push(Op::Ins(k, v));
        }
    }
    ops.push(Op::Reopen);
    ops.push(Op::Scan(0, 10000));
    ops
}
fn gen_history(r: &mut Rng, quick: bool) -> History {
    let scale = if quick { 1 } else { 2 };
    match r.below(20) {
        // long runs of equal long keys: leaf and internal splits after a few inserts
        0..=3 => {
            let nk = r.range(1, 4) as usize;
            let keys = (0..nk)
                .map(|_| KeySpec { head: head(r, 1, 3), fill: *r.pick(SYM), len: long_len(r) })
                .collect();
            let n = r.range(30, 200 * scale) as usize;
            let pd = *r.pick(&[0u64, 10, 30]);
            History { profile: "dups-long", keys, ops: mixed_ops(r, nk, n, pd, true) }
        }
        // small alphabet, short keys: a leaf holds ~700 entries, so many ops
        4 => {
            let nk = r.range(1, 5) as usize;
            let keys = (0..nk).map(|_| KeySpec::plain(head(r, 1, 3))).collect();
            let n = r.range(700, 1100 * scale) as usize;
            let pd = *r.pick(&[0u64, 20]);
            History { profile: "dups-short", keys, ops: mixed_ops(r, nk, n, pd, true) }
        }
        // distinct long keys, never stored twice: the domain of the conditional theorem
        5..=9 => {
            let nk = r.range(20, 150 * scale) as usize;
            let len = if r.chance(1, 2) { long_len(r) } else { 0 };
            let keys = (0..nk)
                .map(|i| {
                    let mut hd = head(r, 2, 2);
                    hd.extend_from_slice(&(i as u16).to_be_bytes());
                    let l = if len == 0 { r.range(200, 320) as usize } else { len };
                    KeySpec { head: hd, fill: *r.pick(SYM), len: l.max(4) }
                })
                .collect();
            let n = r.range(nk as i64, 3 * nk as i64) as usize;
            let pd = *r.pick(&[0u64, 5, 15]);
            History { profile: "unique", keys, ops: mixed_ops(r, nk, n, pd, false) }
        }
        // distinct keys of very different sizes: a median split by count can overflow a page
        10..=11 => {
            let nk = r.range(20, 120) as usize;
            let keys = (0..nk)
                .map(|i| {
                    let mut hd = vec![if r.chance(1, 2) { b'a' } else { b'z' }];
                    hd.extend_from_slice(&(i as u16).to_be_bytes());
                    let l = if hd[0] == b'a' { r.range(3, 12) as usize } else { r.range(700, 900) as usize };
                    KeySpec { head: hd, fill: b'x', len: l }
                })
                .collect();
            let n = r.range(nk as i64, 2 * nk as i64) as usize;
            History { profile: "unique-mixed-size", keys, ops: mixed_ops(r, nk, n, 5, false) }
        }
        // insert distinct keys in order, then delete a contiguous run (whole leaves become empty)
        12..=14 => {
            let nk = r.range(30, 120) as usize;
            let len = r.range(500, 900) as usize;
            let keys: Vec<KeySpec> = (0..nk)
                .map(|i| KeySpec { head: (i as u16).to_be_bytes().to_vec(), fill: b'k', len })
                .collect();
            let mut ops: Vec<Op> = Vec::new();
            let mut order: Vec<usize> = (0..nk).collect();
            if r.chance(1, 2) {
                for i in (1..nk).rev() {
                    order.swap(i, r.below(i as u64 + 1) as usize);
                }
            }
            for &i in &order {
                ops.push(Op::Ins(i, i as u64 + 1));
            }
            let a = r.below(nk as u64) as usize;
            let b = (a + r.range(1, 40) as usize).min(nk);
            for i in a..b {
                ops.push(Op::Del(i, i as u64 + 1));
                if r.chance(1, 6) {
                    ops.push(Op::Scan(r.below(nk as u64) as usize, 10000));
                }
            }
            ops.push(Op::Scan(0, 10000));
            for _ in 0..r.below(20) {
                let i = r.below(nk as u64) as usize;
                ops.push(Op::Look(i));
            }
            ops.push(Op::Reopen);
            ops.push(Op::Scan(0, 10000));
            History { profile: "drain", keys, ops }
        }
        // deep: 90-200 distinct 500-900-byte keys in random order with a few deletes: several internal-page splits
        // (height 3, the part of the refinement that is not proved), no key stored twice
        15 => {
            let nk = r.range(90, 200) as usize;
            let len = r.range(500, 900) as usize;
            let keys: Vec<KeySpec> = (0..nk)
                .map(|i| {
                    let mut hd = head(r, 1, 2);
                    hd.extend_from_slice(&(i as u16).to_be_bytes());
                    KeySpec { head: hd, fill: *r.pick(SYM), len }
                })
                .collect();
            let n = r.range(nk as i64, 2 * nk as i64) as usize;
            let pd = *r.pick(&[0u64, 5, 10]);
            History { profile: "deep", keys, ops: mixed_ops(r, nk, n, pd, false) }
        }
        // realistic keys: secondary-index keys (index id, ordered value, node id) and property-store keys
        _ => {
            let nk = r.range(30, 200 * scale) as usize;
            let few_values = r.chance(1, 2);
            let keys: Vec<KeySpec> = (0..nk)
                .map(|i| {
                    if r.chance(2, 3) {
                        let v = if few_values { PV::Int(r.range(0, 3)) } else { PV::String(format!("name{}", r.below(50))) };
                        // node ids repeat, so a re-indexed node yields the same key again
                        KeySpec::plain(encode_index_key(1 + r.below(2) as u32, &v, r.below(nk as u64 / 2 + 1)))
                    } else {
                        let name = *r.pick(&["name", "age", "title"]);
                        let mut k = vec![0u8];
                        k.extend_from_slice(&((i % 17) as u32).to_be_bytes());
                        k.extend_from_slice(&(name.len() as u32).to_be_bytes());
                        k.extend_from_slice(name.as_bytes());
                        KeySpec::plain(k)
                    }
                })
                .collect();
            let n = r.range(100, 400 * scale) as usize;
            let ad = r.chance(1, 2);
            History { profile: "realistic", keys, ops: mixed_ops(r, nk, n, 20, ad) }
        }
    }
}
/// witnesses of the known findings (run first)
fn corpus() -> Vec<History> {
    let k900 = |h: &[u8]| KeySpec { head: h.to_vec(), fill: b'k', len: 900 };
    let mut v = Vec::new();
    // K-C26-dups inside one leaf: three equal keys, the oldest pair cannot be deleted
    v.push(History {
        profile: "corpus",
        keys: vec![KeySpec::plain(b"k".to_vec())],
        ops: vec![Op::Ins(0, 1), Op::Ins(0, 2), Op::Ins(0, 3), Op::Del(0, 1), Op::Scan(0, 10)],
    });
    // K-C26-dups across a leaf split: ten equal 900-byte keys, lookup and seek miss the left leaf
    v.push(History {
        profile: "corpus",
        keys: vec![k900(b"a")],
        ops: (1..=10).map(|i| Op::Ins(0, i)).chain([Op::Look(0), Op::Scan(0, 100), Op::Del(0, 1), Op::Reopen, Op::Scan(0, 100)]).collect(),
    });
    // regression of the repaired K-C26-emptyleaf (/repo ff9d0a3): 30 distinct keys in order, the second leaf emptied;
    // a full scan used to stop there
    v.push(History {
        profile: "corpus",
        keys: (0..30u16).map(|i| k900(&i.to_be_bytes())).collect(),
        ops: (0..30).map(|i| Op::Ins(i, i as u64)).chain((4..8).map(|i| Op::Del(i, i as u64))).chain([Op::Scan(0, 100), Op::Look(9)]).collect(),
    });
    // regression of the repaired K-C26-splitfit (/repo 0fc5a58): eight small keys, eight 900-byte keys, a ninth 900-byte key —
    // the median split by count made a right half of 9 x 912 bytes and panicked
    v.push(History {
        profile: "corpus",
        keys: (0..8u8).map(|i| KeySpec::plain(vec![b'a', i])).chain((0..9u8).map(|i| k900(&[b'z', i]))).collect(),
        ops: (0..17).map(|i| Op::Ins(i, i as u64)).chain([Op::Scan(0, 100)]).collect(),
    });
    // outside the key domain: a 7000-byte key between two 2400-byte keys cannot be split in two; the insert is
    // refused with "index page: no space" and nothing is written (model = implementation on the error path)
    v.push(History {
        profile: "corpus",
        keys: vec![
            KeySpec { head: b"a".to_vec(), fill: b'x', len: 2400 },
            KeySpec { head: b"c".to_vec(), fill: b'x', len: 2400 },
            KeySpec { head: b"b".to_vec(), fill: b'x', len: 7000 },
        ],
        ops: vec![Op::Ins(0, 1), Op::Ins(1, 2), Op::Ins(2, 3), Op::Scan(0, 10), Op::Look(2), Op::Reopen, Op::Scan(0, 10)],
    });
    // 600 equal short keys (the design probe)
    v.push(History {
        profile: "corpus",
        keys: vec![KeySpec::plain(b"dup".to_vec())],
        ops: (0..800).map(|i| Op::Ins(0, i)).chain([Op::Scan(0, 10000)]).chain((0..20).map(|i| Op::Del(0, i * 37))).collect(),
    });
    v
}

// ---------- Coq printing ----------
fn coq_keyspec(k: &KeySpec) -> String {
    format!("({}, {}, {})", coq_bytes(&k.head), coq_n(k.fill as u128), coq_n(k.len as u128))
}
fn coq_op(o: &Op) -> String {
    match o {
        Op::Ins(k, v) => format!("CIns {} {}", coq_n(*k as u128), coq_n(*v as u128)),
        Op::Del(k, v) => format!("CDel {} {}", coq_n(*k as u128), coq_n(*v as u128)),
        Op::Look(k) => format!("CLook {}", coq_n(*k as u128)),
        Op::Scan(k, lim) => format!("CScan {} {}", coq_n(*k as u128), coq_n(*lim as u128)),
        Op::Reopen => "CReopen".into(),
    }
}
fn coq_cells(cells: &[(Vec<u8>, u64)], idx: &HashMap<Vec<u8>, usize>) -> String {
    coq_list(cells, |(k, v)| format!("({}, {})", coq_n(*idx.get(k).unwrap_or(&999_999) as u128), coq_n(*v as u128)))
}
fn coq_res(r: &Res, idx: &HashMap<Vec<u8>, usize>) -> String {
    match r {
        Res::Unit => "XUnit".into(),
        Res::Bool(b) => format!("XBool {}", coq_bool(*b)),
        Res::Err(c) => format!("XErr {}", coq_n(*c as u128)),
        Res::Panic => "XPanic".into(),
        Res::Opt(o) => format!("XOpt {}", coq_opt(o, |v| coq_n(*v as u128))),
        Res::List(l) => format!("XList {}", coq_cells(l, idx)),
    }
}
fn coq_page(p: &DPage, idx: &HashMap<Vec<u8>, usize>) -> String {
    match p {
        DPage::Leaf { cells, right, begin } => format!("CLeaf {} {} {}", coq_cells(cells, idx), coq_n(*right as u128), coq_n(*begin as u128)),
        DPage::Internal { leftmost, cells, begin } => format!("CInt {} {} {}", coq_n(*leftmost as u128), coq_cells(cells, idx), coq_n(*begin as u128)),
        DPage::None => "CNone".into(),
    }
}
fn js_history(h: &History) -> serde_json::Value {
    json!({
        "profile": h.profile,
        "keys": h.keys.iter().map(|k| json!({"head": k.head, "fill": k.fill, "len": k.len})).collect::<Vec<_>>(),
        "ops": h.ops.iter().map(|o| match o {
            Op::Ins(k, v) => json!(["ins", k, v]),
            Op::Del(k, v) => json!(["del", k, v]),
            Op::Look(k) => json!(["lookup", k]),
            Op::Scan(k, l) => json!(["scan", k, l]),
            Op::Reopen => json!(["reopen"]),
        }).collect::<Vec<_>>(),
    })
}

fn main() {
    let a = args();
    quiet_panics();
    let quick = a.tier == "quick";
    let mut r = Rng::new(a.seed);
    let mut cw = CaseWriter::new(&a.out, "Corr.C26", 6);
    let bsdir = a.out.join("bs");
    std::fs::create_dir_all(&bsdir).unwrap();
    let mut bw = CaseWriter::new(&bsdir, "Corr.C26bs", 750);
    let mut rep = Report::new(&a.out);
    let mut hist = BTreeMap::<String, u64>::new();
    let mut nontrivial = BTreeSet::<Vec<u8>>::new();
    let mut fails = 0u64;
    let mut total_ops = 0usize;

    let corpus = corpus();
    let nc = corpus.len();
    for idx in 0..a.n.max(nc) {
        let h = if idx < nc { History { profile: corpus[idx].profile, keys: corpus[idx].keys.clone(), ops: corpus[idx].ops.clone() } } else { gen_history(&mut r, quick) };
        let o = run_history(&h);
        total_ops += h.ops.len();
        let keys: Vec<Vec<u8>> = h.keys.iter().map(|k| k.expand()).collect();
        let mut kidx = HashMap::new();
        for (i, k) in keys.iter().enumerate() {
            kidx.entry(k.clone()).or_insert(i);
        }
        // duplicate table entries: ops refer to the first index of equal keys only through expansion, fine
        *hist.entry(format!("profile:{}", h.profile)).or_insert(0) += 1;
        *hist.entry(format!("depth:{}", o.depth)).or_insert(0) += 1;
        *hist.entry(format!("pages:{}", match o.pages.len() { 0..=1 => "1", 2..=4 => "2-4", 5..=16 => "5-16", 17..=64 => "17-64", _ => "65+" })).or_insert(0) += 1;
        *hist.entry(format!("class:dup={} failed_op={}", o.dup, o.impl_res.iter().any(|x| matches!(x, Res::Err(_) | Res::Panic)))).or_insert(0) += 1;
        for op in &h.ops {
            *hist.entry(format!("op:{}", match op { Op::Ins(..) => "insert", Op::Del(..) => "delete", Op::Look(..) => "lookup", Op::Scan(..) => "scan", Op::Reopen => "reopen" })).or_insert(0) += 1;
        }
        if o.splits >= 1 {
            // distinct by the shape of the final tree + op count
            let mut sig = Vec::new();
            for p in &o.pages {
                match p {
                    DPage::Leaf { cells, .. } => { sig.push(0u8); sig.extend_from_slice(&(cells.len() as u16).to_be_bytes()); }
                    DPage::Internal { cells, .. } => { sig.push(1u8); sig.extend_from_slice(&(cells.len() as u16).to_be_bytes()); }
                    DPage::None => sig.push(2u8),
                }
            }
            sig.extend_from_slice(&(h.ops.len() as u32).to_be_bytes());
            nontrivial.insert(sig);
        }
        cw.push(format!(
            "{{| keytab := {}; cops := {}; impl_res := {}; ref_res := {}; impl_root := {}; impl_pages := {}; impl_dup := {} |}}",
            coq_list(&h.keys, coq_keyspec),
            coq_list(&h.ops, coq_op),
            coq_list(&o.impl_res, |x| coq_res(x, &kidx)),
            coq_list(&o.ref_res, |x| coq_res(x, &kidx)),
            coq_n(o.root as u128),
            coq_list(&o.pages, |p| coq_page(p, &kidx)),
            coq_bool(o.dup)
        ));
        if idx < nc + 1 {
            rep.case(idx, json!({"history": js_history(&h), "root": o.root, "pages": o.pages.len(), "dup": o.dup}));
        }
        if let Some((at, class, what)) = &o.fail {
            fails += 1;
            *hist.entry(format!("fail:{}", class.unwrap_or("UNCLASSIFIED"))).or_insert(0) += 1;
            rep.fail(idx, *class, &format!("step {}: {}", at, what), json!({"history": js_history(&h), "failing_step": at}));
        }
    }
    cw.flush();

    // the probe sequence of slice::binary_search_by on arbitrary comparison lists
    let nbs = if quick { 1500 } else { 40000 };
    for i in 0..nbs {
        let len = if i < 600 { i / 15 } else { r.below(70) as usize };
        let v: Vec<Ordering> = match r.below(3) {
            0 => {
                // monotone: Less* Equal* Greater*
                let a = r.below(len as u64 + 1) as usize;
                let b = a + r.below((len - a) as u64 + 1) as usize;
                (0..len).map(|j| if j < a { Ordering::Less } else if j < b { Ordering::Equal } else { Ordering::Greater }).collect()
            }
            1 => (0..len).map(|_| *r.pick(&[Ordering::Less, Ordering::Equal, Ordering::Greater])).collect(),
            _ => {
                // monotone in the key, arbitrary inside the run of equal keys (the delete search)
                let a = r.below(len as u64 + 1) as usize;
                let b = a + r.below((len - a) as u64 + 1) as usize;
                (0..len).map(|j| if j < a { Ordering::Less } else if j < b { *r.pick(&[Ordering::Less, Ordering::Equal, Ordering::Greater]) } else { Ordering::Greater }).collect()
            }
        };
        let got = v.binary_search_by(|c| *c);
        let (found, at) = match got { Ok(i) => (true, i), Err(i) => (false, i) };
        bw.push(format!("{{| bs_cmps := {}; bs_found := {}; bs_idx := {} |}}", coq_list(&v, |c| coq_cmp(*c).to_string()), coq_bool(found), coq_n(at as u128)));
    }
    bw.flush();
    *hist.entry("binary_search_by probe cases".into()).or_insert(0) += nbs as u64;

    let mut files: Vec<String> = cw.files.iter().map(|p| p.to_string_lossy().to_string()).collect();
    files.extend(bw.files.iter().map(|p| p.to_string_lossy().to_string()));
    rep.stats(json!({
        "evaluations": a.n.max(nc),
        "corr_cases": a.n.max(nc) + nbs,
        "operations": total_ops,
        "distinct_nontrivial": nontrivial.len(),
        "rule": "histories (corpus of known-finding witnesses first; then profiles: long runs of equal 1-900-byte keys over a 3-symbol alphabet, short equal keys x ~1000, distinct keys never stored twice, distinct keys of mixed sizes, ordered fill + contiguous drain, deep trees (90-200 long distinct keys, several internal splits), realistic index/property keys); non-trivial = at least one page split happened, distinct by the final tree shape (kind and cell count of every page) and op count",
        "histogram": hist,
        "direct_failures": fails,
        "case_files": files,
    }));
    rep.finish();
}
