//! C15 — indexes never change query results.
//! Every generated history runs on TWO databases: `A` gets `create_index(ilabel, ikey)` at the
//! OCreateIndex step, `B` never.  Equality-lookup queries run on both; rows must be equal
//! (direct oracle).  The history with all observations is written as a Coq case
//! (Corr/C15.v): the model's `seek_eval` must equal A's rows, `scan_eval` B's rows and
//! `lookup` the raw `lookup_index` results.
//! A Rust mirror of the model's state is kept only to (1) notice when the engine's store
//! leaves the abstract store (findings of other properties: labels lost on reopen, tombstones
//! / removed properties resurrected by compaction) — then an OResync step carries the
//! observed store into the model — and (2) to classify a direct failure into a known class.
use nervusdb::{Db, GraphSnapshot, PropertyValue};
use nervusdb_query::{Params, Value, prepare};
use nervusdb_storage::index::ordered_key::encode_ordered_value;
use serde_json::json;
use std::collections::{BTreeMap, BTreeSet};
use vh::*;

const LABELS: [&str; 3] = ["LA", "LB", "LC"];
const KEYS: [&str; 3] = ["p0", "p1", "p2"];

#[derive(Clone, Debug, PartialEq)]
enum Val {
    Null,
    Bool(bool),
    Int(i64),
    Float(u64),
    Str(String),
}
impl Val {
    fn coq(&self) -> String {
        match self {
            Val::Null => "ONull".into(),
            Val::Bool(b) => format!("(OBool {})", coq_bool(*b)),
            Val::Int(i) => format!("(OInt {})", coq_z(*i as i128)),
            Val::Float(b) => format!("(OFloat {})", coq_n(*b as u128)),
            Val::Str(s) => format!("(OStr {})", coq_bytes(s.as_bytes())),
        }
    }
    fn js(&self) -> serde_json::Value {
        match self {
            Val::Null => json!(null),
            Val::Bool(b) => json!(b),
            Val::Int(i) => json!({"int": i}),
            Val::Float(b) => json!({"float_bits": format!("{:#018x}", b), "approx": format!("{:?}", f64::from_bits(*b))}),
            Val::Str(s) => json!(s),
        }
    }
    fn qv(&self) -> Value {
        match self {
            Val::Null => Value::Null,
            Val::Bool(b) => Value::Bool(*b),
            Val::Int(i) => Value::Int(*i),
            Val::Float(b) => Value::Float(f64::from_bits(*b)),
            Val::Str(s) => Value::String(s.clone()),
        }
    }
    fn pv(&self) -> PropertyValue {
        match self {
            Val::Null => PropertyValue::Null,
            Val::Bool(b) => PropertyValue::Bool(*b),
            Val::Int(i) => PropertyValue::Int(*i),
            Val::Float(b) => PropertyValue::Float(f64::from_bits(*b)),
            Val::Str(s) => PropertyValue::String(s.clone()),
        }
    }
    fn from_pv(p: &PropertyValue) -> Option<Val> {
        Some(match p {
            PropertyValue::Null => Val::Null,
            PropertyValue::Bool(b) => Val::Bool(*b),
            PropertyValue::Int(i) => Val::Int(*i),
            PropertyValue::Float(f) => Val::Float(f.to_bits()),
            PropertyValue::String(s) => Val::Str(s.clone()),
            _ => return None,
        })
    }
    fn kind(&self) -> u8 {
        match self {
            Val::Null => 0,
            Val::Bool(_) => 1,
            Val::Int(_) => 2,
            Val::Float(_) => 3,
            Val::Str(_) => 4,
        }
    }
    fn enc(&self) -> Vec<u8> {
        use nervusdb_storage::property::PropertyValue as SPV;
        let s = match self {
            Val::Null => SPV::Null,
            Val::Bool(b) => SPV::Bool(*b),
            Val::Int(i) => SPV::Int(*i),
            Val::Float(b) => SPV::Float(f64::from_bits(*b)),
            Val::Str(s) => SPV::String(s.clone()),
        };
        encode_ordered_value(&s)
    }
    /// literal usable in query text (None: only as a parameter)
    fn lit(&self) -> Option<String> {
        match self {
            Val::Null => Some("null".into()),
            Val::Bool(b) => Some(b.to_string()),
            // a negative literal is parsed as unary minus applied to a literal: not a Literal for the
            // planner, no IndexSeek is planned; negative numbers therefore travel as parameters
            Val::Int(i) if *i >= 0 => Some(i.to_string()),
            Val::Int(_) => None,
            Val::Float(b) => {
                let f = f64::from_bits(*b);
                if f.is_finite() && f.abs() < 1e15 && (f == 0.0 || f.abs() > 1e-4) && !f.is_sign_negative() {
                    Some(format!("{:?}", f))
                } else {
                    None
                }
            }
            Val::Str(s) if !s.contains('\'') && !s.contains('\\') => Some(format!("'{}'", s)),
            _ => None,
        }
    }
}
/// Cypher equality on these scalars as the harness's own oracle (independent of the model text):
/// Some(true) only
fn eq_true(a: &Val, b: &Val) -> bool {
    match (a, b) {
        (Val::Bool(x), Val::Bool(y)) => x == y,
        (Val::Int(x), Val::Int(y)) => x == y,
        (Val::Str(x), Val::Str(y)) => x == y,
        (Val::Float(x), Val::Float(y)) => f64::from_bits(*x) == f64::from_bits(*y),
        (Val::Int(x), Val::Float(y)) | (Val::Float(y), Val::Int(x)) => {
            let f = f64::from_bits(*y);
            // evaluator_equality.rs float_equals_int = compare_i64_f64 == Equal (exact, since /repo 375602e):
            // the double is integral, inside the i64 range, and is that integer
            f.is_finite() && f.fract() == 0.0 && f >= -9.223372036854775808e18 && f < 9.223372036854775808e18 && (f as i64) == *x
        }
        _ => false,
    }
}

/// the same number in the other numeric type, when it exists exactly
fn twin(v: &Val) -> Option<Val> {
    match v {
        Val::Int(i) => {
            let f = *i as f64;
            if (f as i128) == (*i as i128) { Some(Val::Float(f.to_bits())) } else { None }
        }
        Val::Float(b) => {
            let f = f64::from_bits(*b);
            if f.is_finite() && f.fract() == 0.0 && f >= -9.223372036854775808e18 && f < 9.223372036854775808e18 { Some(Val::Int(f as i64)) } else { None }
        }
        _ => None,
    }
}

#[derive(Clone, Debug, PartialEq)]
struct NodeM {
    first: Option<u8>,
    labels: Vec<u8>,
    props: BTreeMap<u8, Val>,
    deleted: bool,
}
#[derive(Clone, Default)]
struct Mirror {
    nodes: Vec<NodeM>,
    index: Option<Vec<(Vec<u8>, u32)>>,
    resynced: BTreeSet<u32>,
}
impl Mirror {
    fn idx_del(ix: &mut Vec<(Vec<u8>, u32)>, e: &(Vec<u8>, u32)) {
        if let Some(p) = ix.iter().position(|x| x == e) {
            ix.remove(p);
        }
    }
    fn sat(n: &NodeM, l: u8, preds: &[(u8, Val)]) -> bool {
        n.labels.contains(&l) && preds.iter().all(|(k, v)| n.props.get(k).map(|w| eq_true(w, v)).unwrap_or(false))
    }
    fn scan(&self, l: u8, preds: &[(u8, Val)]) -> Vec<u32> {
        self.nodes.iter().enumerate().filter(|(_, n)| !n.deleted && Self::sat(n, l, preds)).map(|(i, _)| i as u32).collect()
    }
    fn lookup(&self, il: u8, ik: u8, l: u8, k: u8, v: &Val) -> Option<Vec<u32>> {
        if l != il || k != ik {
            return None;
        }
        let ix = self.index.as_ref()?;
        let mut keys = vec![v.enc()];
        if let Some(t) = twin(v) {
            keys.push(t.enc());
        }
        let ids: Vec<u32> = ix.iter().filter(|x| keys.contains(&x.0)).map(|x| x.1).collect();
        if ids.is_empty() { None } else { Some(ids) }
    }
    fn seek(&self, il: u8, ik: u8, l: u8, preds: &[(u8, Val)]) -> Vec<u32> {
        let Some((k0, v0)) = preds.first() else { return self.scan(l, preds) };
        match self.lookup(il, ik, l, *k0, v0) {
            None => self.scan(l, preds),
            Some(mut ids) => {
                ids.retain(|i| self.nodes.get(*i as usize).map(|n| !n.deleted).unwrap_or(false));
                ids.sort();
                ids.into_iter().filter(|i| Self::sat(&self.nodes[*i as usize], l, preds)).collect()
            }
        }
    }
    fn entry_present(&self, id: u32, w: &Val) -> bool {
        self.index.as_ref().map(|ix| ix.contains(&(w.enc(), id))).unwrap_or(false)
    }
}

/// mirror update + model step of SET/REMOVE items on one node
fn apply_props(m: &mut Mirror, il: u8, ik: u8, id: u32, items: &[(u8, Val, bool)]) -> String {
    let node = &mut m.nodes[id as usize];
    let old = node.props.get(&ik).cloned();
    let mut fin: Option<Val> = None;
    for (k, v, _) in items {
        if *k == ik {
            fin = Some(v.clone());
        }
        if *v == Val::Null {
            node.props.remove(k);
        } else {
            node.props.insert(*k, v.clone());
        }
    }
    if let (Some(ix), true) = (m.index.as_mut(), node.first == Some(il)) {
        match fin {
            None => {}
            Some(Val::Null) => {
                if let Some(o) = old {
                    Mirror::idx_del(ix, &(o.enc(), id));
                }
            }
            Some(v) => {
                if let Some(o) = old {
                    Mirror::idx_del(ix, &(o.enc(), id));
                }
                ix.insert(0, (v.enc(), id));
            }
        }
    }
    format!("OProps {} {}", coq_n(id as u128), coq_list(items, |(k, v, _)| format!("({}, {})", coq_n(*k as u128), v.coq())))
}

#[derive(Clone, Debug)]
enum Op {
    Create(Vec<u8>, Vec<(u8, Val)>),
    Props(u32, Vec<(u8, Val, bool)>), // (key, value, as REMOVE clause)
    /// the same items on every live node with the label (None: on every live node), ONE statement and
    /// transaction; the model sees one OProps per node (index entries are independent per node)
    PropsMany(Option<u8>, Vec<(u8, Val, bool)>),
    AddLabel(u32, u8),
    RemoveLabel(u32, u8),
    Delete(u32),
    CreateIndex,
    Compact,
    Reopen,
}

struct Pair {
    dir: tempfile::TempDir,
    a: Option<Db>,
    b: Option<Db>,
}
impl Pair {
    fn new() -> Self {
        let dir = if std::path::Path::new("/dev/shm").is_dir() { tempfile::tempdir_in("/dev/shm").unwrap() } else { tempfile::tempdir().unwrap() };
        let a = Db::open(dir.path().join("a")).unwrap();
        let b = Db::open(dir.path().join("b")).unwrap();
        Pair { dir, a: Some(a), b: Some(b) }
    }
    fn dbs(&self) -> [&Db; 2] {
        [self.a.as_ref().unwrap(), self.b.as_ref().unwrap()]
    }
    fn reopen(&mut self) -> Result<(), String> {
        self.a.take().unwrap().close().map_err(|e| format!("close a: {e}"))?;
        self.b.take().unwrap().close().map_err(|e| format!("close b: {e}"))?;
        self.a = Some(Db::open(self.dir.path().join("a")).map_err(|e| format!("open a: {e}"))?);
        self.b = Some(Db::open(self.dir.path().join("b")).map_err(|e| format!("open b: {e}"))?);
        Ok(())
    }
}

fn write_stmt(db: &Db, q: &str, params: &Params) -> Result<u32, String> {
    let snap = db.snapshot();
    let mut txn = db.begin_write();
    let p = prepare(q).map_err(|e| format!("prepare: {e}"))?;
    let n = p.execute_write(&snap, &mut txn, params).map_err(|e| format!("exec: {e}"))?;
    txn.commit().map_err(|e| format!("commit: {e}"))?;
    Ok(n)
}
fn read_ids(db: &Db, q: &str, params: &Params) -> Result<Vec<u32>, String> {
    let snap = db.snapshot();
    let p = prepare(q).map_err(|e| format!("prepare: {e}"))?;
    let mut out = vec![];
    for r in p.execute_streaming(&snap, params) {
        let row = r.map_err(|e| format!("row: {e}"))?;
        match row.columns().first().map(|c| c.1.clone()) {
            Some(Value::Int(i)) => out.push(i as u32),
            other => return Err(format!("unexpected column {other:?}")),
        }
    }
    out.sort();
    Ok(out)
}
fn explain(q: &str) -> String {
    prepare(&format!("EXPLAIN {q}")).ok().and_then(|p| p.explain_string().map(|s| s.to_string())).unwrap_or_default()
}

/// the engine's store as the abstract store sees it (labels, properties, deleted flag per id)
fn dump(db: &Db, n: usize) -> Vec<(Option<u8>, Vec<u8>, BTreeMap<u8, Val>, bool)> {
    let s = db.snapshot();
    let lab = |name: &str| LABELS.iter().position(|x| *x == name).map(|p| p as u8);
    (0..n as u32)
        .map(|id| {
            let first = s.node_label(id).and_then(|l| s.resolve_label_name(l)).and_then(|nm| lab(&nm));
            let mut labels: Vec<u8> = s
                .resolve_node_labels(id)
                .unwrap_or_default()
                .into_iter()
                .filter_map(|l| s.resolve_label_name(l))
                .filter_map(|nm| lab(&nm))
                .collect();
            labels.sort();
            let mut props = BTreeMap::new();
            for (ki, k) in KEYS.iter().enumerate() {
                if let Some(p) = s.node_property(id, k) {
                    if let Some(v) = Val::from_pv(&p) {
                        props.insert(ki as u8, v);
                    }
                }
            }
            (first, labels, props, s.is_tombstoned_node(id))
        })
        .collect()
}

const INTS: &[i64] = &[0, 1, -1, 2, 1 << 53, (1 << 53) + 1, i64::MAX, i64::MIN];
const FLOATS: &[f64] = &[0.0, -0.0, 1.0, -1.0, 2.0, 0.5, 9007199254740992.0, f64::INFINITY, f64::NAN, 9.223372036854775807e18];
const STRS: &[&str] = &["", "a", "b", "1", "true", "é"];
fn gen_val(r: &mut Rng, allow_null: bool) -> Val {
    match r.below(if allow_null { 12 } else { 11 }) {
        0..=3 => Val::Int(*r.pick(INTS)),
        4..=6 => Val::Float(r.pick(FLOATS).to_bits()),
        7..=8 => Val::Str(r.pick(STRS).to_string()),
        9 => Val::Bool(r.chance(1, 2)),
        10 => Val::Int(r.range(0, 2)),
        _ => Val::Null,
    }
}

struct Ctx<'a> {
    r: &'a mut Rng,
    rep: &'a mut Report,
    hist: &'a mut BTreeMap<String, u64>,
    nontrivial: &'a mut BTreeSet<String>,
    explain_ok: &'a mut BTreeSet<String>,
    evaluations: u64,
    fails: u64,
}

fn coq_preds(p: &[(u8, Val)]) -> String {
    coq_list(p, |(k, v)| format!("({}, {})", coq_n(*k as u128), v.coq()))
}
fn coq_ids(v: &[u32]) -> String {
    coq_list(v, |i| coq_n(*i as u128))
}

/// runs one history; returns the Coq case term (None if the history could not be carried out)
fn run_history(idx: usize, cx: &mut Ctx, script: Option<Vec<Op>>, il: u8, ik: u8, nops: usize) -> Option<String> {
    let mut pair = Pair::new();
    let mut m = Mirror::default();
    let mut steps: Vec<String> = vec![];
    let mut log: Vec<serde_json::Value> = vec![];
    let mut have_index = false;
    let scripted = script.is_some();
    // "big" scripted histories: hundreds of index entries so that the index B-tree splits its root
    let script_len = script.as_ref().map(|s| s.len()).unwrap_or(0);
    let big = script_len > 100;
    let early_index = cx.r.chance(1, 2);
    let index_at = 2 + cx.r.below(6) as usize;
    let mut script = script.unwrap_or_default().into_iter();
    let mut i = 0usize;
    loop {
        i += 1;
        // ---- choose the next operation
        let live: Vec<u32> = m.nodes.iter().enumerate().filter(|(_, n)| !n.deleted).map(|(i, _)| i as u32).collect();
        let op = if scripted {
            match script.next() {
                Some(o) => o,
                None => break,
            }
        } else {
            if i > nops {
                break;
            }
            let r = &mut *cx.r;
            let mut w = r.below(100);
            // index creation at a random point: first in half of the histories, else after 1-6 steps
            if !have_index && ((i == 1 && early_index) || (!early_index && i == index_at)) {
                w = 80;
            }
            if w >= 78 && w < 88 && have_index && r.chance(3, 4) {
                w = r.below(78);
            }
            if w >= 78 && w < 88 {
                // fallthrough to CreateIndex
            }
            if (live.is_empty() && !(w >= 78 && w < 88)) || w < 30 {
                let mut labels = vec![];
                match r.below(10) {
                    0 => {}
                    1..=5 => labels.push(il),
                    6 => labels.push(r.below(3) as u8),
                    _ => {
                        labels.push(r.below(3) as u8);
                        let l2 = r.below(3) as u8;
                        if !labels.contains(&l2) {
                            labels.push(l2);
                        }
                    }
                }
                let mut ps = vec![];
                for k in 0..3u8 {
                    if r.chance(if k == ik { 4 } else { 2 }, 5) {
                        ps.push((k, gen_val(r, true)));
                    }
                }
                Op::Create(labels, ps)
            } else if w < 55 {
                let id = *r.pick(&live);
                let n = 1 + r.below(3) as usize;
                // one SET clause (null removes) or one REMOVE clause: a statement chaining SET and
                // REMOVE clauses is rejected by execute_write ("must be executed via execute_write")
                let as_remove = r.chance(1, 5);
                let items = (0..n)
                    .map(|_| {
                        let k = if r.chance(2, 3) { ik } else { r.below(3) as u8 };
                        if as_remove { (k, Val::Null, true) } else { (k, gen_val(r, true), false) }
                    })
                    .collect();
                if r.chance(1, 4) {
                    Op::PropsMany(if r.chance(2, 3) { Some(if r.chance(2, 3) { il } else { r.below(3) as u8 }) } else { None }, items)
                } else {
                    Op::Props(id, items)
                }
            } else if w < 62 {
                Op::AddLabel(*r.pick(&live), if r.chance(1, 2) { il } else { r.below(3) as u8 })
            } else if w < 68 {
                Op::RemoveLabel(*r.pick(&live), if r.chance(1, 2) { il } else { r.below(3) as u8 })
            } else if w < 78 {
                Op::Delete(*r.pick(&live))
            } else if w < 88 {
                Op::CreateIndex
            } else if w < 94 {
                Op::Compact
            } else {
                Op::Reopen
            }
        };
        *cx.hist.entry(format!("op:{}", format!("{:?}", op).split(['(', ' ']).next().unwrap())).or_insert(0) += 1;
        if big && i == 1 {
            *cx.hist.entry("big-history(index root split)".into()).or_insert(0) += 1;
        }
        // ---- run it on both databases, update the mirror as the model would
        let mut stmt_log = json!(format!("{:?}", op));
        let mut model_op: Option<String> = None;
        let mut extra_ops: Vec<String> = vec![];
        let res: Result<(), String> = (|| {
            match &op {
                Op::Create(labels, ps) => {
                    let mut params = Params::new();
                    let mut q = String::from("CREATE (n");
                    for l in labels {
                        q.push(':');
                        q.push_str(LABELS[*l as usize]);
                    }
                    // duplicate keys in a literal map are a parse-level matter; keys are distinct here
                    if !ps.is_empty() {
                        q.push_str(" {");
                        for (j, (k, v)) in ps.iter().enumerate() {
                            if j > 0 {
                                q.push_str(", ");
                            }
                            let lit = if cx.r.chance(1, 2) { v.lit() } else { None };
                            match lit {
                                Some(l) => q.push_str(&format!("{}: {}", KEYS[*k as usize], l)),
                                None => {
                                    q.push_str(&format!("{}: $v{}", KEYS[*k as usize], j));
                                    params.insert(format!("v{j}"), v.qv());
                                }
                            }
                        }
                        q.push('}');
                    }
                    q.push(')');
                    stmt_log = json!(q);
                    for db in pair.dbs() {
                        let n = write_stmt(db, &q, &params)?;
                        if n != 1 {
                            return Err(format!("CREATE reported {n}"));
                        }
                    }
                    let id = m.nodes.len() as u32;
                    let first = labels.first().copied();
                    let props: BTreeMap<u8, Val> = ps.iter().filter(|(_, v)| *v != Val::Null).cloned().collect();
                    if let Some(ix) = m.index.as_mut() {
                        if first == Some(il) {
                            if let Some(v) = props.get(&ik) {
                                ix.insert(0, (v.enc(), id));
                            }
                        }
                    }
                    let mut ls = labels.clone();
                    ls.sort();
                    m.nodes.push(NodeM { first, labels: ls, props: props.clone(), deleted: false });
                    model_op = Some(format!(
                        "OCreate {} {}",
                        coq_list(labels, |l| coq_n(*l as u128)),
                        coq_list(&props.iter().collect::<Vec<_>>(), |(k, v)| format!("({}, {})", coq_n(**k as u128), v.coq()))
                    ));
                }
                Op::Props(..) | Op::PropsMany(..) => {
                    let mut params = Params::new();
                    let (mut q, items, targets): (String, &Vec<(u8, Val, bool)>, Vec<u32>) = match &op {
                        Op::Props(id, items) => {
                            params.insert("id", Value::Int(*id as i64));
                            (String::from("MATCH (n) WHERE id(n) = $id"), items, vec![*id])
                        }
                        Op::PropsMany(l, items) => {
                            let t: Vec<u32> = m.nodes.iter().enumerate().filter(|(_, n)| !n.deleted && l.map(|l| n.labels.contains(&l)).unwrap_or(true)).map(|(i, _)| i as u32).collect();
                            (match l { Some(l) => format!("MATCH (n:{})", LABELS[*l as usize]), None => String::from("MATCH (n)") }, items, t)
                        }
                        _ => unreachable!(),
                    };
                    let mut prev_set = false;
                    for (j, (k, v, as_remove)) in items.iter().enumerate() {
                        if *as_remove {
                            q.push_str(&format!("{}n.{}", if j == 0 { " REMOVE " } else { ", " }, KEYS[*k as usize]));
                            prev_set = false;
                        } else {
                            q.push_str(if prev_set { ", " } else { " SET " });
                            let lit = if cx.r.chance(1, 2) { v.lit() } else { None };
                            match lit {
                                Some(l) => q.push_str(&format!("n.{} = {}", KEYS[*k as usize], l)),
                                None => {
                                    q.push_str(&format!("n.{} = $v{}", KEYS[*k as usize], j));
                                    params.insert(format!("v{j}"), v.qv());
                                }
                            }
                            prev_set = true;
                        }
                    }
                    stmt_log = json!(q);
                    for db in pair.dbs() {
                        write_stmt(db, &q, &params)?;
                    }
                    let mut ops: Vec<String> = targets.iter().map(|id| apply_props(&mut m, il, ik, *id, items)).collect();
                    if ops.is_empty() {
                        model_op = Some("OCompact".into()); // no target: no effect on the abstract state
                    } else {
                        model_op = Some(ops.remove(0));
                        extra_ops = ops;
                    }
                }
                Op::AddLabel(id, l) | Op::RemoveLabel(id, l) => {
                    let add = matches!(op, Op::AddLabel(..));
                    let mut params = Params::new();
                    params.insert("id", Value::Int(*id as i64));
                    let q = format!("MATCH (n) WHERE id(n) = $id {} n:{}", if add { "SET" } else { "REMOVE" }, LABELS[*l as usize]);
                    stmt_log = json!(q);
                    for db in pair.dbs() {
                        write_stmt(db, &q, &params)?;
                    }
                    let node = &mut m.nodes[*id as usize];
                    if add {
                        if !node.labels.contains(l) {
                            node.labels.push(*l);
                            node.labels.sort();
                        }
                    } else {
                        node.labels.retain(|x| x != l);
                    }
                    model_op = Some(format!("{} {} {}", if add { "OAddLabel" } else { "ORemoveLabel" }, coq_n(*id as u128), coq_n(*l as u128)));
                }
                Op::Delete(id) => {
                    let mut params = Params::new();
                    params.insert("id", Value::Int(*id as i64));
                    let q = "MATCH (n) WHERE id(n) = $id DETACH DELETE n";
                    stmt_log = json!(q);
                    for db in pair.dbs() {
                        let n = write_stmt(db, q, &params)?;
                        if n != 1 {
                            return Err(format!("DELETE reported {n}"));
                        }
                    }
                    m.nodes[*id as usize].deleted = true;
                    model_op = Some(format!("ODelete {}", coq_n(*id as u128)));
                }
                Op::CreateIndex => {
                    pair.a.as_ref().unwrap().create_index(LABELS[il as usize], KEYS[ik as usize]).map_err(|e| format!("create_index: {e}"))?;
                    if m.index.is_none() {
                        // create_index backfills: live nodes created with the label that carry the property
                        m.index = Some(
                            m.nodes.iter().enumerate()
                                .filter(|(_, n)| !n.deleted && n.first == Some(il))
                                .filter_map(|(i, n)| n.props.get(&ik).map(|v| (v.enc(), i as u32)))
                                .collect(),
                        );
                    }
                    have_index = true;
                    model_op = Some("OCreateIndex".into());
                }
                Op::Compact => {
                    for db in pair.dbs() {
                        db.compact().map_err(|e| format!("compact: {e}"))?;
                    }
                    model_op = Some("OCompact".into());
                }
                Op::Reopen => {
                    pair.reopen()?;
                    model_op = Some("OReopen".into());
                }
            }
            Ok(())
        })();
        if let Err(e) = res {
            // the engine refused or failed a statement of the history: not a C15 matter, but the
            // history cannot be continued faithfully
            *cx.hist.entry("abandoned-history".into()).or_insert(0) += 1;
            log.push(json!({"op": stmt_log, "error": e}));
            cx.rep.case(idx, json!({"abandoned": true, "log": log}));
            break;
        }
        log.push(stmt_log);
        steps.push(format!("SOp ({})", model_op.unwrap()));
        for o in extra_ops {
            steps.push(format!("SOp ({})", o));
        }

        // ---- the store must be the same on both databases and equal to the abstract store
        let n = m.nodes.len();
        let (da, db_) = (dump(pair.a.as_ref().unwrap(), n), dump(pair.b.as_ref().unwrap(), n));
        if da != db_ {
            cx.fails += 1;
            cx.rep.fail(idx, None, "the two databases (with / without index) hold different stores", json!({"log": log, "a": format!("{:?}", da), "b": format!("{:?}", db_)}));
            return None;
        }
        let predicted: Vec<_> = m.nodes.iter().map(|x| (x.first, x.labels.clone(), x.props.clone(), x.deleted)).collect();
        if da != predicted {
            *cx.hist.entry("resync(foreign store deviation)".into()).or_insert(0) += 1;
            for (id, (o, p)) in da.iter().zip(predicted.iter()).enumerate() {
                if o != p {
                    m.resynced.insert(id as u32);
                    if o.0 != p.0 {
                        // creation label is part of the faithful model: not a foreign deviation
                        cx.fails += 1;
                        cx.rep.fail(idx, None, "creation label of a node differs from the model", json!({"log": log, "id": id}));
                        return None;
                    }
                    m.nodes[id].labels = o.1.clone();
                    m.nodes[id].props = o.2.clone();
                    m.nodes[id].deleted = o.3;
                }
            }
            steps.push(format!(
                "SOp (OResync {})",
                coq_list(&da, |(_, ls, ps, d)| format!(
                    "({}, {}, {})",
                    coq_list(ls, |l| coq_n(*l as u128)),
                    coq_list(&ps.iter().collect::<Vec<_>>(), |(k, v)| format!("({}, {})", coq_n(**k as u128), v.coq())),
                    coq_bool(*d)
                ))
            ));
            log.push(json!("resync"));
        }

        // ---- observations: raw index lookups and queries
        let nq = if big {
            if i == script_len { 80 } else if i + 50 > script_len { 2 } else { 0 }
        } else if scripted { 2 } else if have_index { 1 + cx.r.below(3) as usize } else { cx.r.below(2) as usize };
        for _ in 0..nq {
            // value: mostly one that some node holds (or its numeric twin)
            let held: Vec<Val> = m.nodes.iter().filter_map(|x| x.props.get(&ik).cloned()).collect();
            let mut v = if !held.is_empty() && cx.r.chance(3, 4) { cx.r.pick(&held).clone() } else { gen_val(cx.r, true) };
            if big && cx.r.chance(1, 2) {
                // the values written by the late updates and duplicated by the late creates
                let late: Vec<Val> = held.iter().filter(|x| matches!(x, Val::Int(i) if *i >= 1000)).cloned().collect();
                if !late.is_empty() {
                    v = cx.r.pick(&late).clone();
                }
            }
            if big && !matches!(v, Val::Int(_)) {
                // big histories hold integers only; float operands make the model's exact arithmetic
                // (2000-bit integers per node) too slow on hundreds of nodes
                v = Val::Int(1000 + cx.r.below(40) as i64);
            }
            if !big && cx.r.chance(1, 6) {
                v = match v {
                    Val::Int(i) => Val::Float((i as f64).to_bits()),
                    Val::Float(b) if f64::from_bits(b).fract() == 0.0 && f64::from_bits(b).abs() < 1e18 => Val::Int(f64::from_bits(b) as i64),
                    Val::Float(b) if b == 0 => Val::Float(1u64 << 63),
                    o => o,
                };
            }
            if have_index {
                let s = pair.a.as_ref().unwrap().snapshot();
                let mut r = s.lookup_index(LABELS[il as usize], KEYS[ik as usize], &v.pv());
                if let Some(x) = r.as_mut() {
                    x.sort();
                }
                steps.push(format!("SLookup {} {}", v.coq(), coq_opt(&r, |x| coq_ids(x))));
            }
            // query
            let l = if cx.r.chance(4, 5) { il } else { cx.r.below(3) as u8 };
            let mut preds: Vec<(u8, Val)> = vec![(ik, v.clone())];
            if !big && cx.r.chance(1, 4) {
                let k2 = (ik + 1 + cx.r.below(2) as u8) % 3;
                let held2: Vec<Val> = m.nodes.iter().filter_map(|x| x.props.get(&k2).cloned()).collect();
                let v2 = if !held2.is_empty() && cx.r.chance(3, 4) { cx.r.pick(&held2).clone() } else { gen_val(cx.r, false) };
                preds.push((k2, v2));
                preds.sort_by_key(|p| p.0);
            }
            let mut params = Params::new();
            let inline = cx.r.chance(1, 2);
            let mut parts = vec![];
            for (j, (k, v)) in preds.iter().enumerate() {
                let lit = if cx.r.chance(1, 2) { v.lit() } else { None };
                let rhs = match lit {
                    Some(l) => l,
                    None => {
                        params.insert(format!("q{j}"), v.qv());
                        format!("$q{j}")
                    }
                };
                parts.push((KEYS[*k as usize], rhs));
            }
            let q = if inline {
                format!(
                    "MATCH (n:{} {{{}}}) RETURN id(n)",
                    LABELS[l as usize],
                    parts.iter().map(|(k, r)| format!("{k}: {r}")).collect::<Vec<_>>().join(", ")
                )
            } else {
                let flip = cx.r.chance(1, 4);
                format!(
                    "MATCH (n:{}) WHERE {} RETURN id(n)",
                    LABELS[l as usize],
                    parts.iter().map(|(k, r)| if flip { format!("{r} = n.{k}") } else { format!("n.{k} = {r}") }).collect::<Vec<_>>().join(" AND ")
                )
            };
            let ra = read_ids(pair.a.as_ref().unwrap(), &q, &params);
            let rb = read_ids(pair.b.as_ref().unwrap(), &q, &params);
            cx.evaluations += 1;
            if std::env::var("C15_DEBUG").ok().and_then(|x| x.parse::<usize>().ok()) == Some(idx) {
                eprintln!("[{idx}] after {:?}\n   {q} {:?} -> with {:?} without {:?}", log.last(), preds, ra, rb);
            }
            let input = json!({"ilabel": LABELS[il as usize], "ikey": KEYS[ik as usize], "history": log, "query": q,
                               "params": preds.iter().map(|(k, v)| json!({KEYS[*k as usize]: v.js()})).collect::<Vec<_>>()});
            let (ra, rb) = match (ra, rb) {
                (Ok(a), Ok(b)) => (a, b),
                (a, b) => {
                    if a.is_err() != b.is_err() {
                        cx.fails += 1;
                        cx.rep.fail(idx, None, &format!("query fails on one database only: with={a:?} without={b:?}"), input);
                    } else {
                        *cx.hist.entry("query-error-both".into()).or_insert(0) += 1;
                    }
                    continue;
                }
            };
            steps.push(format!("SQuery {} {} {} {}", coq_n(l as u128), coq_preds(&preds), coq_ids(&ra), coq_ids(&rb)));
            // is the seek really taken?
            let seeks = l == il && preds[0].0 == ik && m.lookup(il, ik, l, ik, &preds[0].1).is_some();
            if seeks {
                let form = format!("{}|{}", inline, preds.len());
                if !cx.explain_ok.contains(&form) {
                    let plan = explain(&q);
                    let want = format!("IndexSeek(alias=n, label={}, field={}", LABELS[il as usize], KEYS[ik as usize]);
                    if plan.contains(&want) {
                        cx.explain_ok.insert(form);
                    } else {
                        cx.fails += 1;
                        cx.rep.fail(idx, None, "EXPLAIN does not show the IndexSeek the model assumes", json!({"query": q, "plan": plan}));
                    }
                }
                cx.nontrivial.insert(format!("{:?}|{:?}|{:?}|{:?}", m.index, preds, ra, l));
                *cx.hist.entry("query:seek-nonempty".into()).or_insert(0) += 1;
            } else if have_index {
                *cx.hist.entry("query:fallback-or-other-label".into()).or_insert(0) += 1;
            } else {
                *cx.hist.entry("query:no-index-yet".into()).or_insert(0) += 1;
            }
            *cx.hist.entry(format!("value:{}", ["null", "bool", "int", "float", "string"][v.kind() as usize])).or_insert(0) += 1;
            if cx.evaluations <= 4 {
                cx.rep.case(idx, json!({"input": input, "rows_with_index": ra, "rows_without_index": rb}));
            }
            // ---- direct oracle: the rows are the same
            if ra != rb {
                // classify: only if the model predicts exactly this, and every lost row has a reason
                let model_ok = m.seek(il, ik, l, &preds) == ra && m.scan(l, &preds) == rb;
                let mut class: Option<&str> = None;
                let extra: Vec<u32> = ra.iter().filter(|x| !rb.contains(x)).cloned().collect();
                let dup = ra.windows(2).any(|w| w[0] == w[1]);
                if model_ok && extra.is_empty() && !dup && seeks {
                    let missing: Vec<u32> = rb.iter().filter(|x| !ra.contains(x)).cloned().collect();
                    let mut classes = BTreeSet::new();
                    for id in &missing {
                        let n = &m.nodes[*id as usize];
                        let w = n.props.get(&ik);
                        let c = if m.resynced.contains(id) {
                            "K-C15-foreign"
                        } else if n.first != Some(il) {
                            "K-C15-label"
                        } else {
                            // a lost node created with the indexed label: repaired classes (backfill,
                            // numeric twin) or something new -- never tolerated
                            let _ = w.map(|w| m.entry_present(*id, w));
                            "unexplained"
                        };
                        classes.insert(c);
                    }
                    if !classes.contains("unexplained") && !classes.is_empty() {
                        // report under the most specific class present
                        class = classes.iter().next().copied();
                        for c in &classes {
                            *cx.hist.entry(format!("known:{c}")).or_insert(0) += 1;
                        }
                        if classes.len() > 1 {
                            for c in classes.iter().skip(1) {
                                cx.rep.fail(idx, Some(c), &format!("rows differ: with index {ra:?}, without {rb:?}"), input.clone());
                            }
                        }
                    }
                }
                if class.is_none() {
                    cx.fails += 1;
                }
                cx.rep.fail(idx, class, &format!("rows differ: with index {ra:?}, without {rb:?}"), input);
            }
        }
    }
    Some(format!(
        "{{| c_ilabel := {}; c_ikey := {}; c_steps := [{}] |}}",
        coq_n(il as u128),
        coq_n(ik as u128),
        steps.join("; ")
    ))
}

fn corpus() -> Vec<(u8, u8, Vec<Op>)> {
    let i = |x: i64| Val::Int(x);
    vec![
        // fixed (create_index backfills; was K-C15-backfill, DESIGN §8): index created after data, one more insert
        (0, 1, vec![Op::Create(vec![0], vec![(1, i(1))]), Op::Create(vec![0], vec![(1, i(1))]), Op::CreateIndex, Op::Create(vec![0], vec![(1, i(1))])]),
        // fixed (6de4665): equal values, update away and back used to leave a duplicate entry -> duplicate row
        (0, 1, vec![Op::CreateIndex, Op::Create(vec![0], vec![(1, i(1))]), Op::Create(vec![0], vec![(1, i(1))]), Op::Create(vec![0], vec![(1, i(1))]),
                    Op::Props(0, vec![(1, i(5), false)]), Op::Props(0, vec![(1, i(1), false)])]),
        // fixed (bda887a): deleted node still returned through its index entry
        (0, 1, vec![Op::CreateIndex, Op::Create(vec![0], vec![(1, i(1))]), Op::Create(vec![0], vec![(1, i(1))]), Op::Delete(0)]),
        // fixed (seek looks up both numeric encodings; was K-C15-numeric)
        (0, 1, vec![Op::CreateIndex, Op::Create(vec![0], vec![(1, i(1))]), Op::Create(vec![0], vec![(1, Val::Float(1.0f64.to_bits()))])]),
        // K-C15-label: second label, label added later
        (0, 1, vec![Op::CreateIndex, Op::Create(vec![0], vec![(1, i(1))]), Op::Create(vec![1, 0], vec![(1, i(1))]), Op::Create(vec![1], vec![(1, i(1))]), Op::AddLabel(2, 0)]),
        // ±0 (fixed by 651a96c, C27)
        (0, 1, vec![Op::CreateIndex, Op::Create(vec![0], vec![(1, Val::Float(0))]), Op::Create(vec![0], vec![(1, Val::Float(1 << 63))])]),
        // one statement updating several indexed nodes to one value and away again
        (0, 1, vec![Op::CreateIndex, Op::Create(vec![0], vec![(1, i(1))]), Op::Create(vec![0], vec![(1, i(2))]), Op::Create(vec![0, 1], vec![(1, i(3))]),
                    Op::PropsMany(Some(0), vec![(1, i(7), false)]), Op::PropsMany(None, vec![(1, i(1), false), (2, i(0), false)]), Op::PropsMany(Some(1), vec![(1, Val::Null, true)])]),
        // removal, re-set, compaction, reopen
        (0, 1, vec![Op::CreateIndex, Op::Create(vec![0], vec![(1, i(1)), (0, i(7))]), Op::Create(vec![0], vec![(1, i(1))]), Op::Props(0, vec![(1, Val::Null, true)]),
                    Op::Compact, Op::Props(0, vec![(1, i(1), false), (1, i(2), false)]), Op::Reopen, Op::Props(1, vec![(1, Val::Null, false)])]),
    ]
}

fn main() {
    let a = args();
    quiet_panics();
    let mut r = Rng::new(a.seed);
    let mut cw = CaseWriter::new(&a.out, "Corr.C15", 40);
    let mut rep = Report::new(&a.out);
    let mut hist = BTreeMap::new();
    let mut nontrivial = BTreeSet::new();
    let mut explain_ok = BTreeSet::new();
    let mut cx = Ctx { r: &mut r, rep: &mut rep, hist: &mut hist, nontrivial: &mut nontrivial, explain_ok: &mut explain_ok, evaluations: 0, fails: 0 };
    let corpus = corpus();
    let big_every: usize = if a.tier == "thorough" { 150 } else { 25 };
    let mut histories = 0u64;
    for idx in 0..a.n {
        let (il, ik, script, nops) = if idx < corpus.len() {
            let (il, ik, s) = corpus[idx].clone();
            (il, ik, Some(s), 0)
        } else if idx % big_every == 7 {
            // big history: the index B-tree root splits (an 8 KiB leaf holds ~255 integer entries, deleted
            // cells included) while an UPDATE of an existing node is applied; then more updates and creates of
            // duplicate values, a reopen, and a sweep of lookups
            let n = 190 + cx.r.below(60) as usize;
            let early = cx.r.chance(1, 2);
            let mut s = vec![];
            if early { s.push(Op::CreateIndex); }
            for j in 0..n {
                s.push(Op::Create(vec![0], vec![(1, Val::Int((j % 50) as i64)), (2, Val::Int(j as i64))]));
            }
            if !early { s.push(Op::CreateIndex); }
            let u = 70 + cx.r.below(30) as usize;
            for j in 0..u {
                if j % 9 == 4 {
                    s.push(Op::PropsMany(Some(0), vec![(2, Val::Int(-(j as i64)), false)])); // not the indexed key
                } else {
                    s.push(Op::Props(j as u32, vec![(1, Val::Int(1000 + j as i64), false)]));
                }
            }
            for j in 0..40 {
                s.push(Op::Create(vec![0], vec![(1, Val::Int(1000 + j as i64))]));
                if j % 10 == 3 { s.push(Op::Props((100 + j) as u32, vec![(1, Val::Int(1000 + j as i64), false)])); }
            }
            s.push(Op::Reopen);
            s.push(Op::Create(vec![0], vec![(1, Val::Int(1001))]));
            (0, 1, Some(s), 0)
        } else {
            let il = if cx.r.chance(3, 4) { 0 } else { cx.r.below(3) as u8 };
            let ik = if cx.r.chance(3, 4) { 1 } else { cx.r.below(3) as u8 };
            let nops = 4 + cx.r.below(14) as usize;
            (il, ik, None, nops)
        };
        let res = {
            let cxr = std::panic::AssertUnwindSafe(&mut cx);
            catch(move || {
                let cxr = cxr;
                let std::panic::AssertUnwindSafe(c) = cxr;
                run_history(idx, c, script, il, ik, nops)
            })
        };
        match res {
            Ok(Some(term)) => {
                histories += 1;
                cw.push(term);
            }
            Ok(None) => {}
            Err(p) => {
                cx.fails += 1;
                cx.rep.fail(idx, None, &format!("panic while running a history: {p}"), json!({"idx": idx, "seed": a.seed}));
            }
        }
    }
    cw.flush();
    let evaluations = cx.evaluations;
    let fails = cx.fails;
    let files: Vec<String> = cw.files.iter().map(|p| p.to_string_lossy().to_string()).collect();
    rep.stats(json!({
        "evaluations": evaluations,
        "corr_cases": histories,
        "distinct_nontrivial": nontrivial.len(),
        "rule": "a query counts as non-trivial when the database with the index answers it through a non-empty index lookup (seek really taken; EXPLAIN checked per query form); distinct by (index content, predicates, rows)",
        "histogram": hist,
        "unclassified_failures": fails,
        "explain_forms_confirmed": explain_ok.len(),
        "case_files": files,
    }));
    rep.finish();
}
