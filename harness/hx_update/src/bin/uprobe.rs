//! scratch probe (not registered)
use nervusdb::{Db, GraphSnapshot, PropertyValue};
use nervusdb_query::{Params, Value, prepare};

fn w(db: &Db, q: &str) {
    let snap = db.snapshot();
    let mut txn = db.begin_write();
    let p = prepare(q).unwrap();
    let r = p.execute_write(&snap, &mut txn, &Params::new());
    println!("  W {q} -> {r:?}");
    if r.is_ok() { txn.commit().unwrap(); }
}
fn q(db: &Db, q: &str) {
    let snap = db.snapshot();
    let p = prepare(q).unwrap();
    let rows: Vec<_> = p.execute_streaming(&snap, &Params::new()).collect();
    println!("  Q {q} -> {} rows: {:?}", rows.len(), rows);
}
fn wm(db: &Db, q: &str) {
    let snap = db.snapshot();
    let mut txn = db.begin_write();
    let p = prepare(q).unwrap();
    let r = p.execute_mixed(&snap, &mut txn, &Params::new());
    println!("  M {q} -> {:?}", r.as_ref().map(|x| x.1));
    if r.is_ok() { txn.commit().unwrap(); }
}
fn dump(db: &Db) {
    q(db, "MATCH (n) RETURN id(n), labels(n), properties(n)");
    q(db, "MATCH (a)-[r]->(b) RETURN id(a), type(r), id(b), properties(r)");
}
fn main() {
    let dir = tempfile::tempdir().unwrap();
    let db = Db::open(dir.path().join("a")).unwrap();
    w(&db, "CREATE (:A {k: 1}), (:A {k: 2}), (:B {k: 3})");
    w(&db, "MATCH (a:A {k: 1}), (b:B) MERGE (a)-[r:T {w: 1}]->(b) ON CREATE SET r.c = 1 ON MATCH SET r.m = 1");
    w(&db, "MATCH (a:A {k: 1}), (b:B) MERGE (a)-[r:T {w: 1}]->(b) ON CREATE SET r.c = 1 ON MATCH SET r.m = 1");
    w(&db, "MATCH (a:A {k: 1}), (b:B) MERGE (a)-[r:T {w: 2}]->(b) ON CREATE SET r.c = 2 ON MATCH SET r.m = 2");
    w(&db, "MATCH (a:A {k: 1}), (b:B) MERGE (a)-[r:T]->(b) ON CREATE SET r.c = 3 ON MATCH SET r.m = 3");
    w(&db, "MATCH (a:A {k: 1}), (b:B) MERGE (a)-[r:T {w: null}]->(b)");
    w(&db, "MATCH (a:A {k: 1}), (b:B) MERGE (a)<-[r:T]-(b)");
    w(&db, "MATCH (a:A {k: 1}), (b:B) MERGE (a)-[r:T]-(b)");
    w(&db, "MATCH (a:A), (b:B) MERGE (a)-[r:U]->(b)");
    q(&db, "MATCH (a)-[r]->(b) RETURN id(a), type(r), id(b), properties(r)");
    w(&db, "MATCH (a)-[r:T]->(b) SET r.x = 5, r.w = null");
    w(&db, "MATCH (a)-[r:T]->(b) SET r += {y: 1, x: null}");
    w(&db, "MATCH (a)-[r:T]->(b) SET r = {z: 1}");
    w(&db, "MATCH (a)-[r:T]->(b) REMOVE r.z, r.q");
    q(&db, "MATCH (a)-[r]->(b) RETURN id(a), type(r), id(b), properties(r)");
    w(&db, "MERGE (a:A {k: 1})-[r:V]->(b:C {k: 9})");
    w(&db, "MERGE (a:A {k: 1})-[r:V]->(b:C {k: 9})");
    q(&db, "MATCH (n) RETURN id(n), labels(n), properties(n)");
    q(&db, "MATCH (a)-[r]->(b) RETURN id(a), type(r), id(b), properties(r)");
}
