//! scratch probe (not registered)
use nervusdb::{Db, GraphSnapshot, PropertyValue};
use nervusdb_query::{Params, Value, prepare};

fn w(db: &Db, q: &str) {
    let snap = db.snapshot();
    let mut txn = db.begin_write();
    let p = prepare(q).unwrap();
    let r = p.execute_write(&snap, &mut txn, &Params::new());
    println!("  W {q} -> {r:?}");
    if r.is_ok() { txn.commit().unwrap(); }
}
fn q(db: &Db, q: &str) {
    let snap = db.snapshot();
    let p = prepare(q).unwrap();
    let rows: Vec<_> = p.execute_streaming(&snap, &Params::new()).collect();
    println!("  Q {q} -> {} rows: {:?}", rows.len(), rows);
}
fn main() {
    let dir = tempfile::tempdir().unwrap();
    let db = Db::open(dir.path().join("a")).unwrap();
    db.create_index("L", "k").unwrap();
    w(&db, "CREATE (:L {k: 1, t: 'a'})");
    w(&db, "CREATE (:L {k: 1, t: 'b'})");
    w(&db, "CREATE (:L {k: 1, t: 'c'})");
    let s = db.snapshot();
    println!("  lookup1 {:?}", s.lookup_index("L", "k", &PropertyValue::Int(1)));
    drop(s);
    w(&db, "MATCH (n) WHERE id(n) = 0 SET n.k = 5");
    let s = db.snapshot();
    println!("  lookup1 {:?}", s.lookup_index("L", "k", &PropertyValue::Int(1)));
    drop(s);
    w(&db, "MATCH (n) WHERE id(n) = 0 SET n.k = 1");
    let s = db.snapshot();
    println!("  lookup1 {:?}", s.lookup_index("L", "k", &PropertyValue::Int(1)));
    drop(s);
    q(&db, "MATCH (n:L) WHERE n.k = 1 RETURN n.t");
    q(&db, "MATCH (n:L {k: 1}) RETURN n.t");
    q(&db, "MATCH (n:L {k: 1, t: 'a'}) RETURN n.t");
    q(&db, "MATCH (n:L {t: 'a'}) RETURN n.t");
    q(&db, "MATCH (n:L) WHERE n.k = $v RETURN n.t");
    q(&db, "MATCH (n) WHERE id(n) = 0 RETURN id(n), n.t");
}
