//! scratch probe (not registered)
use nervusdb::{Db, GraphSnapshot, PropertyValue};
use nervusdb_query::{Params, Value, prepare};

fn w(db: &Db, q: &str) {
    let snap = db.snapshot();
    let mut txn = db.begin_write();
    let p = prepare(q).unwrap();
    let r = p.execute_write(&snap, &mut txn, &Params::new());
    println!("  W {q} -> {r:?}");
    if r.is_ok() { txn.commit().unwrap(); }
}
fn q(db: &Db, q: &str) {
    let snap = db.snapshot();
    let p = prepare(q).unwrap();
    let rows: Vec<_> = p.execute_streaming(&snap, &Params::new()).collect();
    println!("  Q {q} -> {} rows: {:?}", rows.len(), rows);
}
fn wm(db: &Db, q: &str) {
    let snap = db.snapshot();
    let mut txn = db.begin_write();
    let p = prepare(q).unwrap();
    let r = p.execute_mixed(&snap, &mut txn, &Params::new());
    println!("  M {q} -> {:?}", r.as_ref().map(|x| x.1));
    if r.is_ok() { txn.commit().unwrap(); }
}
fn dump(db: &Db) {
    q(db, "MATCH (n) RETURN id(n), labels(n), properties(n)");
    q(db, "MATCH (a)-[r]->(b) RETURN id(a), type(r), id(b), properties(r)");
}
fn main() {
    let dir = tempfile::tempdir().unwrap();
    let db = Db::open(dir.path().join("a")).unwrap();
    w(&db, "MERGE (n:L {k: 1}) ON CREATE SET n.c = 1 ON MATCH SET n.m = 1");
    w(&db, "MERGE (n:L {k: 1}) ON CREATE SET n.c = 1 ON MATCH SET n.m = 1");
    w(&db, "MERGE (n:L {k: 1})");
    w(&db, "CREATE (:L {k: 1})");
    w(&db, "MERGE (n:L {k: 1}) ON MATCH SET n.m = 2, n.z = null");
    w(&db, "UNWIND [1, 2, 2, null] AS x MERGE (n:M {k: x})");
    w(&db, "UNWIND [2, 3, 3] AS x MERGE (n:M {k: x}) ON CREATE SET n.c = x ON MATCH SET n.m = x");
    dump(&db);
    w(&db, "MATCH (n:M) SET n = {a: 1, k: 2}");
    w(&db, "MATCH (n:M) SET n += {a: 1, b: null, k: null}");
    w(&db, "MATCH (n:M) SET n:M:X");
    w(&db, "MATCH (n:M) REMOVE n:X:Nope");
    w(&db, "MATCH (n:M) REMOVE n.a, n.zz");
    w(&db, "MATCH (n:M) SET n.a = 1 REMOVE n.a");
    wm(&db, "MATCH (n:M) SET n.a = 1 REMOVE n.a");
    wm(&db, "MATCH (n:M) SET n.a = 1 SET n.b = n.a");
    dump(&db);
    w(&db, "MATCH (a:L), (b:M) CREATE (a)-[:T {w: 1}]->(b)");
    w(&db, "MATCH (a:L), (b:M) WHERE id(a) = 0 CREATE (a)-[:T {w: 2}]->(b)");
    dump(&db);
    w(&db, "MATCH (a:L) WHERE id(a) = 0 DELETE a");
    w(&db, "MATCH (a:L)-[r:T]->(b) WHERE id(a) = 0 DELETE r, a");
    w(&db, "MATCH (a:L) WHERE id(a) = 1 DETACH DELETE a");
    w(&db, "MATCH (a:L) WHERE id(a) = 2 WITH a MATCH (a)-[r]->() DETACH DELETE a, r");
    dump(&db);
    w(&db, "MATCH (a:M), (b:M) WHERE id(a) < id(b) MERGE (a)-[r:R {w: 1}]->(b) ON CREATE SET r.c = 1 ON MATCH SET r.m = 1");
    w(&db, "MATCH (a:M), (b:M) WHERE id(a) < id(b) MERGE (a)-[r:R {w: 1}]->(b) ON CREATE SET r.c = 1 ON MATCH SET r.m = 1");
    w(&db, "MATCH (a:M) DELETE a SET a.k = 5");
    wm(&db, "MATCH (a:M) DETACH DELETE a SET a.k = 5");
    dump(&db);
}
