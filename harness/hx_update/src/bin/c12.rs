//! C12 — Cypher updates match the reference semantics.
//! Random sequences of generated update statements (MATCH / UNWIND prefixes, parameters, nulls)
//! run through `prepare` -> `execute_write` on a real database, one transaction each; after
//! every statement the whole graph is dumped through a fresh snapshot (nodes with labels and
//! properties, relationships with multiplicity and properties, outgoing and incoming views).
//! The evaluated operands handed to the Coq model (Corr/C12.v) are computed by running the
//! MATCH prefix as a read query on the engine.  Direct search: the dump and the count must
//! equal an independent Rust reference graph; DELETE fails iff a target has a relationship;
//! no dangling relationship; an immediately repeated MERGE creates nothing; no stored null;
//! CREATE/DELETE counts are size differences.
use nervusdb::{Db, GraphSnapshot, PropertyValue};
use nervusdb_query::{Params, Value, prepare};
use nervusdb_storage::index::ordered_key::encode_ordered_value;
use serde_json::json;
use std::collections::{BTreeMap, BTreeSet};
use vh::*;

#[derive(Clone, Debug, PartialEq)]
enum Val {
    Null,
    Bool(bool),
    Int(i64),
    Float(u64),
    Str(String),
}
impl Val {
    fn coq(&self) -> String {
        match self {
            Val::Null => "ONull".into(),
            Val::Bool(b) => format!("(OBool {})", coq_bool(*b)),
            Val::Int(i) => format!("(OInt {})", coq_z(*i as i128)),
            Val::Float(b) => format!("(OFloat {})", coq_n(*b as u128)),
            Val::Str(s) => format!("(OStr {})", coq_bytes(s.as_bytes())),
        }
    }
    fn js(&self) -> serde_json::Value {
        match self {
            Val::Null => json!(null),
            Val::Bool(b) => json!(b),
            Val::Int(i) => json!({"int": i}),
            Val::Float(b) => json!({"float_bits": format!("{:#018x}", b), "approx": format!("{:?}", f64::from_bits(*b))}),
            Val::Str(s) => json!(s),
        }
    }
    fn qv(&self) -> Value {
        match self {
            Val::Null => Value::Null,
            Val::Bool(b) => Value::Bool(*b),
            Val::Int(i) => Value::Int(*i),
            Val::Float(b) => Value::Float(f64::from_bits(*b)),
            Val::Str(s) => Value::String(s.clone()),
        }
    }
    fn pv(&self) -> PropertyValue {
        match self {
            Val::Null => PropertyValue::Null,
            Val::Bool(b) => PropertyValue::Bool(*b),
            Val::Int(i) => PropertyValue::Int(*i),
            Val::Float(b) => PropertyValue::Float(f64::from_bits(*b)),
            Val::Str(s) => PropertyValue::String(s.clone()),
        }
    }
    fn from_pv(p: &PropertyValue) -> Option<Val> {
        Some(match p {
            PropertyValue::Null => Val::Null,
            PropertyValue::Bool(b) => Val::Bool(*b),
            PropertyValue::Int(i) => Val::Int(*i),
            PropertyValue::Float(f) => Val::Float(f.to_bits()),
            PropertyValue::String(s) => Val::Str(s.clone()),
            _ => return None,
        })
    }
    fn kind(&self) -> u8 {
        match self {
            Val::Null => 0,
            Val::Bool(_) => 1,
            Val::Int(_) => 2,
            Val::Float(_) => 3,
            Val::Str(_) => 4,
        }
    }
    fn enc(&self) -> Vec<u8> {
        use nervusdb_storage::property::PropertyValue as SPV;
        let s = match self {
            Val::Null => SPV::Null,
            Val::Bool(b) => SPV::Bool(*b),
            Val::Int(i) => SPV::Int(*i),
            Val::Float(b) => SPV::Float(f64::from_bits(*b)),
            Val::Str(s) => SPV::String(s.clone()),
        };
        encode_ordered_value(&s)
    }
    /// literal usable in query text (None: only as a parameter)
    fn lit(&self) -> Option<String> {
        match self {
            Val::Null => Some("null".into()),
            Val::Bool(b) => Some(b.to_string()),
            // a negative literal is parsed as unary minus applied to a literal: not a Literal for the
            // planner, no IndexSeek is planned; negative numbers therefore travel as parameters
            Val::Int(i) if *i >= 0 => Some(i.to_string()),
            Val::Int(_) => None,
            Val::Float(b) => {
                let f = f64::from_bits(*b);
                if f.is_finite() && f.abs() < 1e15 && (f == 0.0 || f.abs() > 1e-4) && !f.is_sign_negative() {
                    Some(format!("{:?}", f))
                } else {
                    None
                }
            }
            Val::Str(s) if !s.contains('\'') && !s.contains('\\') => Some(format!("'{}'", s)),
            _ => None,
        }
    }
}

const LABELS: [&str; 4] = ["LA", "LB", "LC", "LZ"]; // LZ is never created: REMOVE n:LZ counts nothing
const KEYS: [&str; 4] = ["p0", "p1", "p2", "p3"];
const TYPES: [&str; 2] = ["T0", "T1"];

fn pv_eq(a: &Val, b: &Val) -> bool {
    match (a, b) {
        (Val::Null, Val::Null) => true,
        (Val::Bool(x), Val::Bool(y)) => x == y,
        (Val::Int(x), Val::Int(y)) => x == y,
        (Val::Float(x), Val::Float(y)) => f64::from_bits(*x) == f64::from_bits(*y),
        (Val::Str(x), Val::Str(y)) => x == y,
        _ => false,
    }
}
fn same(a: &Val, b: &Val) -> bool {
    match (a, b) {
        (Val::Float(x), Val::Float(y)) => x == y || (f64::from_bits(*x).is_nan() && f64::from_bits(*y).is_nan()),
        _ => a == b,
    }
}

type Props = BTreeMap<u8, Val>;
type RKey = (u32, u8, u32);
/// independent reference graph (plain property graph + the engine's counting rules)
#[derive(Clone, Default, Debug)]
struct Ref {
    nodes: BTreeMap<u32, (BTreeSet<u8>, Props)>,
    rels: BTreeMap<RKey, (u32, Props)>,
    next: u32,
    cat: BTreeSet<u8>,
}
fn pset(p: &mut Props, k: u8, v: &Val) {
    if *v == Val::Null { p.remove(&k); } else { p.insert(k, v.clone()); }
}

#[derive(Clone, Debug)]
enum Stmt {
    CreateNode(Vec<(Vec<u8>, Vec<(u8, Val)>)>),
    CreateRel(Vec<(u32, u8, u32, Vec<(u8, Val)>)>),
    SetProp(Vec<(u32, u8, Val)>),
    RemoveProp(Vec<(u32, u8)>),
    SetMap(Vec<(u32, bool, Vec<(u8, Val)>)>),
    SetLabels(Vec<(u32, Vec<u8>)>),
    RemoveLabels(Vec<(u32, Vec<u8>)>),
    Delete(bool, Vec<u32>),
    DeleteRel(Vec<RKey>),
    MergeNode(Vec<(Vec<u8>, Vec<(u8, Val)>, Vec<(u8, Val)>, Vec<(u8, Val)>)>),
    SetRelProp(Vec<(RKey, u8, Val)>),
    /// (pattern as written: left, type, right; direction 0 `->`, 1 `<-`, 2 undirected; pattern map; ON CREATE; ON MATCH)
    MergeRel(Vec<(RKey, u8, Vec<(u8, Val)>, Vec<(u8, Val)>, Vec<(u8, Val)>)>),
    SetRelMap(Vec<(RKey, bool, Vec<(u8, Val)>)>),
    RemoveRelProp(Vec<(RKey, u8)>),
    Chain(Vec<Stmt>),
}
fn ckey(k: &RKey) -> String { format!("({}, {}, {})", cn(k.0 as u128), cn(k.1 as u128), cn(k.2 as u128)) }
fn cn(x: u128) -> String { coq_n(x) }
fn ckv(v: &[(u8, Val)]) -> String { coq_list(v, |(k, x)| format!("({}, {})", cn(*k as u128), x.coq())) }
fn cls(v: &[u8]) -> String { coq_list(v, |l| cn(*l as u128)) }
impl Stmt {
    fn coq(&self) -> String {
        match self {
            Stmt::CreateNode(r) => format!("UCreateNode {}", coq_list(r, |(l, p)| format!("({}, {})", cls(l), ckv(p)))),
            Stmt::CreateRel(r) => format!("UCreateRel {}", coq_list(r, |(s, t, d, p)| format!("({}, {}, {}, {})", cn(*s as u128), cn(*t as u128), cn(*d as u128), ckv(p)))),
            Stmt::SetProp(r) => format!("USetProp {}", coq_list(r, |(i, k, v)| format!("({}, {}, {})", cn(*i as u128), cn(*k as u128), v.coq()))),
            Stmt::RemoveProp(r) => format!("URemoveProp {}", coq_list(r, |(i, k)| format!("({}, {})", cn(*i as u128), cn(*k as u128)))),
            Stmt::SetMap(r) => format!("USetMap {}", coq_list(r, |(i, a, m)| format!("({}, {}, {})", cn(*i as u128), coq_bool(*a), ckv(m)))),
            Stmt::SetLabels(r) => format!("USetLabels {}", coq_list(r, |(i, l)| format!("({}, {})", cn(*i as u128), cls(l)))),
            Stmt::RemoveLabels(r) => format!("URemoveLabels {}", coq_list(r, |(i, l)| format!("({}, {})", cn(*i as u128), cls(l)))),
            Stmt::Delete(d, ids) => format!("UDelete {} {}", coq_bool(*d), coq_list(ids, |i| cn(*i as u128))),
            Stmt::DeleteRel(k) => format!("UDeleteRel {}", coq_list(k, |(s, t, d)| format!("({}, {}, {})", cn(*s as u128), cn(*t as u128), cn(*d as u128)))),
            Stmt::MergeNode(r) => format!("UMergeNode {}", coq_list(r, |(l, p, oc, om)| format!("({}, {}, {}, {})", cls(l), ckv(p), ckv(oc), ckv(om)))),
            Stmt::SetRelProp(r) => format!("USetRelProp {}", coq_list(r, |((s, t, d), k, v)| format!("(({}, {}, {}), {}, {})", cn(*s as u128), cn(*t as u128), cn(*d as u128), cn(*k as u128), v.coq()))),
            Stmt::MergeRel(r) => format!("UMergeRel {}", coq_list(r, |((s, t, d), dir, p, oc, om)| format!("(({}, {}, {}), {}, {}, {}, {})", cn(*s as u128), cn(*t as u128), cn(*d as u128), cn(*dir as u128), ckv(p), ckv(oc), ckv(om)))),
            Stmt::SetRelMap(r) => format!("USetRelMap {}", coq_list(r, |(k, a, m)| format!("({}, {}, {})", ckey(k), coq_bool(*a), ckv(m)))),
            Stmt::RemoveRelProp(r) => format!("URemoveRelProp {}", coq_list(r, |(k, p)| format!("({}, {})", ckey(k), cn(*p as u128)))),
            Stmt::Chain(cs) => format!("UChain {}", coq_list(cs, |c| format!("({})", c.coq()))),
        }
    }
    fn kind(&self) -> &'static str {
        match self {
            Stmt::CreateNode(_) => "create-node", Stmt::CreateRel(_) => "create-rel", Stmt::SetProp(_) => "set-prop",
            Stmt::RemoveProp(_) => "remove-prop", Stmt::SetMap(_) => "set-map", Stmt::SetLabels(_) => "set-labels",
            Stmt::RemoveLabels(_) => "remove-labels", Stmt::Delete(true, _) => "detach-delete", Stmt::Delete(false, _) => "delete",
            Stmt::DeleteRel(_) => "delete-rel", Stmt::MergeNode(_) => "merge-node",
            Stmt::SetRelProp(_) => "set-rel-prop", Stmt::MergeRel(_) => "merge-rel",
            Stmt::SetRelMap(_) => "set-rel-map", Stmt::RemoveRelProp(_) => "remove-rel-prop", Stmt::Chain(_) => "chain",
        }
    }
}
impl Ref {
    /// the reference semantics; None = the statement fails and changes nothing
    fn exec(&mut self, s: &Stmt) -> Option<u32> {
        let pre = self.clone();
        let mut c = 0u32;
        match s {
            Stmt::CreateNode(rows) => for (ls, ps) in rows {
                let mut p = Props::new();
                for (k, v) in ps { pset(&mut p, *k, v); }
                self.nodes.insert(self.next, (ls.iter().cloned().collect(), p));
                self.next += 1; self.cat.extend(ls.iter().cloned()); c += 1;
            },
            Stmt::CreateRel(rows) => for (s_, t, d, ps) in rows {
                let e = self.rels.entry((*s_, *t, *d)).or_insert((0, Props::new()));
                e.0 += 1;
                for (k, v) in ps { if *v != Val::Null { pset(&mut e.1, *k, v); } } // CREATE skips null-valued properties
                c += 1;
            },
            Stmt::SetProp(rows) => for (id, k, v) in rows {
                let existed = pre.nodes.get(id).map(|n| n.1.contains_key(k)).unwrap_or(false);
                if let Some(n) = self.nodes.get_mut(id) { pset(&mut n.1, *k, v); }
                if *v != Val::Null || existed { c += 1; }
            },
            Stmt::RemoveProp(rows) => for (id, k) in rows {
                if pre.nodes.get(id).map(|n| n.1.contains_key(k)).unwrap_or(false) { c += 1; }
                if let Some(n) = self.nodes.get_mut(id) { n.1.remove(k); }
            },
            Stmt::SetMap(rows) => for (id, append, m) in rows {
                let existing = pre.nodes.get(id).map(|n| n.1.clone()).unwrap_or_default();
                let mut target = if *append { existing.clone() } else { Props::new() };
                for (k, v) in m { pset(&mut target, *k, v); }
                let Some(n) = self.nodes.get_mut(id) else { continue };
                for k in existing.keys() { if !target.contains_key(k) { n.1.remove(k); c += 1; } }
                for (k, v) in &target { if !existing.get(k).map(|w| pv_eq(w, v)).unwrap_or(false) { n.1.insert(*k, v.clone()); c += 1; } }
            },
            Stmt::SetLabels(rows) => for (id, ls) in rows {
                if let Some(n) = self.nodes.get_mut(id) { n.0.extend(ls.iter().cloned()); }
                self.cat.extend(ls.iter().cloned()); c += ls.len() as u32;
            },
            Stmt::RemoveLabels(rows) => for (id, ls) in rows {
                for l in ls { if pre.cat.contains(l) { c += 1; if let Some(n) = self.nodes.get_mut(id) { n.0.remove(l); } } }
            },
            Stmt::Delete(detach, ids) => {
                let targets: BTreeSet<u32> = ids.iter().cloned().collect();
                let keys: BTreeSet<RKey> = pre.rels.keys().filter(|k| targets.contains(&k.0) || targets.contains(&k.2)).cloned().collect();
                if !detach && !keys.is_empty() { return None; }
                for k in &keys { self.rels.remove(k); }
                for t in &targets { self.nodes.remove(t); }
                c = (keys.len() + targets.len()) as u32;
            }
            Stmt::DeleteRel(keys) => {
                let ks: BTreeSet<RKey> = keys.iter().cloned().collect();
                for k in &ks { self.rels.remove(k); }
                c = ks.len() as u32;
            }
            Stmt::MergeNode(rows) => for (ls, ps, oc, om) in rows {
                let cands: Vec<u32> = self.nodes.iter().filter(|(_, n)| ls.iter().all(|l| n.0.contains(l)) && ps.iter().all(|(k, v)| n.1.get(k).map(|w| pv_eq(w, v)).unwrap_or(false))).map(|(i, _)| *i).collect();
                self.cat.extend(ls.iter().cloned());
                if cands.is_empty() {
                    let mut p: Props = ps.iter().cloned().collect(); // stored as given, nulls included
                    for (k, v) in oc { pset(&mut p, *k, v); }
                    self.nodes.insert(self.next, (ls.iter().cloned().collect(), p));
                    self.next += 1; c += 1;
                } else {
                    for i in cands { let n = self.nodes.get_mut(&i).unwrap(); for (k, v) in om { pset(&mut n.1, *k, v); } }
                }
            },
            Stmt::SetRelProp(rows) => for (key, k, v) in rows {
                let existed = pre.rels.get(key).map(|e| e.1.contains_key(k)).unwrap_or(false);
                if let Some(e) = self.rels.get_mut(key) { pset(&mut e.1, *k, v); }
                if *v != Val::Null || existed { c += 1; }
            },
            Stmt::MergeRel(rows) => {
                // overlay: relationships created by earlier rows of this statement, each with its pattern map
                let mut overlay: Vec<(RKey, Props)> = vec![];
                let m = |have: &Props, ps: &Vec<(u8, Val)>| ps.iter().all(|(k, v)| have.get(k).map(|w| pv_eq(w, v)).unwrap_or(false));
                for (wkey, dir, ps, oc, om) in rows {
                    let flip = (wkey.2, wkey.1, wkey.0);
                    // `->` looks for left->right, `<-` for right->left, undirected for both
                    let lookup: Vec<RKey> = match dir { 0 => vec![*wkey], 1 => vec![flip], _ => vec![*wkey, flip] };
                    let matched: Vec<RKey> = lookup.into_iter().filter(|key| pre.rels.get(key).map(|e| m(&e.1, ps)).unwrap_or(false) || overlay.iter().any(|(k, p)| k == key && m(p, ps))).collect();
                    if !matched.is_empty() {
                        for key in matched {
                            if let Some(e) = self.rels.get_mut(&key) { for (k, v) in om { pset(&mut e.1, *k, v); } }
                        }
                    } else {
                        // an undirected pattern is created left -> right
                        let key = if *dir == 1 { flip } else { *wkey };
                        let e = self.rels.entry(key).or_insert((0, Props::new()));
                        e.0 += 1;
                        for (k, v) in ps { e.1.insert(*k, v.clone()); } // stored as given, nulls included
                        for (k, v) in oc { pset(&mut e.1, *k, v); }
                        overlay.push((key, ps.iter().cloned().collect()));
                        c += 1;
                    }
                }
            }
            Stmt::SetRelMap(rows) => for (key, append, m) in rows {
                let existing = pre.rels.get(key).map(|e| e.1.clone()).unwrap_or_default();
                let mut target = if *append { existing.clone() } else { Props::new() };
                for (k, v) in m { pset(&mut target, *k, v); }
                let Some(e) = self.rels.get_mut(key) else { continue };
                for k in existing.keys() { if !target.contains_key(k) { e.1.remove(k); c += 1; } }
                for (k, v) in &target { if !existing.get(k).map(|w| pv_eq(w, v)).unwrap_or(false) { e.1.insert(*k, v.clone()); c += 1; } }
            },
            Stmt::RemoveRelProp(rows) => for (key, k) in rows {
                if pre.rels.get(key).map(|e| e.1.contains_key(k)).unwrap_or(false) { c += 1; }
                if let Some(e) = self.rels.get_mut(key) { e.1.remove(k); }
            },
            Stmt::Chain(cs) => for cl in cs {
                c += self.exec(cl)?;
            },
        }
        Some(c)
    }
}

type Dump = (BTreeMap<u32, (BTreeSet<u8>, Props)>, BTreeMap<RKey, (u32, Props)>);
fn dump(db: &Db) -> Result<Dump, String> {
    let s = db.snapshot();
    let lab = |name: &str| LABELS.iter().position(|x| *x == name).map(|p| p as u8);
    let key = |name: &str| KEYS.iter().position(|x| *x == name).map(|p| p as u8);
    let conv = |m: BTreeMap<String, PropertyValue>| -> Result<Props, String> {
        let mut p = Props::new();
        for (k, v) in m {
            p.insert(key(&k).ok_or(format!("unknown key {k}"))?, Val::from_pv(&v).ok_or("unexpected value kind")?);
        }
        Ok(p)
    };
    let mut nodes = BTreeMap::new();
    let mut rels: BTreeMap<RKey, (u32, Props)> = BTreeMap::new();
    let ids: Vec<u32> = s.nodes().collect();
    for id in &ids {
        let ls: BTreeSet<u8> = s.resolve_node_labels(*id).unwrap_or_default().into_iter().filter_map(|l| s.resolve_label_name(l)).filter_map(|n| lab(&n)).collect();
        nodes.insert(*id, (ls, conv(s.node_properties(*id).unwrap_or_default())?));
        for e in s.neighbors(*id, None) {
            let tn = s.resolve_rel_type_name(e.rel).ok_or("rel type without name")?;
            let t = TYPES.iter().position(|x| *x == tn).ok_or("unknown type")? as u8;
            let ent = rels.entry((e.src, t, e.dst)).or_insert((0, Props::new()));
            ent.0 += 1;
            ent.1 = conv(s.edge_properties(e).unwrap_or_default())?;
        }
    }
    // the incoming view must describe the same relationships
    let mut inc: BTreeMap<RKey, u32> = BTreeMap::new();
    for id in &ids {
        for e in s.incoming_neighbors(*id, None) {
            let tn = s.resolve_rel_type_name(e.rel).ok_or("rel type without name")?;
            let t = TYPES.iter().position(|x| *x == tn).ok_or("unknown type")? as u8;
            *inc.entry((e.src, t, e.dst)).or_insert(0) += 1;
        }
    }
    let out: BTreeMap<RKey, u32> = rels.iter().map(|(k, v)| (*k, v.0)).collect();
    if out != inc {
        return Err(format!("outgoing and incoming views differ: {out:?} vs {inc:?}"));
    }
    Ok((nodes, rels))
}
fn dump_eq(d: &Dump, r: &Ref) -> bool {
    d.0.len() == r.nodes.len() && d.1.len() == r.rels.len()
        && d.0.iter().all(|(i, (ls, ps))| r.nodes.get(i).map(|(l2, p2)| ls == l2 && ps.len() == p2.len() && ps.iter().all(|(k, v)| p2.get(k).map(|w| same(v, w)).unwrap_or(false))).unwrap_or(false))
        && d.1.iter().all(|(k, (m, ps))| r.rels.get(k).map(|(m2, p2)| m == m2 && ps.len() == p2.len() && ps.iter().all(|(k, v)| p2.get(k).map(|w| same(v, w)).unwrap_or(false))).unwrap_or(false))
}
fn coq_dump(d: &Dump) -> (String, String) {
    let n: Vec<_> = d.0.iter().collect();
    let r: Vec<_> = d.1.iter().collect();
    (
        coq_list(&n, |(i, (ls, ps))| format!("({}, {}, {})", cn(**i as u128), cls(&ls.iter().cloned().collect::<Vec<_>>()), ckv(&ps.iter().map(|(k, v)| (*k, v.clone())).collect::<Vec<_>>()))),
        coq_list(&r, |((s, t, d), (m, ps))| format!("(({}, {}, {}), {}, {})", cn(*s as u128), cn(*t as u128), cn(*d as u128), cn(*m as u128), ckv(&ps.iter().map(|(k, v)| (*k, v.clone())).collect::<Vec<_>>()))),
    )
}

fn read_rows(db: &Db, q: &str, params: &Params) -> Result<Vec<Vec<Value>>, String> {
    let snap = db.snapshot();
    let p = prepare(q).map_err(|e| format!("prepare {q}: {e}"))?;
    let mut out = vec![];
    for r in p.execute_streaming(&snap, params) {
        let row = r.map_err(|e| format!("row: {e}"))?;
        out.push(row.columns().iter().map(|c| c.1.clone()).collect());
    }
    Ok(out)
}
fn ids_of(db: &Db, q: &str, params: &Params) -> Result<Vec<u32>, String> {
    let mut v: Vec<u32> = read_rows(db, q, params)?.into_iter().filter_map(|r| match r.first() { Some(Value::Int(i)) => Some(*i as u32), _ => None }).collect();
    v.sort();
    Ok(v)
}
/// `mixed`: through PreparedQuery::execute_mixed (the entry point of the C API) instead of execute_write
fn write_stmt(db: &Db, q: &str, params: &Params, mixed: bool) -> Result<u32, String> {
    let snap = db.snapshot();
    let mut txn = db.begin_write();
    let p = prepare(q).map_err(|e| format!("prepare: {e}"))?;
    let n = if mixed {
        p.execute_mixed(&snap, &mut txn, params).map(|x| x.1).map_err(|e| format!("exec: {e}"))?
    } else {
        p.execute_write(&snap, &mut txn, params).map_err(|e| format!("exec: {e}"))?
    };
    txn.commit().map_err(|e| format!("commit: {e}"))?;
    Ok(n)
}

const INTS: &[i64] = &[0, 1, -1, 2, 1 << 53, i64::MAX, i64::MIN];
const FLOATS: &[f64] = &[0.0, -0.0, 1.0, 2.5, f64::INFINITY, f64::NAN];
const STRS: &[&str] = &["", "a", "b", "é"];
fn gen_val(r: &mut Rng, null_w: u64) -> Val {
    if r.below(10) < null_w { return Val::Null; }
    match r.below(10) {
        0..=3 => Val::Int(*r.pick(INTS)),
        4..=5 => Val::Float(r.pick(FLOATS).to_bits()),
        6..=7 => Val::Str(r.pick(STRS).to_string()),
        8 => Val::Bool(r.chance(1, 2)),
        _ => Val::Int(r.range(0, 2)),
    }
}
fn map_value(m: &[(u8, Val)]) -> Value {
    Value::Map(m.iter().map(|(k, v)| (KEYS[*k as usize].to_string(), v.qv())).collect())
}
/// `{p0: $a0, p1: 1}` with each value either literal or parameter
fn map_text(r: &mut Rng, m: &[(u8, Val)], params: &mut Params, pfx: &str) -> String {
    let parts: Vec<String> = m.iter().enumerate().map(|(j, (k, v))| {
        let lit = if r.chance(1, 2) { v.lit() } else { None };
        match lit {
            Some(l) => format!("{}: {}", KEYS[*k as usize], l),
            None => { params.insert(format!("{pfx}{j}"), v.qv()); format!("{}: ${pfx}{j}", KEYS[*k as usize]) }
        }
    }).collect();
    format!("{{{}}}", parts.join(", "))
}
fn labels_text(ls: &[u8]) -> String { ls.iter().map(|l| format!(":{}", LABELS[*l as usize])).collect() }
fn distinct_keys(r: &mut Rng, lo: usize, span: u64, from: &[u8]) -> Vec<u8> {
    let n = lo + r.below(span) as usize;
    let mut ks: Vec<u8> = vec![];
    for _ in 0..n { let k = *r.pick(from); if !ks.contains(&k) { ks.push(k); } }
    ks.sort();
    ks
}

/// one SET / REMOVE clause on the node variable `n` over the bound ids (no REMOVE of labels: inside
/// a chain the catalog the executor consults is still the pre-statement one)
fn node_clause(r: &mut Rng, ids: &[u32], params: &mut Params, pfx: &str) -> (String, Stmt) {
    match r.below(4) {
        0 => {
            let n = 1 + r.below(2) as usize;
            let items: Vec<(u8, Val)> = (0..n).map(|_| (r.below(4) as u8, gen_val(r, 3))).collect();
            let mut parts = vec![];
            for (j, (k, v)) in items.iter().enumerate() {
                params.insert(format!("{pfx}s{j}"), v.qv());
                parts.push(format!("n.{} = ${pfx}s{j}", KEYS[*k as usize]));
            }
            (format!("SET {}", parts.join(", ")), Stmt::SetProp(ids.iter().flat_map(|i| items.iter().map(move |(k, v)| (*i, *k, v.clone()))).collect()))
        }
        1 => {
            let ks: Vec<u8> = (0..1 + r.below(2)).map(|_| r.below(4) as u8).collect();
            (format!("REMOVE {}", ks.iter().map(|k| format!("n.{}", KEYS[*k as usize])).collect::<Vec<_>>().join(", ")),
             Stmt::RemoveProp(ids.iter().flat_map(|i| ks.iter().map(move |k| (*i, *k))).collect()))
        }
        2 => {
            let append = r.chance(1, 2);
            let ks = distinct_keys(r, 0, 4, &[0, 1, 2, 3]);
            let mp: Vec<(u8, Val)> = ks.iter().map(|k| (*k, gen_val(r, 3))).collect();
            params.insert(format!("{pfx}m"), map_value(&mp));
            (format!("SET n {} ${pfx}m", if append { "+=" } else { "=" }), Stmt::SetMap(ids.iter().map(|i| (*i, append, mp.clone())).collect()))
        }
        _ => {
            let ls: Vec<u8> = (0..1 + r.below(2)).map(|_| r.below(3) as u8).collect();
            (format!("SET n{}", labels_text(&ls)), Stmt::SetLabels(ids.iter().map(|i| (*i, ls.clone())).collect()))
        }
    }
}

/// generates one statement: (query text, params, evaluated form); the bound rows are read from the
/// ENGINE by running the MATCH prefix as a read query first
fn gen_stmt(r: &mut Rng, db: &Db, rf: &Ref, deleted_keys: &BTreeSet<RKey>) -> Result<Option<(String, Params, Stmt)>, String> {
    let mut params = Params::new();
    let live: Vec<u32> = rf.nodes.keys().cloned().collect();
    // target selector: by id, by label, or everything
    let mut selector = |r: &mut Rng, params: &mut Params| -> Result<(String, Vec<u32>), String> {
        let (m, q) = match r.below(4) {
            0 | 1 if !live.is_empty() => {
                let id = *r.pick(&live);
                params.insert("id", Value::Int(id as i64));
                ("MATCH (n) WHERE id(n) = $id".to_string(), "MATCH (n) WHERE id(n) = $id RETURN id(n)".to_string())
            }
            2 => {
                let l = LABELS[r.below(3) as usize];
                if r.chance(1, 3) {
                    // WITH prefix (and a pass-through projection)
                    (format!("MATCH (m:{l}) WITH m AS n"), format!("MATCH (m:{l}) WITH m AS n RETURN id(n)"))
                } else {
                    (format!("MATCH (n:{l})"), format!("MATCH (n:{l}) RETURN id(n)"))
                }
            }
            _ => ("MATCH (n)".to_string(), "MATCH (n) RETURN id(n)".to_string()),
        };
        let ids = ids_of(db, &q, params)?;
        Ok((m, ids))
    };
    let mut w = r.below(100);
    let special = r.below(100);
    if (13..22).contains(&special) && live.len() >= 2 {
        w = 94; // relationship MERGE (all three directions, both stored orientations)
    }
    let out = if special < 8 && !live.is_empty() {
        // a chain of two or three SET / REMOVE clauses in one statement
        let (m, ids) = selector(r, &mut params)?;
        let n = 2 + r.below(2) as usize;
        let mut text = m;
        let mut cs = vec![];
        for j in 0..n {
            let (t, st) = node_clause(r, &ids, &mut params, &format!("c{j}"));
            text.push(' ');
            text.push_str(&t);
            cs.push(st);
        }
        (text, Stmt::Chain(cs))
    } else if special < 13 && !rf.rels.is_empty() {
        // SET r = map / r += map / REMOVE r.k on relationships: one row per parallel relationship
        let keys: Vec<RKey> = rf.rels.keys().cloned().collect();
        let k0 = *r.pick(&keys);
        params.insert("a", Value::Int(k0.0 as i64));
        let rows = read_rows(db, &format!("MATCH (a)-[r:{}]->(b) WHERE id(a) = $a RETURN id(a), id(b)", TYPES[k0.1 as usize]), &params)?;
        let ks: Vec<RKey> = rows.iter().filter_map(|row| match (&row[0], &row[1]) { (Value::Int(a), Value::Int(b)) => Some((*a as u32, k0.1, *b as u32)), _ => None }).collect();
        let head = format!("MATCH (a)-[r:{}]->(b) WHERE id(a) = $a", TYPES[k0.1 as usize]);
        if r.chance(1, 3) {
            let ps: Vec<u8> = (0..1 + r.below(2)).map(|_| r.below(4) as u8).collect();
            (format!("{head} REMOVE {}", ps.iter().map(|k| format!("r.{}", KEYS[*k as usize])).collect::<Vec<_>>().join(", ")),
             Stmt::RemoveRelProp(ks.iter().flat_map(|key| ps.iter().map(move |p| (*key, *p))).collect()))
        } else {
            let append = r.chance(1, 2);
            let pk = distinct_keys(r, 0, 4, &[0, 1, 2, 3]);
            let mp: Vec<(u8, Val)> = pk.iter().map(|k| (*k, gen_val(r, 3))).collect();
            params.insert("m", map_value(&mp));
            (format!("{head} SET r {} $m", if append { "+=" } else { "=" }), Stmt::SetRelMap(ks.iter().map(|key| (*key, append, mp.clone())).collect()))
        }
    } else if live.len() < 2 || w < 16 {
        let n = 1 + r.below(3) as usize;
        let ls = distinct_keys(r, 0, 3, &[0, 1, 2]);
        let ks = distinct_keys(r, 1, 3, &[0, 1, 2, 3]);
        let rows: Vec<Vec<(u8, Val)>> = (0..n).map(|_| ks.iter().map(|k| (*k, gen_val(r, 2))).collect()).collect();
        if n == 1 && r.chance(1, 2) {
            let q = format!("CREATE (n{} {})", labels_text(&ls), map_text(r, &rows[0], &mut params, "c"));
            (q, Stmt::CreateNode(vec![(ls, rows[0].clone())]))
        } else {
            params.insert("rows", Value::List(rows.iter().map(|m| map_value(m)).collect()));
            let body: Vec<String> = ks.iter().map(|k| format!("{0}: r.{0}", KEYS[*k as usize])).collect();
            let q = format!("UNWIND $rows AS r CREATE (n{} {{{}}})", labels_text(&ls), body.join(", "));
            (q, Stmt::CreateNode(rows.into_iter().map(|m| (ls.clone(), m)).collect()))
        }
    } else if w < 28 {
        let (mut a, mut b) = (*r.pick(&live), *r.pick(&live));
        let mut t = r.below(2) as u8;
        if !rf.rels.is_empty() && r.chance(1, 3) {
            // a parallel relationship on an existing key
            let keys: Vec<RKey> = rf.rels.keys().cloned().collect();
            let k = *r.pick(&keys);
            a = k.0; t = k.1; b = k.2;
        }
        if deleted_keys.contains(&(a, t, b)) { return Ok(None); }
        let ks = distinct_keys(r, 0, 3, &[0, 1]);
        let ps: Vec<(u8, Val)> = ks.iter().map(|k| (*k, gen_val(r, 2))).collect();
        params.insert("a", Value::Int(a as i64));
        params.insert("b", Value::Int(b as i64));
        let q = format!("MATCH (a), (b) WHERE id(a) = $a AND id(b) = $b CREATE (a)-[:{} {}]->(b)", TYPES[t as usize], map_text(r, &ps, &mut params, "e"));
        (q, Stmt::CreateRel(vec![(a, t, b, ps)]))
    } else if w < 42 {
        let (m, ids) = selector(r, &mut params)?;
        let n = 1 + r.below(2) as usize;
        let items: Vec<(u8, Val)> = (0..n).map(|_| (r.below(4) as u8, gen_val(r, 3))).collect();
        let mut parts = vec![];
        for (j, (k, v)) in items.iter().enumerate() {
            let lit = if r.chance(1, 2) { v.lit() } else { None };
            parts.push(match lit { Some(l) => format!("n.{} = {}", KEYS[*k as usize], l), None => { params.insert(format!("s{j}"), v.qv()); format!("n.{} = $s{j}", KEYS[*k as usize]) } });
        }
        let rows = ids.iter().flat_map(|i| items.iter().map(move |(k, v)| (*i, *k, v.clone()))).collect();
        (format!("{m} SET {}", parts.join(", ")), Stmt::SetProp(rows))
    } else if w < 50 {
        let (m, ids) = selector(r, &mut params)?;
        let ks: Vec<u8> = (0..1 + r.below(2)).map(|_| r.below(4) as u8).collect();
        let rows = ids.iter().flat_map(|i| ks.iter().map(move |k| (*i, *k))).collect();
        (format!("{m} REMOVE {}", ks.iter().map(|k| format!("n.{}", KEYS[*k as usize])).collect::<Vec<_>>().join(", ")), Stmt::RemoveProp(rows))
    } else if w < 62 {
        let (m, ids) = selector(r, &mut params)?;
        let append = r.chance(1, 2);
        let ks = distinct_keys(r, 0, 4, &[0, 1, 2, 3]);
        let mp: Vec<(u8, Val)> = ks.iter().map(|k| (*k, gen_val(r, 3))).collect();
        let text = if r.chance(1, 2) { params.insert("m", map_value(&mp)); "$m".to_string() } else { map_text(r, &mp, &mut params, "m") };
        let rows = ids.iter().map(|i| (*i, append, mp.clone())).collect();
        (format!("{m} SET n {} {text}", if append { "+=" } else { "=" }), Stmt::SetMap(rows))
    } else if w < 70 {
        let (m, ids) = selector(r, &mut params)?;
        let ls: Vec<u8> = (0..1 + r.below(2)).map(|_| r.below(3) as u8).collect();
        let rows = ids.iter().map(|i| (*i, ls.clone())).collect();
        (format!("{m} SET n{}", labels_text(&ls)), Stmt::SetLabels(rows))
    } else if w < 77 {
        let (m, ids) = selector(r, &mut params)?;
        let ls: Vec<u8> = (0..1 + r.below(2)).map(|_| r.below(4) as u8).collect();
        let rows = ids.iter().map(|i| (*i, ls.clone())).collect();
        (format!("{m} REMOVE n{}", labels_text(&ls)), Stmt::RemoveLabels(rows))
    } else if w < 86 {
        let (m, ids) = selector(r, &mut params)?;
        let detach = r.chance(1, 2);
        (format!("{m} {}DELETE n", if detach { "DETACH " } else { "" }), Stmt::Delete(detach, ids))
    } else if w < 90 {
        if rf.rels.is_empty() { return Ok(None); }
        let keys: Vec<RKey> = rf.rels.keys().cloned().collect();
        let k = *r.pick(&keys);
        params.insert("a", Value::Int(k.0 as i64));
        let q = format!("MATCH (a)-[r:{}]->(b) WHERE id(a) = $a DELETE r", TYPES[k.1 as usize]);
        let rows = read_rows(db, &format!("MATCH (a)-[r:{}]->(b) WHERE id(a) = $a RETURN id(a), id(b)", TYPES[k.1 as usize]), &params)?;
        let ks: Vec<RKey> = rows.iter().filter_map(|row| match (&row[0], &row[1]) { (Value::Int(a), Value::Int(b)) => Some((*a as u32, k.1, *b as u32)), _ => None }).collect();
        (q, Stmt::DeleteRel(ks))
    } else if w < 93 {
        // SET on relationship properties: one row per parallel relationship
        if rf.rels.is_empty() { return Ok(None); }
        let keys: Vec<RKey> = rf.rels.keys().cloned().collect();
        let k0 = *r.pick(&keys);
        params.insert("a", Value::Int(k0.0 as i64));
        let n = 1 + r.below(2) as usize;
        let items: Vec<(u8, Val)> = (0..n).map(|_| (r.below(4) as u8, gen_val(r, 3))).collect();
        let mut parts = vec![];
        for (j, (k, v)) in items.iter().enumerate() {
            params.insert(format!("s{j}"), v.qv());
            parts.push(format!("r.{} = $s{j}", KEYS[*k as usize]));
        }
        let rows = read_rows(db, &format!("MATCH (a)-[r:{}]->(b) WHERE id(a) = $a RETURN id(a), id(b)", TYPES[k0.1 as usize]), &params)?;
        let ks: Vec<RKey> = rows.iter().filter_map(|row| match (&row[0], &row[1]) { (Value::Int(a), Value::Int(b)) => Some((*a as u32, k0.1, *b as u32)), _ => None }).collect();
        let q = format!("MATCH (a)-[r:{}]->(b) WHERE id(a) = $a SET {}", TYPES[k0.1 as usize], parts.join(", "));
        (q, Stmt::SetRelProp(ks.iter().flat_map(|key| items.iter().map(move |(k, v)| (*key, *k, v.clone()))).collect()))
    } else if w < 96 {
        // MERGE of a relationship between two bound nodes (one row: within one statement the executor
        // tracks the relationships it created individually, the storage keeps one property map per key)
        let (mut a, mut b) = (*r.pick(&live), *r.pick(&live));
        let mut t = r.below(2) as u8;
        // direction of the pattern as written; with an existing relationship, the pattern's endpoints are
        // taken in the stored orientation or reversed (both orientations of the existing edge)
        let dir: u8 = match r.below(8) { 0..=2 => 0, 3 | 4 => 1, _ => 2 };
        if !rf.rels.is_empty() && r.chance(2, 3) {
            let keys: Vec<RKey> = rf.rels.keys().cloned().collect();
            let k = *r.pick(&keys);
            t = k.1;
            if r.chance(1, 2) { a = k.0; b = k.2; } else { a = k.2; b = k.0; }
        }
        let created_key = if dir == 1 { (b, t, a) } else { (a, t, b) };
        if deleted_keys.contains(&created_key) || deleted_keys.contains(&(b, t, a)) || deleted_keys.contains(&(a, t, b)) { return Ok(None); }
        let (larrow, rarrow) = match dir { 0 => ("-", "->"), 1 => ("<-", "-"), _ => ("-", "-") };
        let ks = distinct_keys(r, 0, 3, &[0, 1]);
        let held: Vec<Val> = rf.rels.get(&(a, t, b)).or(rf.rels.get(&(b, t, a))).map(|e| e.1.values().cloned().collect()).unwrap_or_default();
        let ps: Vec<(u8, Val)> = ks.iter().map(|k| (*k, if !held.is_empty() && r.chance(1, 2) { r.pick(&held).clone() } else { gen_val(r, 1) })).collect();
        let oc: Vec<(u8, Val)> = if r.chance(1, 2) { vec![(2, gen_val(r, 1))] } else { vec![] };
        let om: Vec<(u8, Val)> = if r.chance(1, 2) { vec![(3, gen_val(r, 2))] } else { vec![] };
        params.insert("a", Value::Int(a as i64));
        params.insert("b", Value::Int(b as i64));
        let mut tail = String::new();
        if let Some((k, v)) = oc.first() { params.insert("oc", v.qv()); tail.push_str(&format!(" ON CREATE SET r.{} = $oc", KEYS[*k as usize])); }
        if let Some((k, v)) = om.first() { params.insert("om", v.qv()); tail.push_str(&format!(" ON MATCH SET r.{} = $om", KEYS[*k as usize])); }
        if !ks.is_empty() && r.chance(1, 2) {
            // several rows on one key: later rows see what earlier rows created
            let n = 2 + r.below(2) as usize;
            let mut rows: Vec<Vec<(u8, Val)>> = vec![ps.clone()];
            for _ in 1..n {
                rows.push(if r.chance(1, 2) { rows[0].clone() } else { ks.iter().map(|k| (*k, gen_val(r, 1))).collect() });
            }
            params.insert("rows", Value::List(rows.iter().map(|m| map_value(m)).collect()));
            let body: Vec<String> = ks.iter().map(|k| format!("{0}: r.{0}", KEYS[*k as usize])).collect();
            let q = format!("MATCH (a), (b) WHERE id(a) = $a AND id(b) = $b UNWIND $rows AS r MERGE (a){larrow}[x:{} {{{}}}]{rarrow}(b){}", TYPES[t as usize], body.join(", "), tail.replace(" r.", " x."));
            (q, Stmt::MergeRel(rows.into_iter().map(|m| ((a, t, b), dir, m, oc.clone(), om.clone())).collect()))
        } else {
            let q = format!("MATCH (a), (b) WHERE id(a) = $a AND id(b) = $b MERGE (a){larrow}[r:{} {}]{rarrow}(b){tail}", TYPES[t as usize], map_text(r, &ps, &mut params, "g"));
            (q, Stmt::MergeRel(vec![((a, t, b), dir, ps, oc, om)]))
        }
    } else {
        // MERGE: pattern keys p0/p1, ON CREATE / ON MATCH keys p2/p3 (disjoint: the executor matches
        // later rows against the snapshot plus the nodes created by earlier rows, not against
        // ON MATCH effects of earlier rows)
        let ls = distinct_keys(r, 0, 3, &[0, 1, 2]);
        let ks = distinct_keys(r, 1, 2, &[0, 1]);
        let n = 1 + r.below(3) as usize;
        let held: Vec<Val> = rf.nodes.values().filter_map(|nd| nd.1.get(&ks[0]).cloned()).collect();
        let rows: Vec<Vec<(u8, Val)>> = (0..n).map(|_| ks.iter().map(|k| (*k, if !held.is_empty() && r.chance(1, 2) { r.pick(&held).clone() } else { gen_val(r, 1) })).collect()).collect();
        let oc: Vec<(u8, Val)> = if r.chance(1, 2) { vec![(2, gen_val(r, 1))] } else { vec![] };
        let om: Vec<(u8, Val)> = if r.chance(1, 2) { vec![(3, gen_val(r, 2))] } else { vec![] };
        let mut tail = String::new();
        if let Some((k, v)) = oc.first() { params.insert("oc", v.qv()); tail.push_str(&format!(" ON CREATE SET n.{} = $oc", KEYS[*k as usize])); }
        if let Some((k, v)) = om.first() { params.insert("om", v.qv()); tail.push_str(&format!(" ON MATCH SET n.{} = $om", KEYS[*k as usize])); }
        let q = if n == 1 && r.chance(1, 2) {
            format!("MERGE (n{} {}){tail}", labels_text(&ls), map_text(r, &rows[0], &mut params, "g"))
        } else {
            params.insert("rows", Value::List(rows.iter().map(|m| map_value(m)).collect()));
            let body: Vec<String> = ks.iter().map(|k| format!("{0}: r.{0}", KEYS[*k as usize])).collect();
            format!("UNWIND $rows AS r MERGE (n{} {{{}}}){tail}", labels_text(&ls), body.join(", "))
        };
        (q, Stmt::MergeNode(rows.into_iter().map(|m| (ls.clone(), m, oc.clone(), om.clone())).collect()))
    };
    Ok(Some((out.0, params, out.1)))
}

fn main() {
    let a = args();
    quiet_panics();
    let mut r = Rng::new(a.seed);
    let mut cw = CaseWriter::new(&a.out, "Corr.C12", 25);
    let mut rep = Report::new(&a.out);
    let mut hist: BTreeMap<String, u64> = BTreeMap::new();
    let mut nontrivial: BTreeSet<String> = BTreeSet::new();
    let (mut evaluations, mut fails) = (0u64, 0u64);
    // ---- fixed probes outside the model (statements chaining two update clauses run only through
    // execute_mixed): SET on a node deleted earlier in the same statement
    {
        let dir = tempfile::tempdir().unwrap();
        let db = Db::open(dir.path().join("p")).unwrap();
        let _ = write_stmt(&db, "CREATE (:LA {p0: 1})", &Params::new(), false);
        let q = "MATCH (n:LA) DETACH DELETE n SET n.p0 = 5";
        let res = write_stmt(&db, q, &Params::new(), true);
        let d = dump(&db);
        let input = json!({"history": ["CREATE (:LA {p0: 1})", q], "entry": "execute_mixed", "reported": format!("{:?}", res)});
        match (&res, &d) {
            (Ok(1), Ok(d)) if d.0.is_empty() => {}
            (Err(_), Ok(d)) if d.0.len() == 1 => {}
            (Ok(2), Ok(d)) if d.0.is_empty() => {
                *hist.entry("known:K-C12-setafterdelete".into()).or_insert(0) += 1;
                rep.fail(0, Some("K-C12-setafterdelete"), "SET on a node deleted earlier in the same statement is executed and counted", input);
            }
            _ => {
                fails += 1;
                rep.fail(0, None, &format!("DETACH DELETE n SET n.p0 = 5: reported {:?}, dump {:?}", res, d), input);
            }
        }
        let q2 = "MATCH (n) SET n.p0 = 1 REMOVE n.p0";
        // regression (fixed in /repo): execute_write used to reject every statement with two update clauses
        if let Err(e) = write_stmt(&db, q2, &Params::new(), false) {
            fails += 1;
            rep.fail(0, None, &format!("execute_write rejects a statement with two update clauses: {q2}: {e}"), json!({"query": q2}));
        }
    }
    for idx in 0..a.n {
        let dir = if std::path::Path::new("/dev/shm").is_dir() { tempfile::tempdir_in("/dev/shm").unwrap() } else { tempfile::tempdir().unwrap() };
        let db = Db::open(dir.path().join("g")).unwrap();
        let mut rf = Ref::default();
        let mut deleted_keys: BTreeSet<RKey> = BTreeSet::new();
        let mut steps: Vec<String> = vec![];
        let mut log: Vec<serde_json::Value> = vec![];
        let nst = 5 + r.below(12) as usize;
        let mut pending_repeat: Option<(String, Params, Stmt)> = None;
        let mut i = 0;
        while i < nst {
            i += 1;
            let is_repeat = pending_repeat.is_some();
            let g = match pending_repeat.take() {
                Some(x) => Some(x),
                None => match gen_stmt(&mut r, &db, &rf, &deleted_keys) {
                    Ok(x) => x,
                    Err(e) => { fails += 1; rep.fail(idx, None, &format!("could not read the bound rows: {e}"), json!({"log": log})); break; }
                },
            };
            let Some((q, params, st)) = g else { continue };
            *hist.entry(format!("stmt:{}", st.kind())).or_insert(0) += 1;
            if let Stmt::MergeRel(rows) = &st {
                let (wk, dir) = (rows[0].0, rows[0].1);
                let stored = if rf.rels.contains_key(&wk) && rf.rels.contains_key(&(wk.2, wk.1, wk.0)) { "both" } else if rf.rels.contains_key(&wk) { "as-written" } else if rf.rels.contains_key(&(wk.2, wk.1, wk.0)) { "reversed" } else { "none" };
                *hist.entry(format!("merge-rel:{}/existing-{}", ["->", "<-", "undirected"][dir as usize], stored)).or_insert(0) += 1;
            }
            let before = rf.clone();
            let mixed = r.chance(1, 2);
            *hist.entry(format!("entry:{}", if mixed { "execute_mixed" } else { "execute_write" })).or_insert(0) += 1;
            let res = vh::catch(std::panic::AssertUnwindSafe(|| write_stmt(&db, &q, &params, mixed)));
            let res = match res { Ok(x) => x, Err(p) => { fails += 1; rep.fail(idx, None, &format!("panic in {q}: {p}"), json!({"log": log})); break; } };
            evaluations += 1;
            let expect = rf.exec(&st);
            if expect.is_none() { rf = before.clone(); }
            let d = match dump(&db) { Ok(d) => d, Err(e) => { fails += 1; rep.fail(idx, None, &format!("dump failed after {q}: {e}"), json!({"log": log})); break; } };
            log.push(json!({"q": q, "entry": if mixed { "execute_mixed" } else { "execute_write" }, "stmt": format!("{:?}", st), "reported": format!("{:?}", res), "expected": expect}));
            let input = json!({"history": log});
            if evaluations <= 3 { rep.case(idx, input.clone()); }
            let (cn_, cr_) = coq_dump(&d);
            steps.push(format!("{{| o_stmt := {}; o_count := {}; o_nodes := {}; o_rels := {} |}}", st.coq(), coq_opt(&res.as_ref().ok().cloned(), |c| cn(*c as u128)), cn_, cr_));
            if let Err(e) = &res { *hist.entry(format!("error:{}", e.split(':').nth(1).unwrap_or("?").trim().chars().take(40).collect::<String>())).or_insert(0) += 1; }
            // ---- direct checks on the implementation
            let mut class: Option<&str> = None;
            let mut what = String::new();
            // 1. dump equals the independent reference graph, count as the reference predicts
            if !dump_eq(&d, &rf) || res.as_ref().ok().cloned() != expect {
                what = format!("graph or count differs from the reference: reported {:?}, expected {:?}; dump {:?} vs reference {:?}", res, expect, d, (&rf.nodes, &rf.rels));
            }
            // 2. DELETE fails iff a target has a relationship
            if let Stmt::Delete(false, ids) = &st {
                let has = before.rels.keys().any(|k| ids.contains(&k.0) || ids.contains(&k.2));
                if has != res.is_err() { what = format!("DELETE of nodes {ids:?}: has relationships = {has}, failed = {}", res.is_err()); }
            }
            // 3. no relationship without its endpoints
            if d.1.keys().any(|k| !d.0.contains_key(&k.0) || !d.0.contains_key(&k.2)) { what = "dangling relationship after the statement".into(); }
            // 4. a MERGE repeated at once creates nothing
            if is_repeat {
                let nrel = |m: &BTreeMap<RKey, (u32, Props)>| m.values().map(|v| v.0).sum::<u32>();
                if res.as_ref().ok() != Some(&0) || d.0.len() != before.nodes.len() || nrel(&d.1) != nrel(&before.rels) {
                    what = format!("repeated MERGE created something: reported {:?}, nodes {} -> {}", res, before.nodes.len(), d.0.len());
                    let nan = |ps: &Vec<(u8, Val)>| ps.iter().any(|(_, v)| matches!(v, Val::Float(b) if f64::from_bits(*b).is_nan()));
                    let has_nan = match &st { Stmt::MergeNode(rows) => rows.iter().any(|row| nan(&row.1)), Stmt::MergeRel(rows) => rows.iter().any(|row| nan(&row.2)), _ => false };
                    if has_nan && dump_eq(&d, &rf) { class = Some("K-C12-mergenan"); }
                    // relationships have no identity: rows of one statement that merge DIFFERENT pattern maps on
                    // one (src,type,dst) overwrite each other's properties, so the first pattern no longer matches
                    if let Stmt::MergeRel(rows) = &st {
                        let differing = rows.iter().any(|x| rows.iter().any(|y| x.0 == y.0 && !(x.2.len() == y.2.len() && x.2.iter().zip(y.2.iter()).all(|(p, q)| p.0 == q.0 && pv_eq(&p.1, &q.1)))));
                        if class.is_none() && differing && dump_eq(&d, &rf) && res.as_ref().ok().cloned() == expect { class = Some("K-C12-relidentity"); }
                    }
                }
            }
            // 5. a stored property is never null
            let stored_null = |nodes: &BTreeMap<u32, (BTreeSet<u8>, Props)>, rels: &BTreeMap<RKey, (u32, Props)>| nodes.values().any(|n| n.1.values().any(|v| *v == Val::Null)) || rels.values().any(|e| e.1.values().any(|v| *v == Val::Null));
            if what.is_empty() && stored_null(&d.0, &d.1) && !stored_null(&before.nodes, &before.rels) {
                what = "a node or relationship stores a null property value".into();
                let from_merge = match &st {
                    Stmt::MergeNode(rows) => rows.iter().any(|row| row.1.iter().any(|(_, v)| *v == Val::Null)),
                    Stmt::MergeRel(rows) => rows.iter().any(|row| row.2.iter().any(|(_, v)| *v == Val::Null)),
                    _ => false,
                };
                if from_merge && dump_eq(&d, &rf) { class = Some("K-C12-mergenull"); }
            }
            // 6. CREATE / DELETE counts are the size differences (relationships counted with multiplicity)
            if what.is_empty() && res.is_ok() {
                let size = |n: usize, rels: &BTreeMap<RKey, (u32, Props)>| n as i64 + rels.values().map(|v| v.0 as i64).sum::<i64>();
                let (s0, s1) = (size(before.nodes.len(), &before.rels), size(d.0.len(), &d.1));
                let cnt = *res.as_ref().unwrap() as i64;
                match &st {
                    Stmt::CreateNode(_) | Stmt::CreateRel(_) | Stmt::MergeNode(_) | Stmt::MergeRel(_) if s1 - s0 != cnt => what = format!("count {cnt} but {} entities were created", s1 - s0),
                    Stmt::Delete(..) | Stmt::DeleteRel(_) if s0 - s1 != cnt => {
                        what = format!("count {cnt} but {} entities were deleted", s0 - s1);
                        let removed_parallel = before.rels.iter().any(|(k, v)| v.0 > 1 && !d.1.contains_key(k));
                        if removed_parallel && dump_eq(&d, &rf) { class = Some("K-C12-parallelcount"); }
                    }
                    _ => {}
                }
            }
            if !what.is_empty() {
                if class.is_none() { fails += 1; } else { *hist.entry(format!("known:{}", class.unwrap())).or_insert(0) += 1; }
                rep.fail(idx, class, &what, input);
                if class.is_none() { break; }
            }
            if res.as_ref().map(|c| *c > 0).unwrap_or(false) { nontrivial.insert(format!("{:?}|{:?}", st, before.nodes.len())); }
            if let Stmt::Delete(..) | Stmt::DeleteRel(_) = &st { for k in before.rels.keys() { if !rf.rels.contains_key(k) { deleted_keys.insert(*k); } } }
            // schedule the immediate repetition of a MERGE (at most once)
            if let (Stmt::MergeNode(_) | Stmt::MergeRel(_), false, true) = (&st, is_repeat, res.is_ok()) { pending_repeat = Some((q, params, st)); }
        }
        cw.push(format!("{{| c_steps := [{}] |}}", steps.join("; ")));
    }
    cw.flush();
    let files: Vec<String> = cw.files.iter().map(|p| p.to_string_lossy().to_string()).collect();
    rep.stats(json!({
        "evaluations": evaluations, "corr_cases": a.n, "distinct_nontrivial": nontrivial.len(),
        "rule": "a statement counts as non-trivial when the engine reports a change count > 0; distinct by (evaluated statement, graph size)",
        "histogram": hist, "unclassified_failures": fails, "case_files": files,
    }));
    rep.finish();
}
