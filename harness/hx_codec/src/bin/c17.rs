//! C17 — any log tail is tolerated on open: correspondence cases + direct search.
//!
//! A base history is run through the real engine (nodes, labels, edges, properties of
//! every value kind, one commit per transaction); after every commit k the page file
//! and the log L_k are kept.  A case is (page file k, L_k ++ tail) where the tail is
//!   trunc    every proper prefix of the frames of transaction k+1 (all truncation points)
//!   flip     the frames of transaction k+1 with one bit flipped in its last two records
//!   zeros    zero-filled space of several lengths
//!   random   random bytes
//!   len      plausible length fields: 0, small, MAX, MAX+1, huge, with too little / random data
//!   crc      a complete frame whose checksum field is corrupted
//! and runs: replay_committed on the file, GraphEngine::open, logical dump, the file after
//! open, commit of a new transaction, the file after it, reopen, dump; a second round
//! (new garbage behind the new commit, open, commit, reopen) on a quarter of the cases.
use hx_codec::walx::*;
use hx_codec::*;
use nervusdb_api::{GraphSnapshot, GraphStore, PropertyValue as PV};
use nervusdb_storage::engine::GraphEngine;
use nervusdb_storage::wal::Wal;
use serde_json::json;
use std::collections::{BTreeMap, BTreeSet};
use std::path::Path;
use vh::*;

type Dump = Vec<String>;

fn dump(e: &GraphEngine) -> Dump {
    let s = e.snapshot();
    let mut out = vec![];
    let mut ids: Vec<u32> = s.nodes().collect();
    ids.sort();
    for iid in ids {
        let ext = s.resolve_external(iid);
        let mut labels: Vec<String> = s.resolve_node_labels(iid).unwrap_or_default().into_iter().filter_map(|l| s.resolve_label_name(l)).collect();
        labels.sort();
        let props: Vec<String> = s.node_properties(iid).unwrap_or_default().iter().map(|(k, v)| format!("{}={}", k, coq_pv(v))).collect();
        out.push(format!("node {} ext={:?} labels={:?} props={:?} lookup={:?}", iid, ext, labels, props, ext.and_then(|x| e.lookup_internal_id(x))));
        let mut es: Vec<_> = s.neighbors(iid, None).collect();
        es.sort();
        for ek in es {
            let props: Vec<String> = s.edge_properties(ek).unwrap_or_default().iter().map(|(k, v)| format!("{}={}", k, coq_pv(v))).collect();
            out.push(format!("edge {}-{}->{} props={:?}", ek.src, ek.rel, ek.dst, props));
        }
    }
    out
}

struct Stage {
    ndb: Vec<u8>,
    wal: Vec<u8>,
    dump: Dump,
}

fn open(dir: &Path) -> Result<GraphEngine, String> {
    match catch(|| GraphEngine::open(dir.join("g.ndb"), dir.join("g.wal"))) {
        Ok(Ok(e)) => Ok(e),
        Ok(Err(e)) => Err(format!("error: {}", e)),
        Err(m) => Err(format!("panic: {}", m)),
    }
}

/// the base history: transaction k of `n_tx`; returns the stages after 0..=n_tx commits
fn build_base(r: &mut Rng, n_tx: usize) -> Vec<Stage> {
    let dir = tempfile::tempdir().unwrap();
    let d = dir.path();
    let mut stages = vec![];
    let snapshot = |d: &Path| -> Stage {
        let e = open(d).expect("base reopen");
        let dm = dump(&e);
        drop(e);
        Stage { ndb: std::fs::read(d.join("g.ndb")).unwrap(), wal: std::fs::read(d.join("g.wal")).unwrap(), dump: dm }
    };
    {
        let e = open(d).expect("base open");
        drop(e);
    }
    stages.push(snapshot(d));
    let mut next_ext = 10u64;
    let mut nodes: Vec<u32> = vec![];
    for k in 0..n_tx {
        let e = open(d).expect("base open");
        let label = e.get_or_create_label(if k % 2 == 0 { "A" } else { "Bé" }).unwrap();
        let mut tx = e.begin_write();
        let n_new = 1 + r.below(2);
        for _ in 0..n_new {
            let iid = tx.create_node(next_ext, label).unwrap();
            next_ext += 1;
            nodes.push(iid);
            tx.set_node_property(iid, "p".into(), gen_value(r, 1));
        }
        if nodes.len() >= 2 {
            let s = *r.pick(&nodes);
            let t = *r.pick(&nodes);
            let rel = tx.get_or_create_rel_type("R").unwrap();
            tx.create_edge(s, rel, t);
            if r.chance(1, 2) {
                tx.set_edge_property(s, rel, t, "w".into(), PV::Float(f64::from_bits(*r.pick(F_SPECIAL))));
            }
        }
        if k > 0 && r.chance(1, 2) {
            let nd = *r.pick(&nodes);
            tx.set_node_property(nd, "名".into(), PV::String(gen_str(r)));
        }
        tx.commit().unwrap();
        drop(e);
        stages.push(snapshot(d));
    }
    stages
}

struct RoundOut {
    replay0: Replay,
    open_err: Option<String>,
    dump1: Dump,
    after_open: Vec<u8>,
    after_commit: Vec<u8>,
    replay1: Replay,
    reopen_err: Option<String>,
    dump2: Dump,
}

/// one round on the files in `d`: replay, open, dump, commit a new node, reopen, dump
fn round(d: &Path, new_ext: u64) -> RoundOut {
    let wal_path = d.join("g.wal");
    let replay0 = classify(catch(|| Wal::replay_committed_from_path(&wal_path)));
    let mut out = RoundOut { replay0, open_err: None, dump1: vec![], after_open: vec![], after_commit: vec![], replay1: Replay::Other("not run".into()), reopen_err: None, dump2: vec![] };
    let e = match open(d) {
        Ok(e) => e,
        Err(m) => {
            out.open_err = Some(m);
            return out;
        }
    };
    out.dump1 = dump(&e);
    out.after_open = std::fs::read(&wal_path).unwrap();
    let committed = catch(std::panic::AssertUnwindSafe(|| -> Result<(), String> {
        let label = e.get_or_create_label("A").map_err(|x| x.to_string())?;
        let mut tx = e.begin_write();
        let iid = tx.create_node(new_ext, label).map_err(|x| x.to_string())?;
        tx.set_node_property(iid, "fresh".into(), PV::Int(new_ext as i64));
        tx.commit().map_err(|x| x.to_string())
    }));
    drop(e);
    out.after_commit = std::fs::read(&wal_path).unwrap();
    if !matches!(committed, Ok(Ok(()))) {
        out.reopen_err = Some(format!("commit after open failed: {:?}", committed));
        return out;
    }
    out.replay1 = classify(catch(|| Wal::replay_committed_from_path(&wal_path)));
    match open(d) {
        Ok(e) => out.dump2 = dump(&e),
        Err(m) => out.reopen_err = Some(m),
    }
    out
}

fn main() {
    let a = args();
    quiet_panics();
    let mut r = Rng::new(a.seed);
    let mut cw = CaseWriter::new(&a.out, "Corr.C17", 150);
    let mut rep = Report::new(&a.out);
    let mut hist = BTreeMap::<String, u64>::new();
    let mut distinct = BTreeSet::<Vec<u8>>::new();
    let mut fails = 0u64;
    let mut idx = 0usize;
    let mut samples = 0;

    let n_bases = if a.tier == "thorough" { 6 } else { 2 };
    let per_base = a.n / n_bases;
    for base_no in 0..n_bases {
        let n_tx = 3;
        let stages = build_base(&mut r, n_tx);
        // tails per stage k (k = 0 .. n_tx-1 have a "next transaction")
        let mut variants: Vec<(usize, String, Vec<u8>)> = vec![];
        for k in 0..stages.len() {
            let lk = &stages[k].wal;
            if k + 1 < stages.len() {
                let next = &stages[k + 1].wal[lk.len()..];
                // every truncation point of the next transaction
                for p in 1..next.len() {
                    variants.push((k, "trunc".into(), next[..p].to_vec()));
                }
                // bit flips in the last two records of the next transaction
                let mut offs = vec![];
                let mut o = 0usize;
                while o + 8 <= next.len() {
                    offs.push(o);
                    o += 8 + u32::from_le_bytes(next[o..o + 4].try_into().unwrap()) as usize;
                }
                let from = offs[offs.len().saturating_sub(2)];
                for byte in from..next.len() {
                    let bit = r.below(8);
                    let mut t = next.to_vec();
                    t[byte] ^= 1 << bit;
                    variants.push((k, "flip".into(), t));
                }
                // corrupted checksum field of the first / last frame
                for &o in [offs[0], *offs.last().unwrap()].iter() {
                    let mut t = next.to_vec();
                    t[o + 4..o + 8].copy_from_slice(&[0, 0, 0, 0]);
                    variants.push((k, "crc".into(), t));
                }
            }
            for n in [1usize, 3, 4, 7, 8, 9, 64, 4096] {
                variants.push((k, "zeros".into(), vec![0u8; n]));
            }
            for _ in 0..12 {
                let n = 1 + r.below(40) as usize;
                variants.push((k, "random".into(), r.bytes(n)));
            }
            for len in [0u32, 1, 5, 9, 100, 1024 * 1024 - 1, 1024 * 1024, 1024 * 1024 + 1, 0x7FFF_FFFF, 0xFFFF_FFFF] {
                for extra in [0usize, 3, 4, 12, 40] {
                    let mut t = len.to_le_bytes().to_vec();
                    t.extend(r.bytes(extra));
                    variants.push((k, "len".into(), t));
                }
            }
            // length 0 with a zero checksum followed by garbage (a "valid" empty frame), and a
            // checksummed frame with an undecodable body is NOT a tail (it is a corrupt record)
            variants.push((k, "len".into(), { let mut t = vec![0u8; 8]; t.extend(r.bytes(9)); t }));
        }
        // sample down to the budget, keeping all kinds
        while variants.len() > per_base {
            let i = r.below(variants.len() as u64) as usize;
            variants.swap_remove(i);
        }
        for (vi, (k, kind, tail)) in variants.iter().enumerate() {
            let st = &stages[*k];
            let dir = tempfile::tempdir().unwrap();
            let d = dir.path();
            std::fs::write(d.join("g.ndb"), &st.ndb).unwrap();
            let mut file = st.wal.clone();
            file.extend_from_slice(tail);
            std::fs::write(d.join("g.wal"), &file).unwrap();
            *hist.entry(format!("tail:{}", kind)).or_insert(0) += 1;
            let new_ext = 900_000 + idx as u64;
            let o = round(d, new_ext);
            *hist.entry(format!("replay:{}", o.replay0.kind())).or_insert(0) += 1;
            distinct.insert(file.clone());
            let input = json!({"base": base_no, "stage": k, "tail_kind": kind, "log_len": st.wal.len(), "tail_hex": hex_short(tail)});
            // ---- direct: the property on the implementation ----
            let mut bad: Option<String> = None;
            if let Some(m) = &o.open_err {
                bad = Some(format!("open fails on a log with a {} tail: {}", kind, m));
            } else if o.dump1 != st.dump {
                bad = Some(format!("open recovered something else than the completely written committed transactions (tail {})", kind));
            } else if let Some(m) = &o.reopen_err {
                bad = Some(format!("after a {} tail: {}", kind, m));
            } else {
                let want: Vec<String> = st.dump.clone();
                let fresh: Vec<&String> = o.dump2.iter().filter(|l| l.contains(&format!("ext=Some({})", new_ext))).collect();
                let rest: Vec<String> = o.dump2.iter().filter(|l| !l.contains(&format!("ext=Some({})", new_ext))).cloned().collect();
                if fresh.len() != 1 || !fresh[0].contains("fresh=") || rest != want {
                    bad = Some(format!("a transaction committed after opening a log with a {} tail is not (fully) there after reopen: new node lines {:?}", kind, fresh));
                }
            }
            if let Some(m) = bad {
                fails += 1;
                rep.fail(idx, None, &m, input.clone());
            }
            let suffix: Vec<u8> = if o.after_commit.len() >= o.after_open.len() && o.after_commit[..o.after_open.len()] == o.after_open[..] {
                o.after_commit[o.after_open.len()..].to_vec()
            } else {
                if o.open_err.is_none() {
                    fails += 1;
                    rep.fail(idx, None, "the log after the commit does not extend the log after open", input.clone());
                }
                vec![]
            };
            if o.open_err.is_none() && (o.after_open.len() > file.len() || o.after_open[..] != file[..o.after_open.len()]) {
                fails += 1;
                rep.fail(idx, None, "open changed the log other than by cutting its tail", input.clone());
            }
            cw.push(format!(
                "{{| base := {}; tail := {}; impl_replay := {}; impl_open_ok := {}; impl_after_open_len := {}; impl_suffix := {}; impl_replay_after := {} |}}",
                coq_bytes(&st.wal), coq_bytes(tail), o.replay0.coq(), coq_bool(o.open_err.is_none()), coq_n(o.after_open.len() as u128),
                coq_bytes(&suffix), if o.open_err.is_none() && o.reopen_err.is_none() { o.replay1.coq() } else { "(inr LNoFuel)".into() }
            ));
            if samples < 4 && vi % 97 == 0 {
                samples += 1;
                rep.case(idx, json!({"input": input, "open": o.open_err.clone().unwrap_or("ok".into()), "after_open_len": o.after_open.len(), "appended": suffix.len(), "dump_after": o.dump2}));
            }
            idx += 1;

            // ---- second round on a quarter of the cases: garbage again behind the new commit ----
            if o.open_err.is_none() && o.reopen_err.is_none() && vi % 4 == 0 {
                let want_before = o.dump2.clone();
                let mut f2 = std::fs::read(d.join("g.wal")).unwrap();
                let base2 = f2.clone();
                let t2: Vec<u8> = match r.below(3) { 0 => vec![0u8; 16], 1 => { let k = 1 + r.below(30) as usize; r.bytes(k) } _ => { let p = 1 + r.below(suffix.len().max(2) as u64 - 1) as usize; suffix[..p.min(suffix.len())].to_vec() } };
                f2.extend_from_slice(&t2);
                std::fs::write(d.join("g.wal"), &f2).unwrap();
                let ext2 = 1_900_000 + idx as u64;
                let o2 = round(d, ext2);
                *hist.entry("round:2".into()).or_insert(0) += 1;
                let ok2 = o2.open_err.is_none() && o2.dump1 == want_before && o2.reopen_err.is_none()
                    && o2.dump2.iter().filter(|l| l.contains(&format!("ext=Some({})", ext2))).count() == 1
                    && o2.dump2.iter().filter(|l| !l.contains(&format!("ext=Some({})", ext2))).cloned().collect::<Vec<_>>() == want_before;
                if !ok2 {
                    fails += 1;
                    rep.fail(idx, None, &format!("second round (garbage behind a commit that followed a tail): open={:?} reopen={:?}", o2.open_err, o2.reopen_err),
                        json!({"first": input, "second_tail_hex": hex_short(&t2)}));
                }
                let suffix2: Vec<u8> = if o2.after_commit.len() >= o2.after_open.len() { o2.after_commit[o2.after_open.len()..].to_vec() } else { vec![] };
                cw.push(format!(
                    "{{| base := {}; tail := {}; impl_replay := {}; impl_open_ok := {}; impl_after_open_len := {}; impl_suffix := {}; impl_replay_after := {} |}}",
                    coq_bytes(&base2), coq_bytes(&t2), o2.replay0.coq(), coq_bool(o2.open_err.is_none()), coq_n(o2.after_open.len() as u128),
                    coq_bytes(&suffix2), if o2.open_err.is_none() && o2.reopen_err.is_none() { o2.replay1.coq() } else { "(inr LNoFuel)".into() }
                ));
                idx += 1;
            }
        }
    }
    cw.flush();
    rep.stats(json!({
        "evaluations": idx,
        "corr_cases": cw.total,
        "distinct_nontrivial": distinct.len(),
        "rule": "distinct by log file bytes; every case has a non-empty tail behind a log of 0-3 committed transactions written by the real engine",
        "histogram": hist,
        "direct_failures": fails,
        "case_files": cw.files.iter().map(|p| p.to_string_lossy().to_string()).collect::<Vec<_>>(),
    }));
    rep.finish();
}
