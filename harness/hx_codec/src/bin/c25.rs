//! C25 — value and log encodings round-trip safely: correspondence cases + direct search.
//!
//! Streams (each reported in the histogram):
//!   corpus      witnesses of repaired / recorded defects, run first, in child processes
//!   small       every value with <= 3 constructors over a small palette (exhaustive)
//!   value       structured random values (nested <= 4), boundary floats / ints / strings
//!   bytes       encodings mutated (bit flips, truncation, length-field attacks, splices),
//!               random bytes, nested headers; decoded under catch_unwind with the
//!               counting allocator
//!   utf8        byte strings near the UTF-8 well-formedness boundaries
//!   wal-*       WAL records through the public `Wal` API (see walx.rs)
//!   stack       nested list headers decoded in a child process (exit status observed)
use hx_codec::walx;
use hx_codec::*;
use nervusdb_api::{DecodeError, PropertyValue as PV};
use serde_json::json;
use std::collections::{BTreeMap, BTreeSet};
use vh::*;

fn coq_derr(e: &DecodeError) -> String {
    match e {
        DecodeError::Empty => "EEmpty".into(),
        DecodeError::InvalidLength => "EInvalidLength".into(),
        DecodeError::InvalidUtf8 => "EInvalidUtf8".into(),
        DecodeError::UnknownType(t) => format!("(EUnknownType {})", coq_n(*t as u128)),
        DecodeError::TooDeep => "ETooDeep".into(),
    }
}
fn err_kind(e: &DecodeError) -> &'static str {
    match e {
        DecodeError::Empty => "empty",
        DecodeError::InvalidLength => "invalid-length",
        DecodeError::InvalidUtf8 => "invalid-utf8",
        DecodeError::UnknownType(_) => "unknown-type",
        DecodeError::TooDeep => "too-deep",
    }
}

/// PropertyValue::decode under catch_unwind + allocation meter
struct DecOut {
    res: Result<Result<PV, DecodeError>, String>, // outer Err = panic message
    peak: usize,
    maxreq: usize,
}
fn decode_measured(b: &[u8]) -> DecOut {
    let (res, peak, maxreq) = measured(|| catch(|| PV::decode(b)));
    DecOut { res, peak, maxreq }
}
/// number of input bytes the decoder needs: the shortest prefix that decodes
/// (the decoder reads left to right; observed through the public API only)
fn consumed_of(b: &[u8]) -> Option<usize> {
    let ok = |x: &[u8]| matches!(catch(|| PV::decode(x).is_ok()), Ok(true));
    if !ok(b) {
        return None;
    }
    let (mut lo, mut hi) = (0usize, b.len()); // decode(b[..hi]) ok, decode(b[..lo]) not (lo = 0: empty)
    while lo + 1 < hi {
        let mid = (lo + hi) / 2;
        if ok(&b[..mid]) { hi = mid } else { lo = mid }
    }
    Some(hi)
}
fn coq_res(r: &Result<Result<PV, DecodeError>, String>) -> String {
    match r {
        Ok(Ok(v)) => format!("(Ok {})", coq_pv(v)),
        Ok(Err(e)) => format!("(Err {})", coq_derr(e)),
        Err(_) => "Panic".into(),
    }
}

fn nested_headers(tag: u8, k: usize, count: u32, tail: &[u8]) -> Vec<u8> {
    let mut b = Vec::with_capacity(k * 9 + tail.len());
    for _ in 0..k {
        b.push(tag);
        b.extend_from_slice(&count.to_le_bytes());
        if tag == 8 {
            b.extend_from_slice(&0u32.to_le_bytes()); // empty key
        }
    }
    b.extend_from_slice(tail);
    b
}

fn mutate_bytes(r: &mut Rng, enc: &[u8]) -> Vec<u8> {
    let mut b = enc.to_vec();
    match r.below(9) {
        0 => {
            // truncation
            let n = r.below(b.len() as u64 + 1) as usize;
            b.truncate(n);
        }
        1 => {
            // bit flip
            if !b.is_empty() {
                let i = r.below(b.len() as u64) as usize;
                b[i] ^= 1 << r.below(8);
            }
        }
        2 => {
            // length-field attack: overwrite 4 bytes after some tag position
            if b.len() >= 5 {
                let i = 1 + r.below((b.len() - 4) as u64) as usize;
                let v: u32 = *r.pick(&[0xFFFF_FFFFu32, 0x8000_0000, 0x7FFF_FFFF, 0x0100_0000, 0x0001_0000, 256, 255, 5, 2, 1, 0]);
                b[i..i + 4].copy_from_slice(&v.to_le_bytes());
            }
        }
        3 => {
            // the first length field
            if b.len() >= 5 {
                let v: u32 = *r.pick(&[0xFFFF_FFFFu32, 0xFFFF_FFFE, 0x4000_0000, 70000, 300, 3, 1, 0]);
                b[1..5].copy_from_slice(&v.to_le_bytes());
            }
        }
        4 => {
            // byte replaced
            if !b.is_empty() {
                let i = r.below(b.len() as u64) as usize;
                b[i] = *r.pick(&[0u8, 1, 4, 7, 8, 9, 0x7F, 0x80, 0xC0, 0xED, 0xF4, 0xFF]);
            }
        }
        5 => {
            // insertion / deletion
            let i = r.below(b.len() as u64 + 1) as usize;
            if r.chance(1, 2) || b.is_empty() {
                b.insert(i, r.next() as u8)
            } else {
                b.remove(i.min(b.len() - 1));
            }
        }
        6 => {
            // trailing junk
            let n = 1 + r.below(6) as usize;
            b.extend(r.bytes(n));
        }
        7 => {
            // wrap into a list / map header with a wrong count
            let mut w = vec![if r.chance(1, 2) { 7u8 } else { 8 }];
            w.extend_from_slice(&(r.below(4) as u32).to_le_bytes());
            w.extend_from_slice(&b);
            b = w;
        }
        _ => {
            // tag changed
            if !b.is_empty() {
                b[0] = r.below(11) as u8;
            }
        }
    }
    b
}

fn gen_utf8ish(r: &mut Rng) -> Vec<u8> {
    const LEAD: &[u8] = &[0x00, 0x41, 0x7F, 0x80, 0xBF, 0xC0, 0xC1, 0xC2, 0xDF, 0xE0, 0xE1, 0xEC, 0xED, 0xEE, 0xEF, 0xF0, 0xF1, 0xF3, 0xF4, 0xF5, 0xFF];
    const CONT: &[u8] = &[0x7F, 0x80, 0x8F, 0x90, 0x9F, 0xA0, 0xBF, 0xC0];
    let mut b = vec![];
    for _ in 0..(1 + r.below(3)) {
        b.push(*r.pick(LEAD));
        for _ in 0..r.below(4) {
            b.push(*r.pick(CONT));
        }
    }
    if r.chance(1, 6) {
        b = gen_str(r).into_bytes();
        if !b.is_empty() && r.chance(1, 2) {
            let n = b.len() - 1;
            b.truncate(n);
        }
    }
    b
}

fn child_main(mode: &str, path: &std::path::Path) -> ! {
    let b = std::fs::read(path).unwrap();
    match mode {
        "decode" => {
            let (r, peak, maxreq) = measured(|| PV::decode(&b));
            let tag = match &r {
                Ok(v) => format!("ok depth={}", pv_depth(v)),
                Err(e) => format!("err {}", err_kind(e)),
            };
            println!("{} peak={} maxreq={}", tag, peak, maxreq);
            // the value is dropped here (recursive drop is part of what is observed)
            drop(r);
            println!("dropped");
        }
        "wal" => {
            walx::child_replay(&b);
        }
        _ => {}
    }
    std::process::exit(0)
}

fn main() {
    if let Some((mode, path)) = child_mode() {
        child_main(&mode, &path);
    }
    let a = args();
    quiet_panics();
    let mut r = Rng::new(a.seed);
    let mut cw = CaseWriter::new(&a.out, "Corr.C25", 400);
    let mut rep = Report::new(&a.out);
    let mut hist = BTreeMap::<String, u64>::new();
    let mut distinct = BTreeSet::<Vec<u8>>::new();
    let mut fails = 0u64;
    let mut idx = 0usize;
    let mut samples = 0;
    let pv_size = std::mem::size_of::<PV>();
    let mut max_ratio = 0f64;
    macro_rules! bump {
        ($k:expr) => {
            *hist.entry($k.to_string()).or_insert(0) += 1
        };
    }

    // ---------- corpus (child processes): witnesses of repaired defects ----------
    // K-C25-capacity (repaired): a list header announcing 2^32-1 elements
    let corpus: Vec<(&str, Vec<u8>)> = vec![
        ("capacity-list", vec![7, 0xFF, 0xFF, 0xFF, 0xFF]),
        ("capacity-list-1", vec![7, 0xFF, 0xFF, 0xFF, 0x7F, 0]),
        ("capacity-nested", nested_headers(7, 40, 0xFFFF_FFFF, &[0; 64])),
        ("capacity-in-map", { let mut b = vec![8, 1, 0, 0, 0, 1, 0, 0, 0, b'k']; b.extend_from_slice(&[7, 0xFE, 0xFF, 0xFF, 0xFF, 0]); b }),
    ];
    for (name, b) in &corpus {
        let out = run_child("decode", b, &a.out);
        bump!("stream:corpus");
        let died = out.code != Some(0);
        let peak: usize = out.stdout.split("peak=").nth(1).and_then(|s| s.split_whitespace().next()).and_then(|s| s.parse().ok()).unwrap_or(usize::MAX);
        if died || peak > 4096 + 256 * b.len() {
            fails += 1;
            rep.fail(idx, None,
                &format!("PropertyValue::decode of a {}-byte input ({}) {}: exit={:?} signal={:?} peak={} stderr={}", b.len(), name,
                    if died { "killed the process" } else { "allocated without relation to the input" },
                    out.code, out.signal, peak, out.stderr.lines().next().unwrap_or("")),
                json!({"bytes_hex": hex_short(b), "stream": "corpus"}));
        }
        // and as an ordinary correspondence case below (only reached when the child survived)
        if !died {
            push_dec_case(b, "corpus", &mut cw, &mut rep, &mut hist, &mut distinct, &mut fails, &mut idx, &mut samples, pv_size, &mut max_ratio);
        } else {
            idx += 1;
        }
    }

    if fails > 0 {
        // a corpus witness kills the process again: the in-process streams below would die the
        // same way; report what was found
        rep.stats(json!({"evaluations": idx, "distinct_nontrivial": 0, "histogram": hist, "direct_failures": fails, "case_files": Vec::<String>::new(),
            "rule": "stopped after the corpus: a recorded witness fails again"}));
        rep.finish();
        return;
    }

    // ---------- values ----------
    let n_values = a.n * 3 / 10;
    let small = small_values(3);
    let mut values: Vec<(&str, PV)> = small.into_iter().map(|v| ("small", v)).collect();
    for _ in 0..n_values {
        let d = 1 + r.below(4) as u32;
        values.push(("value", gen_value(&mut r, d)));
    }
    // a deep but harmless value, and a wide one
    {
        let mut v = PV::Int(7);
        for i in 0..60 {
            v = if i % 2 == 0 { PV::List(vec![v]) } else { PV::Map(BTreeMap::from([("k".to_string(), v)])) };
        }
        values.push(("value", v));
        // exactly MAX_PROPERTY_NESTING containers: the deepest value that is accepted
        let mut v = PV::Bool(true);
        for i in 0..nervusdb_api::MAX_PROPERTY_NESTING {
            v = if i % 3 == 0 { PV::Map(BTreeMap::from([("".to_string(), v)])) } else { PV::List(vec![v]) };
        }
        values.push(("value", v));
        values.push(("value", PV::List((0..300).map(|i| PV::Int(i)).collect())));
        values.push(("value", PV::Map((0..40).map(|i| (format!("k{:03}", i), PV::Bool(i % 2 == 0))).collect())));
    }
    let mut encodings: Vec<Vec<u8>> = vec![];
    for (stream, v) in &values {
        bump!(format!("stream:{}", stream));
        bump!(format!("kind:{}", pv_kind(v)));
        let enc = v.encode();
        let jn = 1 + r.below(4) as usize;
        let junk = if r.chance(1, 2) { r.bytes(jn) } else { vec![] };
        let mut with_junk = enc.clone();
        with_junk.extend_from_slice(&junk);
        let back = catch(|| PV::decode(&with_junk));
        let consumed = consumed_of(&with_junk);
        // direct: decoded to exactly what was encoded, bit for bit, trailing bytes untouched
        let same = matches!(&back, Ok(Ok(w)) if pv_same(w, v));
        if !same || consumed != Some(enc.len()) {
            fails += 1;
            rep.fail(idx, None,
                &format!("decode(encode(v) ++ junk) is not v consumed={:?} (encoding has {} bytes): {:?}", consumed, enc.len(), back.as_ref().map(|x| x.as_ref().map(|_| "value").map_err(|e| e.to_string()))),
                json!({"value": js_pv(v), "enc_hex": hex_short(&enc), "junk": junk, "stream": stream}));
        }
        if pv_nodes(v) > 1 || !matches!(v, PV::Null | PV::Bool(_)) {
            distinct.insert(enc.clone());
        }
        cw.push(format!("CEnc {} {} {} {}", coq_pv(v), coq_bytes(&enc), coq_bytes(&junk), coq_res(&back)));
        if samples < 3 && pv_nodes(v) > 2 {
            samples += 1;
            rep.case(idx, json!({"stream": stream, "value": js_pv(v), "enc_hex": hex_short(&enc)}));
        }
        idx += 1;
        if encodings.len() < 4000 {
            encodings.push(enc);
        }
    }

    // ---------- bytes ----------
    let n_bytes = a.n * 5 / 10;
    for i in 0..n_bytes {
        let b: Vec<u8> = match r.below(12) {
            0 => {
                // random bytes with a plausible tag
                let n = r.below(24) as usize;
                let mut b = r.bytes(n);
                if !b.is_empty() {
                    b[0] = r.below(10) as u8;
                }
                b
            }
            1 => {
                let k = 1 + r.below(30) as usize;
                let tag = if r.chance(1, 2) { 7 } else { 8 };
                let count = *r.pick(&[1u32, 1, 2, 0xFFFF_FFFF, 3]);
                let tn = r.below(8) as usize;
                let tail = r.bytes(tn);
                nested_headers(tag, k, count, &tail)
            }
            2 => {
                // two mutations
                let e = r.pick(&encodings).clone();
                let m = mutate_bytes(&mut r, &e);
                mutate_bytes(&mut r, &m)
            }
            _ => {
                let e = r.pick(&encodings).clone();
                mutate_bytes(&mut r, &e)
            }
        };
        let _ = i;
        push_dec_case(&b, "bytes", &mut cw, &mut rep, &mut hist, &mut distinct, &mut fails, &mut idx, &mut samples, pv_size, &mut max_ratio);
    }
    // deeper nesting, still in-process (well below any stack limit)
    for k in [60usize, 250] {
        let b = nested_headers(7, k, 1, &[0]);
        push_dec_case(&b, "bytes", &mut cw, &mut rep, &mut hist, &mut distinct, &mut fails, &mut idx, &mut samples, pv_size, &mut max_ratio);
        let b = nested_headers(8, k, 1, &[0]);
        push_dec_case(&b, "bytes", &mut cw, &mut rep, &mut hist, &mut distinct, &mut fails, &mut idx, &mut samples, pv_size, &mut max_ratio);
    }

    // ---------- utf8 ----------
    let n_utf8 = a.n / 10;
    for _ in 0..n_utf8 {
        let b = gen_utf8ish(&mut r);
        let valid = std::str::from_utf8(&b).is_ok();
        bump!("stream:utf8");
        bump!(format!("utf8:{}", if valid { "valid" } else { "invalid" }));
        cw.push(format!("CUtf8 {} {}", coq_bytes(&b), coq_bool(valid)));
        idx += 1;
    }

    // ---------- WAL records ----------
    let n_wal = a.n / 10;
    walx::c25_wal_stream(&a, &mut r, n_wal, &mut cw, &mut rep, &mut hist, &mut distinct, &mut fails, &mut idx);

    // ---------- stack: nested headers of growing depth in a child process ----------
    // (K-C25-depth, repaired: 209000 levels fit into one 1 MiB log record and overflowed the stack)
    let stack_result;
    {
        let max = nervusdb_api::MAX_PROPERTY_NESTING;
        let depths: &[usize] = if a.tier == "thorough" { &[2_000, 20_000, 60_000, 120_000, 209_000] } else { &[2_000, 209_000] };
        let mut dead = 0;
        for &k in depths.iter().chain([max, max + 1].iter()) {
            let b = nested_headers(7, k, 1, &[0]);
            let out = run_child("decode", &b, &a.out);
            bump!("stream:stack");
            let want = if k <= max { format!("ok depth={}", k + 1) } else { "err too-deep".to_string() };
            if out.code != Some(0) || !out.stdout.starts_with(&want) {
                dead += 1;
                fails += 1;
                rep.fail(idx, None,
                    &format!("PropertyValue::decode of {} nested list headers ({} bytes): expected '{}', got exit={:?} signal={:?} stdout={:?} {}", k, k * 5 + 1, want,
                        out.code, out.signal, out.stdout.lines().next().unwrap_or(""), out.stderr.lines().find(|l| l.contains("overflow")).unwrap_or("")),
                    json!({"stream": "stack", "nested_list_headers": k, "bytes": k * 5 + 1}));
            }
        }
        stack_result = json!({"children": depths.len() + 2, "failed": dead});
        idx += 1;
    }

    // ---------- entry: values nested deeper than the decoder accepts are refused where they enter ----------
    {
        use nervusdb_storage::engine::GraphEngine;
        let max = nervusdb_api::MAX_PROPERTY_NESTING;
        let mk = |n: usize| { let mut v = PV::Int(1); for _ in 0..n { v = PV::List(vec![v]); } v };
        for (n, accepted) in [(max, true), (max + 1, false), (max + 40, false)] {
            bump!("stream:entry");
            let dir = tempfile::tempdir().unwrap();
            let (ndb, wal) = (dir.path().join("g.ndb"), dir.path().join("g.wal"));
            let got: Result<bool, String> = catch(std::panic::AssertUnwindSafe(|| {
                let e = GraphEngine::open(&ndb, &wal).unwrap();
                let l = e.get_or_create_label("A").unwrap();
                let mut tx = e.begin_write();
                let iid = tx.create_node(1, l).unwrap();
                tx.set_node_property(iid, "deep".into(), mk(n));
                let committed = tx.commit().is_ok();
                drop(e);
                // whatever happened, the database opens again and holds the value iff the commit succeeded
                let e = GraphEngine::open(&ndb, &wal).expect("reopen after a deep value");
                use nervusdb_api::{GraphSnapshot, GraphStore};
                let s = e.snapshot();
                let there = s.nodes().any(|i| s.node_property(i, "deep").map(|v| pv_same(&v, &mk(n))).unwrap_or(false));
                assert_eq!(there, committed, "value present after reopen iff the commit succeeded");
                committed
            }));
            if got != Ok(accepted) {
                fails += 1;
                rep.fail(idx, None, &format!("a property value with {} nested lists: commit accepted = {:?}, expected {}", n, got, accepted), json!({"stream": "entry", "nesting": n}));
            }
            idx += 1;
        }
    }

    cw.flush();
    rep.stats(json!({
        "evaluations": idx,
        "corr_cases": cw.total,
        "distinct_nontrivial": distinct.len(),
        "rule": "distinct by byte string; a value case is non-trivial unless it is Null/Bool alone; a byte-string case is non-trivial when it has a valid tag and at least 2 bytes; WAL cases are distinct by log bytes",
        "histogram": hist,
        "direct_failures": fails,
        "size_of_property_value": pv_size,
        "max_peak_bytes_per_input_byte": max_ratio,
        "stack_stream": stack_result,
        "case_files": cw.files.iter().map(|p| p.to_string_lossy().to_string()).collect::<Vec<_>>(),
    }));
    rep.finish();
}

#[allow(clippy::too_many_arguments)]
fn push_dec_case(
    b: &[u8], stream: &str, cw: &mut CaseWriter, rep: &mut Report, hist: &mut BTreeMap<String, u64>,
    distinct: &mut BTreeSet<Vec<u8>>, fails: &mut u64, idx: &mut usize, samples: &mut i32, pv_size: usize, max_ratio: &mut f64,
) {
    *hist.entry(format!("stream:{}", stream)).or_insert(0) += 1;
    let d = decode_measured(b);
    let consumed = match &d.res { Ok(Ok(_)) => consumed_of(b), _ => None };
    let outcome = match &d.res {
        Ok(Ok(_)) => "decode:ok".to_string(),
        Ok(Err(e)) => format!("decode:{}", err_kind(e)),
        Err(_) => "decode:panic".to_string(),
    };
    *hist.entry(outcome).or_insert(0) += 1;
    if b.len() >= 2 && b[0] <= 8 {
        distinct.insert(b.to_vec());
    }
    let ratio = d.peak as f64 / (b.len().max(1) as f64);
    if ratio > *max_ratio {
        *max_ratio = ratio;
    }
    // direct: no panic; allocation related to the input length; consumed within the input
    if let Err(msg) = &d.res {
        *fails += 1;
        rep.fail(*idx, None, &format!("PropertyValue::decode panicked: {}", msg), json!({"bytes_hex": hex_short(b), "stream": stream}));
    }
    if d.peak > 4096 + 256 * b.len() {
        *fails += 1;
        rep.fail(*idx, None, &format!("PropertyValue::decode of {} bytes held {} bytes (largest single request {})", b.len(), d.peak, d.maxreq),
            json!({"bytes_hex": hex_short(b), "stream": stream}));
    }
    if let Some(c) = consumed {
        if c > b.len() || c == 0 {
            *fails += 1;
            rep.fail(*idx, None, "decoder consumed more than the input", json!({"bytes_hex": hex_short(b)}));
        }
    }
    let vdepth = match &d.res { Ok(Ok(v)) => Some(pv_depth(v)), _ => None };
    cw.push(format!("CDec {} {} {} {} {} {}", coq_bytes(b), coq_res(&d.res), coq_opt(&consumed, |c| coq_n(*c as u128)),
        coq_n(d.peak as u128), coq_n(pv_size as u128), coq_opt(&vdepth, |c| coq_n(*c as u128))));
    if *samples < 6 && b.len() > 6 {
        *samples += 1;
        rep.case(*idx, json!({"stream": stream, "bytes_hex": hex_short(b), "outcome": format!("{:?}", d.res.as_ref().map(|x| x.as_ref().map(|_| "value").map_err(|e| e.to_string()))), "peak": d.peak}));
    }
    *idx += 1;
}
