//! WAL helpers (filled in with the WAL half of C25 and with C17).
use std::collections::{BTreeMap, BTreeSet};
use vh::*;

pub fn child_replay(_b: &[u8]) {}

#[allow(clippy::too_many_arguments)]
pub fn c25_wal_stream(
    _a: &Args, _r: &mut Rng, _n: usize, _cw: &mut CaseWriter, _rep: &mut Report, _hist: &mut BTreeMap<String, u64>,
    _distinct: &mut BTreeSet<Vec<u8>>, _fails: &mut u64, _idx: &mut usize,
) {
}
