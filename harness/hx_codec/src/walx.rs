//! WAL helpers: record generators, Coq printers, framing, the public-API routes to
//! WalRecord::encode_body (Wal::append) and decode_body (Wal::replay_committed_from_path).
use crate::*;
use nervusdb_api::PropertyValue as PV;
use nervusdb_storage::wal::{CommittedTx, SegmentPointer, Wal, WalRecord as WR};
use serde_json::json;
use std::collections::{BTreeMap, BTreeSet};
use std::path::Path;
use vh::*;

pub const PAGE: usize = nervusdb_storage::PAGE_SIZE;
pub const MAX_BODY: usize = 1024 * 1024;

/// bitwise CRC-32 (IEEE), the harness's own (used only to frame bodies the harness
/// invents; the implementation's checksum is observed through the frames it writes)
pub fn crc32(b: &[u8]) -> u32 {
    let mut c: u32 = 0xFFFF_FFFF;
    for &x in b {
        c ^= x as u32;
        for _ in 0..8 {
            c = if c & 1 != 0 { (c >> 1) ^ 0xEDB8_8320 } else { c >> 1 };
        }
    }
    !c
}
pub fn frame_body(body: &[u8]) -> Vec<u8> {
    let mut f = Vec::with_capacity(body.len() + 8);
    f.extend_from_slice(&(body.len() as u32).to_le_bytes());
    f.extend_from_slice(&crc32(body).to_le_bytes());
    f.extend_from_slice(body);
    f
}

fn gen_u32(r: &mut Rng) -> u32 {
    match r.below(4) {
        0 => *r.pick(&[0u32, 1, 2, 255, 256, u32::MAX, u32::MAX - 1, 0x8000_0000]),
        1 => r.below(8) as u32,
        _ => r.next() as u32,
    }
}
fn gen_u64(r: &mut Rng) -> u64 {
    match r.below(4) {
        0 => *r.pick(&[0u64, 1, u32::MAX as u64, 1 << 32, u64::MAX, 1 << 63]),
        1 => r.below(8),
        _ => r.next(),
    }
}
pub fn gen_record(r: &mut Rng, kind: u64) -> WR {
    match kind {
        0 => WR::BeginTx { txid: gen_u64(r) },
        1 => WR::CommitTx { txid: gen_u64(r) },
        2 => {
            let mut page = Box::new([0u8; PAGE]);
            for _ in 0..8 {
                let i = r.below(PAGE as u64) as usize;
                page[i] = r.next() as u8;
            }
            page[0] = r.next() as u8;
            page[PAGE - 1] = r.next() as u8;
            WR::PageWrite { page_id: gen_u64(r), page }
        }
        3 => WR::PageFree { page_id: gen_u64(r) },
        4 => WR::CreateLabel { name: gen_str(r), label_id: gen_u32(r) },
        5 => WR::CreateNode { external_id: gen_u64(r), label_id: gen_u32(r), internal_id: gen_u32(r) },
        6 => WR::AddNodeLabel { node: gen_u32(r), label_id: gen_u32(r) },
        7 => WR::RemoveNodeLabel { node: gen_u32(r), label_id: gen_u32(r) },
        8 => WR::CreateEdge { src: gen_u32(r), rel: gen_u32(r), dst: gen_u32(r) },
        9 => WR::TombstoneNode { node: gen_u32(r) },
        10 => WR::TombstoneEdge { src: gen_u32(r), rel: gen_u32(r), dst: gen_u32(r) },
        11 => {
            let n = r.below(4) as usize;
            WR::ManifestSwitch {
                epoch: gen_u64(r),
                segments: (0..n).map(|_| SegmentPointer { id: gen_u64(r), meta_page_id: gen_u64(r) }).collect(),
                properties_root: gen_u64(r),
                stats_root: gen_u64(r),
            }
        }
        12 => WR::Checkpoint { up_to_txid: gen_u64(r), epoch: gen_u64(r), properties_root: gen_u64(r), stats_root: gen_u64(r) },
        13 => WR::SetNodeProperty { node: gen_u32(r), key: gen_str(r), value: gen_value(r, 2) },
        14 => WR::SetEdgeProperty { src: gen_u32(r), rel: gen_u32(r), dst: gen_u32(r), key: gen_str(r), value: gen_value(r, 2) },
        15 => WR::RemoveNodeProperty { node: gen_u32(r), key: gen_str(r) },
        _ => WR::RemoveEdgeProperty { src: gen_u32(r), rel: gen_u32(r), dst: gen_u32(r), key: gen_str(r) },
    }
}
pub const N_KINDS: u64 = 17;
pub fn kind_name(w: &WR) -> &'static str {
    match w {
        WR::BeginTx { .. } => "BeginTx",
        WR::CommitTx { .. } => "CommitTx",
        WR::PageWrite { .. } => "PageWrite",
        WR::PageFree { .. } => "PageFree",
        WR::CreateLabel { .. } => "CreateLabel",
        WR::CreateNode { .. } => "CreateNode",
        WR::AddNodeLabel { .. } => "AddNodeLabel",
        WR::RemoveNodeLabel { .. } => "RemoveNodeLabel",
        WR::CreateEdge { .. } => "CreateEdge",
        WR::TombstoneNode { .. } => "TombstoneNode",
        WR::TombstoneEdge { .. } => "TombstoneEdge",
        WR::ManifestSwitch { .. } => "ManifestSwitch",
        WR::Checkpoint { .. } => "Checkpoint",
        WR::SetNodeProperty { .. } => "SetNodeProperty",
        WR::SetEdgeProperty { .. } => "SetEdgeProperty",
        WR::RemoveNodeProperty { .. } => "RemoveNodeProperty",
        WR::RemoveEdgeProperty { .. } => "RemoveEdgeProperty",
    }
}

fn n(x: u64) -> String {
    coq_n(x as u128)
}
pub fn coq_wrec(w: &WR) -> String {
    match w {
        WR::BeginTx { txid } => format!("(WBegin {})", n(*txid)),
        WR::CommitTx { txid } => format!("(WCommit {})", n(*txid)),
        WR::PageWrite { page_id, page } => format!("(WPageWrite {} {})", n(*page_id), coq_bytes(page.as_ref())),
        WR::PageFree { page_id } => format!("(WPageFree {})", n(*page_id)),
        WR::CreateLabel { name, label_id } => format!("(WCreateLabel {} {})", coq_bytes(name.as_bytes()), n(*label_id as u64)),
        WR::CreateNode { external_id, label_id, internal_id } => format!("(WCreateNode {} {} {})", n(*external_id), n(*label_id as u64), n(*internal_id as u64)),
        WR::AddNodeLabel { node, label_id } => format!("(WAddNodeLabel {} {})", n(*node as u64), n(*label_id as u64)),
        WR::RemoveNodeLabel { node, label_id } => format!("(WRemoveNodeLabel {} {})", n(*node as u64), n(*label_id as u64)),
        WR::CreateEdge { src, rel, dst } => format!("(WCreateEdge {} {} {})", n(*src as u64), n(*rel as u64), n(*dst as u64)),
        WR::TombstoneNode { node } => format!("(WTombstoneNode {})", n(*node as u64)),
        WR::TombstoneEdge { src, rel, dst } => format!("(WTombstoneEdge {} {} {})", n(*src as u64), n(*rel as u64), n(*dst as u64)),
        WR::ManifestSwitch { epoch, segments, properties_root, stats_root } => format!(
            "(WManifestSwitch {} {} {} {})",
            n(*epoch),
            coq_list(segments, |s| format!("({}, {})", n(s.id), n(s.meta_page_id))),
            n(*properties_root),
            n(*stats_root)
        ),
        WR::Checkpoint { up_to_txid, epoch, properties_root, stats_root } => format!("(WCheckpoint {} {} {} {})", n(*up_to_txid), n(*epoch), n(*properties_root), n(*stats_root)),
        WR::SetNodeProperty { node, key, value } => format!("(WSetNodeProp {} {} {})", n(*node as u64), coq_bytes(key.as_bytes()), coq_pv(value)),
        WR::SetEdgeProperty { src, rel, dst, key, value } => format!("(WSetEdgeProp {} {} {} {} {})", n(*src as u64), n(*rel as u64), n(*dst as u64), coq_bytes(key.as_bytes()), coq_pv(value)),
        WR::RemoveNodeProperty { node, key } => format!("(WRemoveNodeProp {} {})", n(*node as u64), coq_bytes(key.as_bytes())),
        WR::RemoveEdgeProperty { src, rel, dst, key } => format!("(WRemoveEdgeProp {} {} {} {})", n(*src as u64), n(*rel as u64), n(*dst as u64), coq_bytes(key.as_bytes())),
    }
}
pub fn coq_txs(t: &[CommittedTx]) -> String {
    coq_list(t, |tx| format!("({}, {})", n(tx.txid), coq_list(&tx.ops, coq_wrec)))
}

/// the frame `Wal::append` writes for a record (None: append refused it)
pub fn impl_frame(dir: &Path, rec: &WR) -> Option<Vec<u8>> {
    let p = dir.join("enc.wal");
    let _ = std::fs::remove_file(&p);
    let mut w = Wal::open(&p).unwrap();
    let r = w.append(rec);
    drop(w);
    let b = std::fs::read(&p).unwrap();
    r.ok().map(|_| b)
}

#[derive(Debug)]
pub enum Replay {
    Ok(Vec<CommittedTx>),
    TooLarge,
    Protocol(String),
    Other(String),
    Panic(String),
}
impl Replay {
    pub fn coq(&self) -> String {
        match self {
            Replay::Ok(t) => format!("(inl {})", coq_txs(t)),
            Replay::TooLarge => "(inr LTooLarge)".into(),
            Replay::Protocol(_) => "(inr LProtocol)".into(),
            Replay::Other(_) => "(inr LNoFuel)".into(), // never equal to a model outcome
            Replay::Panic(_) => "(inr LPanic)".into(),
        }
    }
    pub fn kind(&self) -> String {
        match self {
            Replay::Ok(t) => format!("ok:{}tx", t.len().min(9)),
            Replay::TooLarge => "err:too-large".into(),
            Replay::Protocol(m) => format!("err:{}", m),
            Replay::Other(m) => format!("err-other:{}", m),
            Replay::Panic(_) => "panic".into(),
        }
    }
}
/// Wal::replay_committed_from_path on a file holding `bytes`
pub fn impl_replay(dir: &Path, bytes: &[u8]) -> Replay {
    let p = dir.join("replay.wal");
    std::fs::write(&p, bytes).unwrap();
    classify(catch(|| Wal::replay_committed_from_path(&p)))
}
pub fn classify(r: Result<nervusdb_storage::Result<Vec<CommittedTx>>, String>) -> Replay {
    match r {
        Ok(Ok(t)) => Replay::Ok(t),
        Ok(Err(nervusdb_storage::Error::WalRecordTooLarge(_))) => Replay::TooLarge,
        Ok(Err(nervusdb_storage::Error::WalProtocol(m))) => Replay::Protocol(m.to_string()),
        Ok(Err(e)) => Replay::Other(e.to_string()),
        Err(m) => Replay::Panic(m),
    }
}

pub fn child_replay(b: &[u8]) {
    let dir = tempfile::tempdir().unwrap();
    let r = impl_replay(dir.path(), b);
    println!("{}", r.kind());
}

fn mutate_body(r: &mut Rng, body: &[u8]) -> Vec<u8> {
    let mut b = body.to_vec();
    match r.below(7) {
        0 => {
            let k = r.below(b.len() as u64 + 1) as usize;
            b.truncate(k);
        }
        1 => {
            if !b.is_empty() {
                let i = r.below(b.len() as u64) as usize;
                b[i] ^= 1 << r.below(8);
            }
        }
        2 => {
            let k = 1 + r.below(20) as usize;
            b.extend(r.bytes(k));
        }
        3 => {
            if b.len() >= 5 {
                let i = 1 + r.below((b.len() - 4) as u64) as usize;
                let v: u32 = *r.pick(&[0xFFFF_FFFFu32, 0x1000_0000, 65536, 300, 4, 3, 2, 1, 0]);
                b[i..i + 4].copy_from_slice(&v.to_le_bytes());
            }
        }
        4 => {
            if !b.is_empty() {
                b[0] = r.below(20) as u8;
            }
        }
        5 => {
            if !b.is_empty() {
                let i = r.below(b.len() as u64) as usize;
                b.remove(i);
            }
        }
        _ => {
            let i = r.below(b.len() as u64 + 1) as usize;
            b.insert(i, r.next() as u8);
        }
    }
    b
}

/// the ManifestSwitch bodies whose length check and reads disagree (count = 1, 24..31 bytes
/// after the segment table start): a panic on the pinned tree
pub fn manifest_short_bodies() -> Vec<Vec<u8>> {
    let mut v = vec![];
    for extra in [24usize, 27, 31] {
        let mut b = vec![9u8];
        b.extend_from_slice(&7u64.to_le_bytes());
        b.extend_from_slice(&1u32.to_le_bytes());
        b.extend(std::iter::repeat(0xAB).take(extra));
        v.push(b);
    }
    v
}

#[allow(clippy::too_many_arguments)]
pub fn c25_wal_stream(
    a: &Args, r: &mut Rng, n_cases: usize, cw: &mut CaseWriter, rep: &mut Report, hist: &mut BTreeMap<String, u64>,
    distinct: &mut BTreeSet<Vec<u8>>, fails: &mut u64, idx: &mut usize,
) {
    let dir = tempfile::tempdir().unwrap();
    let d = dir.path();
    let begin = frame_body(&{ let mut b = vec![1u8]; b.extend_from_slice(&1u64.to_le_bytes()); b });
    let commit = frame_body(&{ let mut b = vec![2u8]; b.extend_from_slice(&1u64.to_le_bytes()); b });
    let wrap = |body: &[u8]| -> Vec<u8> {
        let mut f = begin.clone();
        f.extend_from_slice(&frame_body(body));
        f.extend_from_slice(&commit);
        f
    };
    let mut samples = 0;
    let mut bodies: Vec<Vec<u8>> = vec![];
    let mut pagewrites = 0;

    // corpus: witnesses of the repaired ManifestSwitch length check
    for body in manifest_short_bodies() {
        let file = wrap(&body);
        let out = impl_replay(d, &file);
        *hist.entry("stream:wal-corpus".into()).or_insert(0) += 1;
        *hist.entry(format!("wal-replay:{}", out.kind())).or_insert(0) += 1;
        if let Replay::Panic(m) = &out {
            *fails += 1;
            rep.fail(*idx, None, &format!("decoding a checksummed ManifestSwitch record of {} bytes panicked: {}", body.len(), m), json!({"body_hex": hex_short(&body), "stream": "wal-corpus"}));
        }
        cw.push(format!("CWalReplay {} {}", coq_bytes(&file), out.coq()));
        *idx += 1;
    }

    // every record kind: encode through Wal::append, decode through replay_committed
    let n_rec = n_cases / 2;
    for i in 0..n_rec {
        let mut kind = if i < 2 * N_KINDS as usize { i as u64 % N_KINDS } else { r.below(N_KINDS) };
        if kind == 2 {
            pagewrites += 1;
            if pagewrites > 3 {
                kind = 13;
            }
        }
        let rec = gen_record(r, kind);
        *hist.entry("stream:wal-record".into()).or_insert(0) += 1;
        *hist.entry(format!("wal-kind:{}", kind_name(&rec))).or_insert(0) += 1;
        let Some(fr) = impl_frame(d, &rec) else {
            *fails += 1;
            rep.fail(*idx, None, "Wal::append refused a small record", json!({"record": coq_wrec(&rec)}));
            *idx += 1;
            continue;
        };
        // decode it back: inside a transaction (markers are their own transaction)
        let file = match &rec {
            WR::BeginTx { txid } => { let mut f = fr.clone(); f.extend_from_slice(&frame_body(&{ let mut b = vec![2u8]; b.extend_from_slice(&txid.to_le_bytes()); b })); f }
            WR::CommitTx { txid } => { let mut f = frame_body(&{ let mut b = vec![1u8]; b.extend_from_slice(&txid.to_le_bytes()); b }); f.extend_from_slice(&fr); f }
            _ => { let mut f = begin.clone(); f.extend_from_slice(&fr); f.extend_from_slice(&commit); f }
        };
        let out = impl_replay(d, &file);
        *hist.entry(format!("wal-replay:{}", out.kind())).or_insert(0) += 1;
        // direct: exactly what was encoded comes back (floats as bit patterns)
        let good = match (&out, &rec) {
            (Replay::Ok(t), WR::BeginTx { txid }) | (Replay::Ok(t), WR::CommitTx { txid }) => t.len() == 1 && t[0].txid == *txid && t[0].ops.is_empty(),
            (Replay::Ok(t), _) => t.len() == 1 && t[0].txid == 1 && t[0].ops.len() == 1 && coq_wrec(&t[0].ops[0]) == coq_wrec(&rec),
            _ => false,
        };
        if !good {
            *fails += 1;
            rep.fail(*idx, None, &format!("a {} record does not come back from the log as written: {}", kind_name(&rec), out.kind()),
                json!({"record": if fr.len() < 600 { coq_wrec(&rec) } else { kind_name(&rec).to_string() }, "frame_hex": hex_short(&fr)}));
        }
        distinct.insert(fr.clone());
        cw.push(format!("CWalEnc {} {}", coq_wrec(&rec), coq_bytes(&fr)));
        cw.push(format!("CWalReplay {} {}", coq_bytes(&file), out.coq()));
        if samples < 2 && kind >= 11 {
            samples += 1;
            rep.case(*idx, json!({"stream": "wal-record", "record": coq_wrec(&rec), "frame_hex": hex_short(&fr)}));
        }
        if fr.len() < 400 {
            bodies.push(fr[8..].to_vec());
        }
        *idx += 1;
    }

    // arbitrary / mutated bodies with a correct checksum, inside a transaction
    let n_mut = n_cases - n_rec;
    for _ in 0..n_mut {
        let body = match r.below(8) {
            0 => { let k = r.below(40) as usize; let mut b = r.bytes(k); if !b.is_empty() { b[0] = r.below(19) as u8; } b }
            1 => {
                // ManifestSwitch with an inconsistent count / length
                let mut b = vec![9u8];
                b.extend_from_slice(&r.next().to_le_bytes());
                let count = r.below(4) as u32;
                b.extend_from_slice(&count.to_le_bytes());
                let k = r.below(70) as usize;
                b.extend(r.bytes(k));
                b
            }
            2 => { let b0 = r.pick(&bodies).clone(); let m = mutate_body(r, &b0); mutate_body(r, &m) }
            _ => { let b0 = r.pick(&bodies).clone(); mutate_body(r, &b0) }
        };
        let file = wrap(&body);
        let out = impl_replay(d, &file);
        *hist.entry("stream:wal-body".into()).or_insert(0) += 1;
        *hist.entry(format!("wal-replay:{}", out.kind())).or_insert(0) += 1;
        if let Replay::Panic(m) = &out {
            *fails += 1;
            rep.fail(*idx, None, &format!("decoding a checksummed record body of {} bytes panicked: {}", body.len(), m), json!({"body_hex": hex_short(&body), "stream": "wal-body"}));
        }
        if let Replay::Other(m) = &out {
            *fails += 1;
            rep.fail(*idx, None, &format!("unexpected error kind from replay: {}", m), json!({"body_hex": hex_short(&body)}));
        }
        distinct.insert(file.clone());
        cw.push(format!("CWalReplay {} {}", coq_bytes(&file), out.coq()));
        *idx += 1;
    }
    let _ = (a, PV::Null);
}
