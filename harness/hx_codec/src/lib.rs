//! Shared pieces of the codec / WAL harness binaries (C25, C17): counting
//! allocator, PropertyValue generators, Coq printers, child-process runner.
use nervusdb_api::PropertyValue as PV;
use std::alloc::{GlobalAlloc, Layout, System};
use std::collections::BTreeMap;
use std::sync::atomic::{AtomicUsize, Ordering::Relaxed};
use vh::*;

pub mod walx;

// ---------- counting allocator ----------

pub struct Counting;
#[global_allocator]
static GLOBAL: Counting = Counting;
static CUR: AtomicUsize = AtomicUsize::new(0);
static PEAK: AtomicUsize = AtomicUsize::new(0);
static MAXREQ: AtomicUsize = AtomicUsize::new(0);

unsafe impl GlobalAlloc for Counting {
    unsafe fn alloc(&self, l: Layout) -> *mut u8 {
        let p = unsafe { System.alloc(l) };
        if !p.is_null() {
            let c = CUR.fetch_add(l.size(), Relaxed) + l.size();
            PEAK.fetch_max(c, Relaxed);
        }
        MAXREQ.fetch_max(l.size(), Relaxed);
        p
    }
    unsafe fn dealloc(&self, p: *mut u8, l: Layout) {
        CUR.fetch_sub(l.size(), Relaxed);
        unsafe { System.dealloc(p, l) }
    }
    unsafe fn realloc(&self, p: *mut u8, l: Layout, new: usize) -> *mut u8 {
        let q = unsafe { System.realloc(p, l, new) };
        if !q.is_null() {
            if new >= l.size() {
                let c = CUR.fetch_add(new - l.size(), Relaxed) + (new - l.size());
                PEAK.fetch_max(c, Relaxed);
            } else {
                CUR.fetch_sub(l.size() - new, Relaxed);
            }
        }
        MAXREQ.fetch_max(new, Relaxed);
        q
    }
}

/// (result, peak live bytes above the level at entry, largest single request) of `f`
pub fn measured<T>(f: impl FnOnce() -> T) -> (T, usize, usize) {
    let base = CUR.load(Relaxed);
    PEAK.store(base, Relaxed);
    MAXREQ.store(0, Relaxed);
    let r = f();
    let peak = PEAK.load(Relaxed).saturating_sub(base);
    (r, peak, MAXREQ.load(Relaxed))
}

// ---------- values ----------

pub const F_SPECIAL: &[u64] = &[
    0x0000_0000_0000_0000, // +0
    0x8000_0000_0000_0000, // -0
    0x0000_0000_0000_0001, // min subnormal
    0x3FF0_0000_0000_0000, // 1.0
    0xBFF0_0000_0000_0000,
    0x7FEF_FFFF_FFFF_FFFF,
    0x7FF0_0000_0000_0000, // +inf
    0xFFF0_0000_0000_0000, // -inf
    0x7FF8_0000_0000_0000, // quiet NaN
    0xFFF8_0000_0000_0000, // negative quiet NaN
    0x7FF0_0000_0000_0001, // signalling NaN, payload 1
    0x7FF8_0000_DEAD_BEEF, // NaN with payload
    0xFFFF_FFFF_FFFF_FFFF, // NaN all ones
    0x4340_0000_0000_0000,
];
pub const I_SPECIAL: &[i64] = &[i64::MIN, i64::MIN + 1, -256, -1, 0, 1, 127, 128, 255, 256, 65536, i64::MAX - 1, i64::MAX];
pub const STRS: &[&str] = &["", "a", "b", "ab", "\0", "é", "中", "😀", "a\u{7ff}", "\u{800}\u{ffff}", "\u{10000}\u{10ffff}", "key", "k\0ey", "名前"];

pub fn gen_str(r: &mut Rng) -> String {
    match r.below(4) {
        0 | 1 => r.pick(STRS).to_string(),
        2 => {
            let n = r.below(5) as usize;
            (0..n)
                .map(|_| match r.below(6) {
                    0 => '\0',
                    1 => 'a',
                    2 => char::from_u32(0x80 + r.below(0x780) as u32).unwrap(),
                    3 => char::from_u32(0x800 + r.below(0xD000) as u32).unwrap_or('x'),
                    4 => char::from_u32(0x10000 + r.below(0x100000) as u32).unwrap_or('y'),
                    _ => (b'a' + r.below(26) as u8) as char,
                })
                .collect()
        }
        _ => {
            // long-ish (length field has more than one significant byte now and then)
            let n = if r.chance(1, 8) { 250 + r.below(20) as usize } else { r.below(12) as usize };
            (0..n).map(|i| (b'a' + (i % 26) as u8) as char).collect()
        }
    }
}
pub fn gen_blob(r: &mut Rng) -> Vec<u8> {
    let n = match r.below(8) {
        0 => 0,
        1 => 255 + r.below(3) as usize,
        _ => r.below(7) as usize,
    };
    (0..n)
        .map(|_| match r.below(4) {
            0 => 0,
            1 => 0xFF,
            _ => r.next() as u8,
        })
        .collect()
}
pub fn gen_scalar(r: &mut Rng) -> PV {
    match r.below(9) {
        0 => PV::Null,
        1 => PV::Bool(r.chance(1, 2)),
        2 | 3 => PV::Int(if r.chance(1, 2) { *r.pick(I_SPECIAL) } else { r.next() as i64 }),
        4 | 5 => PV::Float(f64::from_bits(if r.chance(2, 3) { *r.pick(F_SPECIAL) } else { r.next() })),
        6 => PV::String(gen_str(r)),
        7 => PV::DateTime(if r.chance(1, 2) { *r.pick(I_SPECIAL) } else { r.next() as i64 }),
        _ => PV::Blob(gen_blob(r)),
    }
}
pub fn gen_value(r: &mut Rng, depth: u32) -> PV {
    if depth == 0 || r.chance(2, 5) {
        return gen_scalar(r);
    }
    if r.chance(1, 2) {
        let n = r.below(5) as usize;
        PV::List((0..n).map(|_| gen_value(r, depth - 1)).collect())
    } else {
        let n = r.below(5) as usize;
        let mut m = BTreeMap::new();
        for _ in 0..n {
            m.insert(gen_str(r), gen_value(r, depth - 1));
        }
        PV::Map(m)
    }
}

/// all values with at most `nodes` constructors over a small palette
pub fn small_values(nodes: usize) -> Vec<PV> {
    let scal = || -> Vec<PV> {
        vec![
            PV::Null,
            PV::Bool(false),
            PV::Bool(true),
            PV::Int(0),
            PV::Int(-1),
            PV::Float(f64::from_bits(0x8000_0000_0000_0000)),
            PV::Float(f64::from_bits(0x7FF8_0000_0000_0001)),
            PV::String(String::new()),
            PV::String("é".into()),
            PV::DateTime(i64::MIN),
            PV::Blob(vec![]),
            PV::Blob(vec![0, 255]),
            PV::List(vec![]),
            PV::Map(BTreeMap::new()),
        ]
    };
    fn seqs(parts: &[Vec<PV>], total: usize, maxlen: usize) -> Vec<Vec<PV>> {
        // all sequences of values whose node counts sum to `total`
        let mut res = vec![];
        if total == 0 {
            res.push(vec![]);
            return res;
        }
        if maxlen == 0 {
            return res;
        }
        for first in 1..=total {
            for head in &parts[first] {
                for mut tail in seqs(parts, total - first, maxlen - 1) {
                    let mut v = vec![head.clone()];
                    v.append(&mut tail);
                    res.push(v);
                }
            }
        }
        res
    }
    // by_size[k] = values with exactly k nodes
    let mut by_size: Vec<Vec<PV>> = vec![vec![], scal()];
    for k in 2..=nodes {
        let mut cur = vec![];
        for s in seqs(&by_size, k - 1, 3) {
            cur.push(PV::List(s.clone()));
            let keys = ["", "a", "é"];
            if s.len() <= keys.len() {
                let mut m = BTreeMap::new();
                for (i, v) in s.iter().enumerate() {
                    m.insert(keys[i].to_string(), v.clone());
                }
                cur.push(PV::Map(m));
            }
        }
        by_size.push(cur);
    }
    by_size.into_iter().flatten().collect()
}

pub fn pv_depth(v: &PV) -> u64 {
    match v {
        PV::List(l) => 1 + l.iter().map(pv_depth).max().unwrap_or(0),
        PV::Map(m) => 1 + m.values().map(pv_depth).max().unwrap_or(0),
        _ => 1,
    }
}
pub fn pv_nodes(v: &PV) -> u64 {
    match v {
        PV::List(l) => 1 + l.iter().map(pv_nodes).sum::<u64>(),
        PV::Map(m) => 1 + m.values().map(pv_nodes).sum::<u64>(),
        _ => 1,
    }
}
/// equality with floats as bit patterns
pub fn pv_same(a: &PV, b: &PV) -> bool {
    match (a, b) {
        (PV::Float(x), PV::Float(y)) => x.to_bits() == y.to_bits(),
        (PV::List(x), PV::List(y)) => x.len() == y.len() && x.iter().zip(y).all(|(p, q)| pv_same(p, q)),
        (PV::Map(x), PV::Map(y)) => x.len() == y.len() && x.iter().zip(y).all(|((k, p), (l, q))| k == l && pv_same(p, q)),
        (PV::Float(_), _) | (_, PV::Float(_)) => false,
        _ => a == b,
    }
}
pub fn pv_kind(v: &PV) -> &'static str {
    match v {
        PV::Null => "null",
        PV::Bool(_) => "bool",
        PV::Int(_) => "int",
        PV::Float(_) => "float",
        PV::String(_) => "string",
        PV::DateTime(_) => "datetime",
        PV::Blob(_) => "blob",
        PV::List(_) => "list",
        PV::Map(_) => "map",
    }
}

pub fn coq_pv(v: &PV) -> String {
    match v {
        PV::Null => "PNull".into(),
        PV::Bool(b) => format!("(PBool {})", coq_bool(*b)),
        PV::Int(i) => format!("(PInt {})", coq_z(*i as i128)),
        PV::Float(f) => format!("(PFloat {})", coq_n(f.to_bits() as u128)),
        PV::String(s) => format!("(PStr {})", coq_bytes(s.as_bytes())),
        PV::DateTime(i) => format!("(PDateTime {})", coq_z(*i as i128)),
        PV::Blob(b) => format!("(PBlob {})", coq_bytes(b)),
        PV::List(l) => format!("(PList {})", coq_list(l, coq_pv)),
        PV::Map(m) => {
            let items: Vec<(&String, &PV)> = m.iter().collect();
            format!("(PMap {})", coq_list(&items, |(k, x)| format!("({}, {})", coq_bytes(k.as_bytes()), coq_pv(x))))
        }
    }
}
pub fn js_pv(v: &PV) -> serde_json::Value {
    use serde_json::json;
    match v {
        PV::Null => json!(null),
        PV::Bool(b) => json!({"bool": b}),
        PV::Int(i) => json!({"int": i}),
        PV::Float(f) => json!({"float_bits": format!("{:#018x}", f.to_bits())}),
        PV::String(s) => json!({"str": s}),
        PV::DateTime(i) => json!({"datetime": i}),
        PV::Blob(b) => json!({"blob": b}),
        PV::List(l) => json!({"list": l.iter().map(js_pv).collect::<Vec<_>>()}),
        PV::Map(m) => json!({"map": m.iter().map(|(k, x)| json!([k, js_pv(x)])).collect::<Vec<_>>()}),
    }
}

pub fn hex(b: &[u8]) -> String {
    let mut s = String::with_capacity(b.len() * 2);
    for x in b {
        s.push_str(&format!("{:02x}", x));
    }
    s
}
/// short printable form of a long byte string for reports
pub fn hex_short(b: &[u8]) -> String {
    if b.len() <= 96 {
        hex(b)
    } else {
        format!("{}..(total {} bytes)..{}", hex(&b[..48]), b.len(), hex(&b[b.len() - 16..]))
    }
}

// ---------- child processes ----------

pub struct ChildOut {
    pub code: Option<i32>,
    pub signal: Option<i32>,
    pub stdout: String,
    pub stderr: String,
}
/// run this executable again as `--child <mode> <file>`; stdin/stdout captured
pub fn run_child(mode: &str, payload: &[u8], dir: &std::path::Path) -> ChildOut {
    use std::os::unix::process::ExitStatusExt;
    let path = dir.join(format!("child_{}_{}.bin", mode, std::process::id()));
    std::fs::write(&path, payload).unwrap();
    let out = std::process::Command::new(std::env::current_exe().unwrap())
        .arg("--child")
        .arg(mode)
        .arg(&path)
        .output()
        .unwrap();
    let _ = std::fs::remove_file(&path);
    ChildOut {
        code: out.status.code(),
        signal: out.status.signal(),
        stdout: String::from_utf8_lossy(&out.stdout).to_string(),
        stderr: String::from_utf8_lossy(&out.stderr).to_string(),
    }
}
/// Some((mode, file)) when this process was started by `run_child`
pub fn child_mode() -> Option<(String, std::path::PathBuf)> {
    let a: Vec<String> = std::env::args().collect();
    if a.len() >= 4 && a[1] == "--child" {
        Some((a[2].clone(), std::path::PathBuf::from(&a[3])))
    } else {
        None
    }
}
