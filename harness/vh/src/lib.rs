//! Shared helpers for the correspondence harness binaries (one binary per property).
//!
//! Every random choice derives from one SplitMix64 state seeded from `--seed`
//! (VERIF_SEED), so a run is replayable from (property, seed, n).

use std::fmt::Write as _;
use std::io::Write as _;
use std::path::{Path, PathBuf};

pub struct Rng(pub u64);

impl Rng {
    pub fn new(seed: u64) -> Self {
        Rng(seed ^ 0x9E37_79B9_7F4A_7C15)
    }
    pub fn next(&mut self) -> u64 {
        self.0 = self.0.wrapping_add(0x9E37_79B9_7F4A_7C15);
        let mut z = self.0;
        z = (z ^ (z >> 30)).wrapping_mul(0xBF58_476D_1CE4_E5B9);
        z = (z ^ (z >> 27)).wrapping_mul(0x94D0_49BB_1331_11EB);
        z ^ (z >> 31)
    }
    /// uniform in 0..n (n > 0)
    pub fn below(&mut self, n: u64) -> u64 {
        self.next() % n
    }
    pub fn range(&mut self, lo: i64, hi: i64) -> i64 {
        lo + (self.next() % ((hi - lo + 1) as u64)) as i64
    }
    pub fn chance(&mut self, num: u64, den: u64) -> bool {
        self.below(den) < num
    }
    pub fn pick<'a, T>(&mut self, xs: &'a [T]) -> &'a T {
        &xs[self.below(xs.len() as u64) as usize]
    }
    pub fn bytes(&mut self, n: usize) -> Vec<u8> {
        (0..n).map(|_| self.next() as u8).collect()
    }
}

/// Command line shared by all harness binaries.
pub struct Args {
    pub seed: u64,
    pub n: usize,
    pub out: PathBuf,
    pub tier: String,
    pub replay: Option<PathBuf>,
    pub extra: Vec<String>,
}

pub fn args() -> Args {
    let mut a = Args {
        seed: 1,
        n: 1000,
        out: PathBuf::from("out"),
        tier: "quick".into(),
        replay: None,
        extra: vec![],
    };
    let mut it = std::env::args().skip(1);
    while let Some(k) = it.next() {
        match k.as_str() {
            "--seed" => a.seed = it.next().unwrap().parse().unwrap(),
            "--n" => a.n = it.next().unwrap().parse().unwrap(),
            "--out" => a.out = PathBuf::from(it.next().unwrap()),
            "--tier" => a.tier = it.next().unwrap(),
            "--replay" => a.replay = Some(PathBuf::from(it.next().unwrap())),
            other => a.extra.push(other.to_string()),
        }
    }
    std::fs::create_dir_all(&a.out).unwrap();
    a
}

// ---------- Coq term printing ----------

pub fn coq_n(x: u128) -> String {
    format!("{}%N", x)
}
pub fn coq_z(x: i128) -> String {
    if x < 0 { format!("({})%Z", x) } else { format!("{}%Z", x) }
}
pub fn coq_bool(b: bool) -> &'static str {
    if b { "true" } else { "false" }
}
pub fn coq_bytes(b: &[u8]) -> String {
    let mut s = String::with_capacity(b.len() * 4 + 8);
    s.push('[');
    for (i, x) in b.iter().enumerate() {
        if i > 0 {
            s.push(';');
        }
        write!(s, "{}", x).unwrap();
    }
    s.push_str("]%N");
    s
}
pub fn coq_list<T>(xs: &[T], f: impl Fn(&T) -> String) -> String {
    let mut s = String::from("[");
    for (i, x) in xs.iter().enumerate() {
        if i > 0 {
            s.push_str("; ");
        }
        s.push_str(&f(x));
    }
    s.push(']');
    s
}
pub fn coq_opt<T>(x: &Option<T>, f: impl Fn(&T) -> String) -> String {
    match x {
        None => "None".into(),
        Some(v) => format!("(Some {})", f(v)),
    }
}
pub fn coq_cmp(o: std::cmp::Ordering) -> &'static str {
    match o {
        std::cmp::Ordering::Less => "Lt",
        std::cmp::Ordering::Equal => "Eq",
        std::cmp::Ordering::Greater => "Gt",
    }
}
/// Coq string literal of raw bytes as `list N` is preferred; this prints an
/// ASCII-only identifier-safe string for labels.
pub fn coq_string(s: &str) -> String {
    format!("\"{}\"", s.replace('"', "\"\""))
}

// ---------- case files ----------

/// Writes `cases_<shard>.v` files: each holds up to `per_file` cases of Coq type
/// `<module>.case`, and prints the indices (global) of cases whose `ok` is false.
pub struct CaseWriter {
    dir: PathBuf,
    module: String, // e.g. "Corr.C27"
    per_file: usize,
    cur: Vec<String>,
    shard: usize,
    pub total: usize,
    pub files: Vec<PathBuf>,
}

impl CaseWriter {
    pub fn new(dir: &Path, module: &str, per_file: usize) -> Self {
        CaseWriter {
            dir: dir.to_path_buf(),
            module: module.to_string(),
            per_file,
            cur: vec![],
            shard: 0,
            total: 0,
            files: vec![],
        }
    }
    pub fn push(&mut self, term: String) {
        self.cur.push(term);
        self.total += 1;
        if self.cur.len() >= self.per_file {
            self.flush();
        }
    }
    pub fn flush(&mut self) {
        if self.cur.is_empty() {
            return;
        }
        let base = self.total - self.cur.len();
        let path = self.dir.join(format!("cases_{:04}.v", self.shard));
        let mut f = std::io::BufWriter::new(std::fs::File::create(&path).unwrap());
        let short = self.module.rsplit('.').next().unwrap();
        writeln!(f, "(* written by the harness; base index {} *)", base).unwrap();
        writeln!(f, "From NDB Require Import Corr.Common {}.", self.module).unwrap();
        writeln!(f, "Definition cases : list {}.case := [", short).unwrap();
        for (i, c) in self.cur.iter().enumerate() {
            writeln!(f, "  {}{}", c, if i + 1 < self.cur.len() { ";" } else { "" }).unwrap();
        }
        writeln!(f, "].").unwrap();
        writeln!(f, "Definition bad := failing_from {}.ok {}%N cases.", short, base).unwrap();
        writeln!(f, "Eval vm_compute in bad.").unwrap();
        f.flush().unwrap();
        self.files.push(path);
        self.cur.clear();
        self.shard += 1;
    }
}

/// JSON-lines report read by lib/vcheck.py.
pub struct Report {
    f: std::io::BufWriter<std::fs::File>,
}

impl Report {
    pub fn new(dir: &Path) -> Self {
        Report { f: std::io::BufWriter::new(std::fs::File::create(dir.join("report.jsonl")).unwrap()) }
    }
    pub fn line(&mut self, v: serde_json::Value) {
        writeln!(self.f, "{}", v).unwrap();
    }
    /// one explored case written out (evidence samples / replay of mismatches)
    pub fn case(&mut self, idx: usize, v: serde_json::Value) {
        self.line(serde_json::json!({"kind": "case", "idx": idx, "case": v}));
    }
    /// the implementation itself violates the property on this input
    pub fn fail(&mut self, idx: usize, class: Option<&str>, what: &str, input: serde_json::Value) {
        self.line(serde_json::json!({"kind": "fail", "idx": idx, "class": class, "what": what, "input": input}));
    }
    pub fn stats(&mut self, v: serde_json::Value) {
        self.line(serde_json::json!({"kind": "stats", "stats": v}));
    }
    pub fn finish(mut self) {
        self.f.flush().unwrap();
    }
}

/// run `f`, turning a panic into Err(message)
pub fn catch<T>(f: impl FnOnce() -> T + std::panic::UnwindSafe) -> Result<T, String> {
    std::panic::catch_unwind(f).map_err(|e| {
        if let Some(s) = e.downcast_ref::<&str>() {
            s.to_string()
        } else if let Some(s) = e.downcast_ref::<String>() {
            s.clone()
        } else {
            "panic".to_string()
        }
    })
}

pub fn quiet_panics() {
    std::panic::set_hook(Box::new(|_| {}));
}
