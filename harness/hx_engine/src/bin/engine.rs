//! Storage-engine harness for C04 C05 C06 C07 C14 C30 (`--prop Cxx`).
//!
//! Generates histories (name level), runs them on the real engine (through `nervusdb::Db`
//! or directly through `GraphEngine`), takes the canonical logical dump after every step
//! through the public snapshot API, and writes Coq cases `(id-level history, dumps, reference
//! dumps)`.  The direct-search oracle depends on the property; the reference graph is the
//! Rust transcription of `Engine/Graph.v` (`S`).
use nervusdb::{Db, GraphSnapshot, GraphStore, PropertyValue as PV};
use nervusdb_api::EdgeKey;
use nervusdb_query::WriteableGraph;
use nervusdb_storage::engine::GraphEngine;
use serde_json::json;
use std::collections::{BTreeMap, BTreeSet};
use std::path::{Path, PathBuf};
use vh::*;

const UNLABELED: u32 = u32::MAX;
const NOLK: u32 = u32::MAX - 1;
const UNIVERSE: u32 = 8;
const MAX_NODES: usize = 6;

// ---------------------------------------------------------------- names, keys, values
fn name_str(code: u32) -> String {
    match code {
        0..=2 => format!("L{}", code),
        10 | 11 => format!("R{}", code - 10),
        20 => "X".into(),
        _ => format!("N{}", code),
    }
}
fn name_code(s: &str) -> u32 {
    match s {
        "L0" => 0,
        "L1" => 1,
        "L2" => 2,
        "R0" => 10,
        "R1" => 11,
        "X" => 20,
        _ => 999,
    }
}
fn key_str(k: u8) -> String {
    format!("k{}", k)
}
fn key_code(s: &str) -> u32 {
    s.strip_prefix('k').and_then(|x| x.parse::<u32>().ok()).unwrap_or(9999)
}
/// number of property keys whose single-key reads are taken into the direct oracle (`all_single`);
/// 3 (= the keys of the canonical dump) except in the many-properties stream
static KEYSPACE: std::sync::atomic::AtomicU32 = std::sync::atomic::AtomicU32::new(3);
fn palette() -> Vec<PV> {
    vec![
        PV::Null,
        PV::Bool(true),
        PV::Int(0),
        PV::Int(i64::MIN),
        PV::Int((1 << 53) + 1),
        PV::Float(-0.0),
        PV::Float(f64::NAN),
        PV::Float(1.5),
        PV::String(String::new()),
        PV::String("h\u{e9}llo \u{4e16}".into()),
        PV::DateTime(1),
        PV::Blob(vec![0, 255]),
        PV::List(vec![PV::Int(1), PV::String("a".into())]),
        PV::Map(BTreeMap::from([("a".to_string(), PV::Null)])),
    ]
}
fn val_canon(v: &PV) -> String {
    match v {
        PV::Float(f) => format!("F{:016x}", f.to_bits()),
        PV::List(l) => format!("[{}]", l.iter().map(val_canon).collect::<Vec<_>>().join(",")),
        PV::Map(m) => format!("{{{}}}", m.iter().map(|(k, v)| format!("{}:{}", k, val_canon(v))).collect::<Vec<_>>().join(",")),
        other => format!("{:?}", other),
    }
}
fn val_code(v: &PV) -> u32 {
    let c = val_canon(v);
    palette().iter().position(|p| val_canon(p) == c).map(|i| i as u32).unwrap_or(99)
}
const VECS: [[f32; 3]; 4] = [[1.0, 0.0, 0.0], [0.0, 1.0, 0.0], [0.0, 0.0, 1.0], [0.5, 0.5, 0.0]];

// ---------------------------------------------------------------- name-level history
#[derive(Clone, Debug)]
enum Op {
    CreateNode { ext: u64, labels: Vec<u32> },
    AddLabel { n: u32, l: u32 },
    RemLabel { n: u32, l: u32 },
    CreateEdge { s: u32, t: u32, d: u32 },
    TombEdge { s: u32, t: u32, d: u32 },
    TombNode { n: u32 },
    SetNP { n: u32, k: u8, v: u8 },
    RemNP { n: u32, k: u8 },
    SetEP { s: u32, t: u32, d: u32, k: u8, v: u8 },
    RemEP { s: u32, t: u32, d: u32, k: u8 },
    SetVec { n: u32, v: u8 },
}
/// a second way of ending a transaction without success: commit() is called and returns an error
#[derive(Clone, Debug, PartialEq)]
enum Fail {
    /// one more property whose WAL record exceeds the 1 MiB record limit: the records logged before it stay in the log
    BigProp { n: u32 },
    /// the k-th I/O step of commit() (0 = the BeginTx append) is made to fail through the verif_io hook
    Io(u64),
}
#[derive(Clone, Debug)]
enum Hop {
    Txn { ops: Vec<Op>, commit: bool, fail: Option<Fail> },
    Compact,
    Checkpoint,
    CloseReopen,
    DropReopen,
}
fn js_op(o: &Op) -> serde_json::Value {
    json!(format!("{:?}", o))
}
fn js_hist(h: &[Hop]) -> serde_json::Value {
    json!(h.iter().map(|x| match x {
        Hop::Txn { ops, commit, fail } => json!({"txn": ops.iter().map(js_op).collect::<Vec<_>>(), "commit": commit, "commit_fails_by": format!("{:?}", fail)}),
        other => json!(format!("{:?}", other)),
    }).collect::<Vec<_>>())
}

// ---------------------------------------------------------------- id-level ops (what the model gets)
type E = (u32, u32, u32);
#[derive(Clone, Debug, PartialEq)]
enum W {
    GetLabel(u32),
    CreateNode(u64, u32),
    AddLabel(u32, u32),
    RemLabel(u32, u32),
    CreateEdge(E),
    TombEdge(E),
    TombNode(u32),
    SetNP(u32, u8, u8),
    RemNP(u32, u8),
    SetEP(E, u8, u8),
    RemEP(E, u8),
    SetVec(u32),
}
#[derive(Clone, Debug)]
enum HW {
    Txn(Vec<W>, bool),
    Compact,
    Checkpoint,
    CloseReopen,
    DropReopen,
}
fn n(x: u64) -> String {
    format!("{}%N", x)
}
fn coq_e(e: &E) -> String {
    format!("({}, {}, {})", n(e.0 as u64), n(e.1 as u64), n(e.2 as u64))
}
fn coq_w(w: &W) -> String {
    match w {
        W::GetLabel(a) => format!("OGetLabel {}", n(*a as u64)),
        W::CreateNode(e, l) => format!("OCreateNode {} {}", n(*e), n(*l as u64)),
        W::AddLabel(a, b) => format!("OAddLabel {} {}", n(*a as u64), n(*b as u64)),
        W::RemLabel(a, b) => format!("ORemLabel {} {}", n(*a as u64), n(*b as u64)),
        W::CreateEdge(e) => format!("OCreateEdge {}", coq_e(e)),
        W::TombEdge(e) => format!("OTombEdge {}", coq_e(e)),
        W::TombNode(a) => format!("OTombNode {}", n(*a as u64)),
        W::SetNP(a, k, v) => format!("OSetNP {} {} {}", n(*a as u64), n(*k as u64), n(*v as u64)),
        W::RemNP(a, k) => format!("ORemNP {} {}", n(*a as u64), n(*k as u64)),
        W::SetEP(e, k, v) => format!("OSetEP {} {} {}", coq_e(e), n(*k as u64), n(*v as u64)),
        W::RemEP(e, k) => format!("ORemEP {} {}", coq_e(e), n(*k as u64)),
        W::SetVec(a) => format!("OSetVec {}", n(*a as u64)),
    }
}
fn coq_hw(h: &HW) -> String {
    match h {
        HW::Txn(ops, c) => format!("HTxn {} {}", coq_list(ops, coq_w), coq_bool(*c)),
        HW::Compact => "HCompact".into(),
        HW::Checkpoint => "HCheckpoint".into(),
        HW::CloseReopen => "HCloseReopen".into(),
        HW::DropReopen => "HDropReopen".into(),
    }
}

// ---------------------------------------------------------------- canonical dump
type Props = Vec<(u32, u32)>;
#[derive(Clone, Debug, PartialEq, Eq, Default)]
struct DNode {
    iid: u32,
    ext: u64,
    lk: u32,
    labels: Vec<u32>,
    map: Props,
    single: Props,
    all_single: Props, // node_property for every key below KEYSPACE (direct oracle only)
}
#[derive(Clone, Debug, PartialEq, Eq)]
struct DEdge {
    s: u32,
    rel_id: u32, // not part of the canonical form (names are); kept for sorting like the model
    t: u32,
    d: u32,
    mult: u32,
    map: Props,
    single: Props,
    all_single: Props,
}
#[derive(Clone, Debug, PartialEq, Eq, Default)]
struct Dump {
    nodes: Vec<DNode>,
    out: Vec<DEdge>,
    inn: Vec<DEdge>,
    vec: Vec<u32>,
    panic: Option<String>,
}
fn coq_props(p: &Props) -> String {
    coq_list(p, |(k, v)| format!("({}, {})", n(*k as u64), n(*v as u64)))
}
fn coq_dnode(d: &DNode) -> String {
    format!(
        "({}, {}, {}, {}, {}, {})",
        n(d.iid as u64),
        n(d.ext),
        n(d.lk as u64),
        coq_list(&d.labels, |x| n(*x as u64)),
        coq_props(&d.map),
        coq_props(&d.single)
    )
}
fn coq_dedge(d: &DEdge) -> String {
    format!("(({}, {}, {}), {}, {}, {})", n(d.s as u64), n(d.t as u64), n(d.d as u64), n(d.mult as u64), coq_props(&d.map), coq_props(&d.single))
}
fn coq_dump(d: &Dump) -> String {
    format!(
        "(mkDump {} {} {} {})",
        coq_list(&d.nodes, coq_dnode),
        coq_list(&d.out, coq_dedge),
        coq_list(&d.inn, coq_dedge),
        coq_list(&d.vec, |x| n(*x as u64))
    )
}
fn js_dump(d: &Dump) -> serde_json::Value {
    json!({
        "nodes": d.nodes.iter().map(|x| json!([x.iid, x.ext, x.labels, x.map, x.single])).collect::<Vec<_>>(),
        "out": d.out.iter().map(|x| json!([x.s, x.t, x.d, x.mult, x.map, x.single])).collect::<Vec<_>>(),
        "in": d.inn.iter().map(|x| json!([x.s, x.t, x.d, x.mult, x.map, x.single])).collect::<Vec<_>>(),
        "vec": d.vec, "panic": d.panic,
    })
}
/// the dump with edges re-sorted by type NAME (ids differ between a bulk-loaded and a transactionally loaded db)
fn by_name_edges(d: &Dump) -> Dump {
    let mut x = d.clone();
    for v in [&mut x.out, &mut x.inn] {
        for e in v.iter_mut() {
            e.rel_id = 0;
        }
        v.sort_by_key(|e| (e.s, e.t, e.d));
    }
    x
}
fn by_name(d: &Dump) -> Dump {
    let mut x = d.clone();
    for v in [&mut x.out, &mut x.inn] {
        for e in v.iter_mut() {
            e.rel_id = 0;
        }
        v.sort_by_key(|e| (e.s, e.t, e.d));
    }
    for nd in x.nodes.iter_mut() {
        nd.lk = 0;
    }
    x
}

fn props_of(m: Option<BTreeMap<String, PV>>) -> Props {
    let mut v: Props = m.unwrap_or_default().iter().map(|(k, v)| (key_code(k), val_code(v))).collect();
    v.sort();
    v
}
fn group<S: GraphSnapshot>(snap: &S, mut es: Vec<EdgeKey>) -> Vec<DEdge> {
    es.sort_by_key(|e| (e.src, e.rel, e.dst));
    let mut out: Vec<DEdge> = Vec::new();
    for e in es {
        if let Some(last) = out.last_mut() {
            if last.s == e.src && last.rel_id == e.rel && last.d == e.dst {
                last.mult += 1;
                continue;
            }
        }
        let t = snap.resolve_rel_type_name(e.rel).map(|s| name_code(&s)).unwrap_or(999);
        let ks = KEYSPACE.load(std::sync::atomic::Ordering::Relaxed);
        let all_single: Props = (0..ks).filter_map(|k| snap.edge_property(e, &key_str(k as u8)).map(|v| (k, val_code(&v)))).collect();
        let single: Props = all_single.iter().copied().filter(|kv| kv.0 < 3).collect();
        out.push(DEdge { s: e.src, rel_id: e.rel, t, d: e.dst, mult: 1, map: props_of(snap.edge_properties(e)), single, all_single });
    }
    out
}
fn dump_snapshot<S: GraphSnapshot>(snap: &S, lookup: &dyn Fn(u64) -> u32, vec_ids: Vec<u32>, rep_filter_fail: &mut Vec<String>) -> Dump {
    let mut d = Dump::default();
    for iid in snap.nodes() {
        let ext = snap.resolve_external(iid).unwrap_or(0);
        let mut labels: Vec<u32> = snap
            .resolve_node_labels(iid)
            .unwrap_or_default()
            .into_iter()
            .filter_map(|l| snap.resolve_label_name(l))
            .map(|s| name_code(&s))
            .collect();
        labels.sort();
        let ks = KEYSPACE.load(std::sync::atomic::Ordering::Relaxed);
        let all_single: Props = (0..ks).filter_map(|k| snap.node_property(iid, &key_str(k as u8)).map(|v| (k, val_code(&v)))).collect();
        let single: Props = all_single.iter().copied().filter(|kv| kv.0 < 3).collect();
        d.nodes.push(DNode { iid, ext, lk: lookup(ext), labels, map: props_of(snap.node_properties(iid)), single, all_single });
    }
    let mut outs = Vec::new();
    let mut ins = Vec::new();
    for iid in 0..UNIVERSE {
        let o: Vec<EdgeKey> = snap.neighbors(iid, None).collect();
        let i: Vec<EdgeKey> = snap.incoming_neighbors(iid, None).collect();
        // the filtered interface must be the filter of the unfiltered one
        let rels: BTreeSet<u32> = o.iter().chain(i.iter()).map(|e| e.rel).collect();
        for r in rels {
            let mut a: Vec<EdgeKey> = snap.neighbors(iid, Some(r)).collect();
            let mut b: Vec<EdgeKey> = o.iter().copied().filter(|e| e.rel == r).collect();
            a.sort();
            b.sort();
            if a != b {
                rep_filter_fail.push(format!("neighbors({},Some({})) is not the filter of neighbors({},None)", iid, r, iid));
            }
            let mut a: Vec<EdgeKey> = snap.incoming_neighbors(iid, Some(r)).collect();
            let mut b: Vec<EdgeKey> = i.iter().copied().filter(|e| e.rel == r).collect();
            a.sort();
            b.sort();
            if a != b {
                rep_filter_fail.push(format!("incoming_neighbors({},Some({})) is not the filter of the unfiltered call", iid, r));
            }
        }
        outs.extend(o);
        ins.extend(i);
    }
    d.out = group(snap, outs);
    d.inn = group(snap, ins);
    d.vec = vec_ids;
    d
}

// ---------------------------------------------------------------- the implementation under test
enum Handle {
    Db(Db),
    Eng(GraphEngine),
}
struct Impl {
    base: PathBuf,
    use_db: bool,
    h: Option<Handle>,
}
enum Tx<'a> {
    Db(nervusdb::WriteTxn<'a>),
    Eng(nervusdb_storage::engine::WriteTxn<'a>),
}
impl<'a> Tx<'a> {
    fn label(&mut self, name: &str) -> u32 {
        match self {
            Tx::Db(t) => t.get_or_create_label(name).unwrap(),
            Tx::Eng(t) => t.get_or_create_label(name).unwrap(),
        }
    }
    fn create_node(&mut self, ext: u64, l: u32) -> Result<u32, String> {
        match self {
            Tx::Db(t) => t.create_node(ext, l).map_err(|e| e.to_string()),
            Tx::Eng(t) => t.create_node(ext, l).map_err(|e| e.to_string()),
        }
    }
    fn add_label(&mut self, nd: u32, l: u32) {
        match self {
            Tx::Db(t) => WriteableGraph::add_node_label(t, nd, l).unwrap(),
            Tx::Eng(t) => t.add_node_label(nd, l).unwrap(),
        }
    }
    fn rem_label(&mut self, nd: u32, l: u32) {
        match self {
            Tx::Db(t) => WriteableGraph::remove_node_label(t, nd, l).unwrap(),
            Tx::Eng(t) => t.remove_node_label(nd, l).unwrap(),
        }
    }
    fn create_edge(&mut self, e: E) {
        match self {
            Tx::Db(t) => t.create_edge(e.0, e.1, e.2),
            Tx::Eng(t) => t.create_edge(e.0, e.1, e.2),
        }
    }
    fn tomb_edge(&mut self, e: E) {
        match self {
            Tx::Db(t) => t.tombstone_edge(e.0, e.1, e.2),
            Tx::Eng(t) => t.tombstone_edge(e.0, e.1, e.2),
        }
    }
    fn tomb_node(&mut self, nd: u32) {
        match self {
            Tx::Db(t) => t.tombstone_node(nd),
            Tx::Eng(t) => t.tombstone_node(nd),
        }
    }
    fn set_np(&mut self, nd: u32, k: &str, v: PV) {
        match self {
            Tx::Db(t) => t.set_node_property(nd, k.into(), v).unwrap(),
            Tx::Eng(t) => t.set_node_property(nd, k.into(), v),
        }
    }
    fn rem_np(&mut self, nd: u32, k: &str) {
        match self {
            Tx::Db(t) => t.remove_node_property(nd, k).unwrap(),
            Tx::Eng(t) => t.remove_node_property(nd, k),
        }
    }
    fn set_ep(&mut self, e: E, k: &str, v: PV) {
        match self {
            Tx::Db(t) => t.set_edge_property(e.0, e.1, e.2, k.into(), v).unwrap(),
            Tx::Eng(t) => t.set_edge_property(e.0, e.1, e.2, k.into(), v),
        }
    }
    fn rem_ep(&mut self, e: E, k: &str) {
        match self {
            Tx::Db(t) => t.remove_edge_property(e.0, e.1, e.2, k).unwrap(),
            Tx::Eng(t) => t.remove_edge_property(e.0, e.1, e.2, k),
        }
    }
    fn set_vec(&mut self, nd: u32, v: Vec<f32>) {
        match self {
            Tx::Db(t) => t.set_vector(nd, v).unwrap(),
            Tx::Eng(t) => t.set_vector(nd, v).unwrap(),
        }
    }
    fn commit(self) -> Result<(), String> {
        match self {
            Tx::Db(t) => t.commit().map_err(|e| e.to_string()),
            Tx::Eng(t) => t.commit().map_err(|e| e.to_string()),
        }
    }
}
impl Impl {
    fn new(dir: &Path, use_db: bool) -> Impl {
        let mut i = Impl { base: dir.join("g"), use_db, h: None };
        i.open();
        i
    }
    fn open(&mut self) {
        self.h = Some(if self.use_db {
            Handle::Db(Db::open(&self.base).expect("open"))
        } else {
            Handle::Eng(GraphEngine::open(self.base.with_extension("ndb"), self.base.with_extension("wal")).expect("open"))
        });
    }
    fn begin(&self) -> Tx<'_> {
        match self.h.as_ref().unwrap() {
            Handle::Db(d) => Tx::Db(d.begin_write()),
            Handle::Eng(e) => Tx::Eng(e.begin_write()),
        }
    }
    fn compact(&self) {
        match self.h.as_ref().unwrap() {
            Handle::Db(d) => d.compact().unwrap(),
            Handle::Eng(e) => e.compact().unwrap(),
        }
    }
    fn checkpoint(&self) {
        match self.h.as_ref().unwrap() {
            Handle::Db(d) => d.checkpoint().unwrap(),
            Handle::Eng(e) => e.compact().unwrap(), // Db::checkpoint is compact()
        }
    }
    fn close_reopen(&mut self) {
        match self.h.take().unwrap() {
            Handle::Db(d) => d.close().unwrap(),
            Handle::Eng(e) => {
                e.checkpoint_on_close().unwrap();
                drop(e)
            }
        }
        self.open();
    }
    fn drop_reopen(&mut self) {
        self.h = None;
        self.open();
    }
    fn dump(&self, filt: &mut Vec<String>) -> Dump {
        let r = catch(std::panic::AssertUnwindSafe(|| {
            let mut ff = Vec::new();
            let d = match self.h.as_ref().unwrap() {
                Handle::Db(d) => {
                    let ids = search_ids(d.search_vector(&[1.0, 0.0, 0.0], 16).map_err(|e| e.to_string()));
                    dump_snapshot(&d.snapshot(), &|_| NOLK, ids, &mut ff)
                }
                Handle::Eng(e) => {
                    let ids = search_ids(e.search_vector(&[1.0, 0.0, 0.0], 16).map_err(|e| e.to_string()));
                    dump_snapshot(&e.snapshot(), &|ext| e.lookup_internal_id(ext).unwrap_or(UNLABELED), ids, &mut ff)
                }
            };
            (d, ff)
        }));
        match r {
            Ok((d, ff)) => {
                filt.extend(ff);
                d
            }
            Err(msg) => Dump { panic: Some(msg), ..Default::default() },
        }
    }
}
fn search_ids(r: Result<Vec<(u32, f32)>, String>) -> Vec<u32> {
    let mut v: Vec<u32> = r.unwrap_or_default().into_iter().map(|x| x.0).collect();
    v.sort();
    v.dedup();
    v
}

/// Runs a name-level history; returns the id-level history as executed and the dump after every step.
fn run_impl(hist: &[Hop], use_db: bool, filt: &mut Vec<String>) -> (Vec<HW>, Vec<Dump>) {
    let dir = tempfile::tempdir().unwrap();
    let mut im = Impl::new(dir.path(), use_db);
    let mut hw = Vec::new();
    let mut dumps = Vec::new();
    for h in hist {
        match h {
            Hop::Txn { ops, commit, fail } => {
                let mut ws = Vec::new();
                let mut committed = false;
                {
                    let mut tx = im.begin();
                    for o in ops {
                        exec_op(&mut tx, o, &mut ws);
                    }
                    match fail {
                        None => {
                            if *commit {
                                tx.commit().expect("commit");
                                committed = true;
                            }
                        }
                        Some(Fail::BigProp { n }) => {
                            tx.set_np(*n, "k0", PV::String("x".repeat(1_100_000)));
                            match tx.commit() {
                                Ok(()) => {
                                    committed = true;
                                    filt.push("commit() of a transaction with a 1.1 MiB property record succeeded".into());
                                }
                                Err(_) => {}
                            }
                        }
                        Some(Fail::Io(k)) => {
                            nervusdb_storage::verif_io::start(Some(*k));
                            let r = tx.commit();
                            let _ = nervusdb_storage::verif_io::stop();
                            committed = r.is_ok();
                        }
                    }
                }
                hw.push(HW::Txn(ws, committed));
            }
            Hop::Compact => {
                im.compact();
                hw.push(HW::Compact)
            }
            Hop::Checkpoint => {
                im.checkpoint();
                hw.push(HW::Checkpoint)
            }
            Hop::CloseReopen => {
                hw.push(HW::CloseReopen);
                if let Err(e) = catch(std::panic::AssertUnwindSafe(|| im.close_reopen())) {
                    dumps.push(Dump { panic: Some(format!("close + reopen failed: {}", e)), ..Default::default() });
                    break;
                }
            }
            Hop::DropReopen => {
                hw.push(HW::DropReopen);
                if let Err(e) = catch(std::panic::AssertUnwindSafe(|| im.drop_reopen())) {
                    dumps.push(Dump { panic: Some(format!("reopen failed: {}", e)), ..Default::default() });
                    break;
                }
            }
        }
        dumps.push(im.dump(filt));
    }
    (hw, dumps)
}
fn exec_op(tx: &mut Tx<'_>, o: &Op, ws: &mut Vec<W>) {
    let mut lab = |tx: &mut Tx<'_>, ws: &mut Vec<W>, code: u32| -> u32 {
        ws.push(W::GetLabel(code));
        tx.label(&name_str(code))
    };
    match o {
        Op::CreateNode { ext, labels } => {
            let l0 = if let Some(c) = labels.first() { lab(tx, ws, *c) } else { UNLABELED };
            ws.push(W::CreateNode(*ext, l0));
            if let Ok(iid) = tx.create_node(*ext, l0) {
                for c in labels.iter().skip(1) {
                    let l = lab(tx, ws, *c);
                    ws.push(W::AddLabel(iid, l));
                    tx.add_label(iid, l);
                }
            }
        }
        Op::AddLabel { n, l } => {
            let id = lab(tx, ws, *l);
            ws.push(W::AddLabel(*n, id));
            tx.add_label(*n, id);
        }
        Op::RemLabel { n, l } => {
            let id = lab(tx, ws, *l);
            ws.push(W::RemLabel(*n, id));
            tx.rem_label(*n, id);
        }
        Op::CreateEdge { s, t, d } => {
            let id = lab(tx, ws, *t);
            ws.push(W::CreateEdge((*s, id, *d)));
            tx.create_edge((*s, id, *d));
        }
        Op::TombEdge { s, t, d } => {
            let id = lab(tx, ws, *t);
            ws.push(W::TombEdge((*s, id, *d)));
            tx.tomb_edge((*s, id, *d));
        }
        Op::TombNode { n } => {
            ws.push(W::TombNode(*n));
            tx.tomb_node(*n);
        }
        Op::SetNP { n, k, v } => {
            ws.push(W::SetNP(*n, *k, *v));
            tx.set_np(*n, &key_str(*k), palette()[*v as usize].clone());
        }
        Op::RemNP { n, k } => {
            ws.push(W::RemNP(*n, *k));
            tx.rem_np(*n, &key_str(*k));
        }
        Op::SetEP { s, t, d, k, v } => {
            let id = lab(tx, ws, *t);
            ws.push(W::SetEP((*s, id, *d), *k, *v));
            tx.set_ep((*s, id, *d), &key_str(*k), palette()[*v as usize].clone());
        }
        Op::RemEP { s, t, d, k } => {
            let id = lab(tx, ws, *t);
            ws.push(W::RemEP((*s, id, *d), *k));
            tx.rem_ep((*s, id, *d), &key_str(*k));
        }
        Op::SetVec { n, v } => {
            ws.push(W::SetVec(*n));
            tx.set_vec(*n, VECS[*v as usize].to_vec());
        }
    }
}

// ---------------------------------------------------------------- reference graph = Engine/Graph.v
#[derive(Clone, Default, Debug)]
struct RNode {
    ext: u64,
    labels: Vec<u32>,
    live: bool,
}
#[derive(Clone, Default, Debug)]
struct Ref {
    nodes: Vec<RNode>,
    np: BTreeMap<(u32, u8), u8>,
    edges: Vec<E>,
    ep: BTreeMap<(E, u8), u8>,
    interner: Vec<u32>, // names in id order (the reference's view of the interner, for names in dumps)
}
impl Ref {
    fn live(&self, n: u32) -> bool {
        self.nodes.get(n as usize).map(|x| x.live).unwrap_or(false)
    }
    fn apply(&mut self, w: &W) {
        match w {
            W::GetLabel(_) | W::SetVec(_) => {}
            W::CreateNode(ext, l) => {
                if !self.nodes.iter().any(|x| x.ext == *ext) {
                    self.nodes.push(RNode { ext: *ext, labels: if *l == UNLABELED { vec![] } else { vec![*l] }, live: true });
                }
            }
            W::AddLabel(n, l) => {
                if self.live(*n) {
                    let x = &mut self.nodes[*n as usize].labels;
                    if !x.contains(l) {
                        x.push(*l);
                        x.sort();
                    }
                }
            }
            W::RemLabel(n, l) => {
                if self.live(*n) {
                    self.nodes[*n as usize].labels.retain(|x| x != l);
                }
            }
            W::CreateEdge(e) => {
                if self.live(e.0) && self.live(e.2) {
                    self.edges.push(*e);
                }
            }
            W::TombEdge(e) => {
                self.edges.retain(|x| x != e);
                self.ep.retain(|k, _| k.0 != *e);
            }
            W::TombNode(n) => {
                if self.live(*n) {
                    self.nodes[*n as usize].live = false;
                    self.np.retain(|k, _| k.0 != *n);
                    self.edges.retain(|x| x.0 != *n && x.2 != *n);
                    self.ep.retain(|k, _| k.0.0 != *n && k.0.2 != *n);
                }
            }
            W::SetNP(n, k, v) => {
                if self.live(*n) {
                    self.np.insert((*n, *k), *v);
                }
            }
            W::RemNP(n, k) => {
                self.np.remove(&(*n, *k));
            }
            W::SetEP(e, k, v) => {
                if self.edges.contains(e) {
                    self.ep.insert((*e, *k), *v);
                }
            }
            W::RemEP(e, k) => {
                self.ep.remove(&(*e, *k));
            }
        }
    }
    /// interner bookkeeping: names are registered at call time, committed or not
    fn note_labels(&mut self, ws: &[W]) {
        for w in ws {
            if let W::GetLabel(c) = w {
                if !self.interner.contains(c) {
                    self.interner.push(*c);
                }
            }
        }
    }
    fn dump(&self, vec: &[u32], with_lookup: bool) -> Dump {
        let mut d = Dump::default();
        let name = |id: u32| self.interner.get(id as usize).copied();
        for (i, x) in self.nodes.iter().enumerate() {
            if !x.live {
                continue;
            }
            let i = i as u32;
            let mut labels: Vec<u32> = x.labels.iter().filter_map(|l| name(*l)).collect();
            labels.sort();
            let pr: Props = self.np.iter().filter(|(k, _)| k.0 == i).map(|(k, v)| (k.1 as u32, *v as u32)).collect();
            d.nodes.push(DNode { iid: i, ext: x.ext, lk: if with_lookup { i } else { NOLK }, labels, map: pr.clone(), single: pr.iter().copied().filter(|kv| kv.0 < 3).collect(), all_single: pr });
        }
        let mut es = self.edges.clone();
        es.sort();
        let mut g: Vec<DEdge> = Vec::new();
        for e in es {
            if let Some(last) = g.last_mut() {
                if (last.s, last.rel_id, last.d) == e {
                    last.mult += 1;
                    continue;
                }
            }
            let pr: Props = self.ep.iter().filter(|(k, _)| k.0 == e).map(|(k, v)| (k.1 as u32, *v as u32)).collect();
            g.push(DEdge { s: e.0, rel_id: e.1, t: name(e.1).unwrap_or(999), d: e.2, mult: 1, map: pr.clone(), single: pr.iter().copied().filter(|kv| kv.0 < 3).collect(), all_single: pr });
        }
        d.out = g.clone();
        d.inn = g;
        d.vec = vec.to_vec();
        d
    }
}
/// reference dumps after every step of an id-level history (vector part copied from the implementation:
/// the reference graph has no vector index)
fn ref_dumps(hw: &[HW], impl_dumps: &[Dump], with_lookup: bool) -> Vec<Dump> {
    let mut r = Ref::default();
    let mut out = Vec::new();
    for (i, h) in hw.iter().enumerate() {
        if let HW::Txn(ws, c) = h {
            r.note_labels(ws);
            if *c {
                for w in ws {
                    r.apply(w);
                }
            }
        }
        out.push(r.dump(&impl_dumps[i].vec, with_lookup));
    }
    out
}

// ---------------------------------------------------------------- generator
#[derive(Clone, Default)]
struct Gen {
    nodes: Vec<bool>,                  // liveness per predicted internal id (committed + current txn)
    exts: Vec<u64>,
    edges: BTreeMap<(u32, u32, u32), u32>, // (s, type NAME, d) -> multiplicity
    eprops: BTreeSet<((u32, u32, u32), u8)>,
    nprops: BTreeSet<(u32, u8)>,
    next_ext: u64,
}
struct Flavor {
    commit_pct: u64,
    maint_pct: u64,     // chance of a maintenance step after a transaction
    compact: bool,
    reopen: bool,
    vectors: bool,
    c14_patterns: bool,
    malformed_pct: u64,
}
impl Gen {
    fn live_nodes(&self) -> Vec<u32> {
        (0..self.nodes.len() as u32).filter(|i| self.nodes[*i as usize]).collect()
    }
    fn gen_op(&mut self, r: &mut Rng, fl: &Flavor) -> Option<Op> {
        let live = self.live_nodes();
        let roll = r.below(100);
        let pick_edge = |g: &Gen, r: &mut Rng| -> Option<(u32, u32, u32)> {
            let ks: Vec<_> = g.edges.keys().copied().collect();
            if ks.is_empty() { None } else { Some(*r.pick(&ks)) }
        };
        if live.len() < 2 && roll < 60 || roll < 16 {
            if self.nodes.len() >= MAX_NODES {
                return None;
            }
            let nl = match r.below(10) { 0 | 1 => 0, 2..=5 => 1, 6..=8 => 2, _ => 3 };
            let mut labels = Vec::new();
            while labels.len() < nl {
                let l = r.below(3) as u32;
                if !labels.contains(&l) {
                    labels.push(l);
                }
            }
            self.next_ext += 1;
            let ext = 100 + self.next_ext;
            self.nodes.push(true);
            self.exts.push(ext);
            return Some(Op::CreateNode { ext, labels });
        }
        if live.is_empty() {
            return None;
        }
        Some(match roll {
            16..=35 => {
                // create edge: parallel edges and self loops wanted
                let (s, d) = match r.below(6) {
                    0 => { let x = *r.pick(&live); (x, x) }
                    1 | 2 => match pick_edge(self, r) { Some(e) => (e.0, e.2), None => (*r.pick(&live), *r.pick(&live)) },
                    _ => (*r.pick(&live), *r.pick(&live)),
                };
                if !self.nodes[s as usize] || !self.nodes[d as usize] {
                    return None;
                }
                let t = 10 + r.below(2) as u32;
                *self.edges.entry((s, t, d)).or_insert(0) += 1;
                Op::CreateEdge { s, t, d }
            }
            36..=47 => {
                let nd = *r.pick(&live);
                let k = r.below(3) as u8;
                self.nprops.insert((nd, k));
                Op::SetNP { n: nd, k, v: r.below(14) as u8 }
            }
            48..=57 => {
                let e = pick_edge(self, r)?;
                let k = r.below(3) as u8;
                self.eprops.insert((e, k));
                Op::SetEP { s: e.0, t: e.1, d: e.2, k, v: r.below(14) as u8 }
            }
            58..=63 => {
                let nd = *r.pick(&live);
                let k = match self.nprops.iter().find(|p| p.0 == nd) { Some(p) if r.chance(3, 4) => p.1, _ => r.below(3) as u8 };
                self.nprops.remove(&(nd, k));
                Op::RemNP { n: nd, k }
            }
            64..=67 => {
                let e = pick_edge(self, r)?;
                let k = match self.eprops.iter().find(|p| p.0 == e) { Some(p) if r.chance(3, 4) => p.1, _ => r.below(3) as u8 };
                self.eprops.remove(&(e, k));
                Op::RemEP { s: e.0, t: e.1, d: e.2, k }
            }
            68..=73 => {
                let e = pick_edge(self, r)?;
                self.edges.remove(&e);
                self.eprops.retain(|p| p.0 != e);
                Op::TombEdge { s: e.0, t: e.1, d: e.2 }
            }
            74..=76 => {
                let nd = *r.pick(&live);
                self.nodes[nd as usize] = false;
                self.edges.retain(|e, _| e.0 != nd && e.2 != nd);
                self.eprops.retain(|p| p.0.0 != nd && p.0.2 != nd);
                self.nprops.retain(|p| p.0 != nd);
                Op::TombNode { n: nd }
            }
            77..=86 => Op::AddLabel { n: *r.pick(&live), l: r.below(3) as u32 },
            87..=94 => Op::RemLabel { n: *r.pick(&live), l: r.below(3) as u32 },
            _ => {
                if fl.vectors {
                    Op::SetVec { n: *r.pick(&live), v: r.below(4) as u8 }
                } else {
                    let nd = *r.pick(&live);
                    let k = r.below(3) as u8;
                    self.nprops.insert((nd, k));
                    Op::SetNP { n: nd, k, v: r.below(14) as u8 }
                }
            }
        })
    }
    /// C14: a relationship and the deletion of one endpoint in ONE transaction
    fn c14_pattern(&mut self, r: &mut Rng) -> Vec<Op> {
        let live = self.live_nodes();
        if live.len() < 2 {
            return vec![];
        }
        let a = *r.pick(&live);
        let b = *r.pick(&live);
        let t = 10 + r.below(2) as u32;
        let victim = if r.chance(1, 2) { a } else { b };
        let mut ops = vec![Op::CreateEdge { s: a, t, d: b }];
        if r.chance(1, 3) {
            ops.push(Op::SetEP { s: a, t, d: b, k: 0, v: 2 });
        }
        ops.push(Op::TombNode { n: victim });
        self.nodes[victim as usize] = false;
        self.edges.retain(|e, _| e.0 != victim && e.2 != victim);
        self.eprops.retain(|p| p.0.0 != victim && p.0.2 != victim);
        self.nprops.retain(|p| p.0 != victim);
        ops
    }
}
/// C05 "many properties" stream: 400..900 property values with distinct keys over 4 nodes and 2 relationships
/// in 2..3 transactions, compaction, more values (new keys), compaction again, reopen, a small transaction,
/// checkpoint — the sunk property store outgrows one page (root split of the property B-tree)
fn gen_many(r: &mut Rng) -> Vec<Hop> {
    let t = |ops: Vec<Op>| Hop::Txn { ops, commit: true, fail: None };
    let mut h = vec![t(vec![
        Op::CreateNode { ext: 101, labels: vec![0] },
        Op::CreateNode { ext: 102, labels: vec![1] },
        Op::CreateNode { ext: 103, labels: vec![] },
        Op::CreateNode { ext: 104, labels: vec![2] },
        Op::CreateEdge { s: 0, t: 10, d: 1 },
        Op::CreateEdge { s: 2, t: 11, d: 2 },
    ])];
    // (item, key) pairs: items 0..3 = nodes, 4..5 = the two relationships; keys 0..KEYS_MANY
    let mut pairs: Vec<(u32, u8)> = Vec::new();
    for item in 0..6u32 {
        for k in 0..KEYS_MANY as u8 {
            pairs.push((item, k));
        }
    }
    // shuffle
    for i in (1..pairs.len()).rev() {
        let j = r.below(i as u64 + 1) as usize;
        pairs.swap(i, j);
    }
    let total = 400 + r.below(501) as usize;
    let first = total * (40 + r.below(40) as usize) / 100; // before the first compaction
    let mk = |p: &(u32, u8), r: &mut Rng| -> Op {
        let v = r.below(14) as u8;
        match p.0 {
            0..=3 => Op::SetNP { n: p.0, k: p.1, v },
            4 => Op::SetEP { s: 0, t: 10, d: 1, k: p.1, v },
            _ => Op::SetEP { s: 2, t: 11, d: 2, k: p.1, v },
        }
    };
    let ntx = 2 + r.below(2) as usize;
    let chunk = first.div_ceil(ntx);
    for c in pairs[..first].chunks(chunk.max(1)) {
        h.push(t(c.iter().map(|p| mk(p, r)).collect()));
    }
    h.push(if r.chance(1, 2) { Hop::Compact } else { Hop::Checkpoint });
    h.push(t(pairs[first..total].iter().map(|p| mk(p, r)).collect()));
    h.push(Hop::Compact);
    h.push(if r.chance(1, 2) { Hop::DropReopen } else { Hop::CloseReopen });
    h.push(t(vec![Op::SetNP { n: 3, k: (KEYS_MANY - 1) as u8, v: 1 }, Op::CreateEdge { s: 1, t: 10, d: 3 }]));
    h.push(Hop::Checkpoint);
    h
}
const KEYS_MANY: u32 = 160;

fn gen_history(r: &mut Rng, fl: &Flavor) -> Vec<Hop> {
    let mut g = Gen::default();
    let mut h = Vec::new();
    let ntx = 3 + r.below(10) as usize; // 3..12
    for _ in 0..ntx {
        let commit = r.below(100) < fl.commit_pct;
        let saved = g.clone();
        let mut ops = Vec::new();
        if fl.c14_patterns && r.chance(1, 8) {
            ops = g.c14_pattern(r);
        }
        let nops = 1 + r.below(5) as usize;
        for _ in 0..nops {
            if let Some(o) = g.gen_op(r, fl) {
                ops.push(o);
            }
        }
        // delete-then-recreate inside one transaction (C04/C05 pattern)
        if r.chance(1, 8) {
            let ks: Vec<_> = g.edges.keys().copied().collect();
            if !ks.is_empty() {
                let e = *r.pick(&ks);
                ops.push(Op::TombEdge { s: e.0, t: e.1, d: e.2 });
                ops.push(Op::CreateEdge { s: e.0, t: e.1, d: e.2 });
                g.edges.insert(e, 1);
                g.eprops.retain(|p| p.0 != e);
            }
        }
        if fl.malformed_pct > 0 && r.below(100) < fl.malformed_pct {
            // duplicate external id: must be rejected, nothing else changes
            if let Some(x) = g.exts.first() {
                ops.push(Op::CreateNode { ext: *x, labels: vec![0] });
            }
        }
        // C07: some of the unsuccessful transactions end by a FAILING commit() instead of a drop
        let mut fail = None;
        if !commit && fl.vectors {
            let live = saved.live_nodes();
            match r.below(10) {
                0..=2 if !live.is_empty() => fail = Some(Fail::BigProp { n: *r.pick(&live) }),
                3 => fail = Some(Fail::Io(r.below(2))),
                _ => {}
            }
        }
        if !commit {
            g = saved;
        }
        let failed = fail.is_some();
        h.push(Hop::Txn { ops, commit, fail });
        if failed && r.chance(2, 3) {
            // a later committed transaction and a reopen: recovery is the only reader of the leftover records
            let mut ops2 = Vec::new();
            for _ in 0..1 + r.below(3) {
                if let Some(o) = g.gen_op(r, fl) {
                    if !matches!(o, Op::SetVec { .. }) {
                        ops2.push(o);
                    }
                }
            }
            h.push(Hop::Txn { ops: ops2, commit: true, fail: None });
            h.push(if r.chance(1, 2) { Hop::DropReopen } else { Hop::CloseReopen });
        }
        if r.below(100) < fl.maint_pct {
            let m = match (fl.compact, fl.reopen) {
                (true, true) => match r.below(6) { 0 | 1 => Hop::Compact, 2 => Hop::Checkpoint, 3 | 4 => Hop::CloseReopen, _ => Hop::DropReopen },
                (true, false) => if r.chance(2, 3) { Hop::Compact } else { Hop::Checkpoint },
                (false, true) => if r.chance(1, 2) { Hop::CloseReopen } else { Hop::DropReopen },
                _ => continue,
            };
            h.push(m);
        }
    }
    h
}

// ---------------------------------------------------------------- known-finding class predicates (mirrored in Engine/Known.v)
#[derive(Default, Debug)]
struct Classes {
    eprops: bool,        // K-C06-eprops
    samerun: bool,       // K-C14-samerun
    tomb: bool,          // K-C05-tomb
    remove: bool,        // K-C05-remove
    dups: bool,          // K-C05-dups
    recreate: bool,      // K-C05-recreate
    labels: bool,        // K-C04-labels
    vector: bool,        // K-C07-vector
    labelorder: bool,    // K-C06-labelorder
    // not flags: which items K-C05-tomb explains (tombstones compacted away), and the interner view
    res_nodes: BTreeSet<u32>,
    res_edges: BTreeSet<E>,
    names: Vec<u32>,
}
fn is_maint_compact(h: &HW) -> bool {
    matches!(h, HW::Compact | HW::Checkpoint)
}
fn is_reopen(h: &HW) -> bool {
    matches!(h, HW::CloseReopen | HW::DropReopen)
}
/// class predicates of an id-level history prefix (see known/*.json for the prose)
fn classes(hw: &[HW]) -> Classes {
    let mut c = Classes::default();
    let mut r = Ref::default();
    let mut tombed_with_props: BTreeSet<E> = BTreeSet::new(); // edge keys deleted while they had properties
    let mut seg_keys: BTreeSet<E> = BTreeSet::new(); // edge keys that reached a segment
    let mut del_nodes: BTreeSet<u32> = BTreeSet::new(); // nodes deleted since the last compaction
    let mut del_edges: BTreeSet<E> = BTreeSet::new(); // segment-resident edge keys deleted since the last compaction
    let mut sunk_n: BTreeSet<(u32, u8)> = BTreeSet::new();
    let mut sunk_e: BTreeSet<(E, u8)> = BTreeSet::new();
    let mut pend_n: BTreeSet<(u32, u8)> = BTreeSet::new(); // set since the last compaction
    let mut pend_e: BTreeSet<(E, u8)> = BTreeSet::new();
    let mut recreate_pending = false;
    let mut rem_pending = false; // a value still held by an older run was removed: the next compaction sinks it anyway
    let mut label_change = false;
    let mut label_change_then_maint = false;
    for h in hw {
        match h {
            HW::Txn(ws, commit) => {
                r.note_labels(ws);
                if ws.iter().any(|w| matches!(w, W::SetVec(_))) && !*commit {
                    c.vector = true;
                }
                if !*commit {
                    continue;
                }
                let mut created_here: Vec<E> = Vec::new();
                let mut tombed_here: BTreeSet<E> = BTreeSet::new();
                let mut lrem_here: BTreeSet<(u32, u32)> = BTreeSet::new();
                let mut here_n: BTreeSet<(u32, u8)> = BTreeSet::new();
                let mut here_e: BTreeSet<(E, u8)> = BTreeSet::new();
                for w in ws {
                    match w {
                        W::TombEdge(e) => {
                            if r.ep.keys().any(|k| k.0 == *e) {
                                tombed_with_props.insert(*e);
                            }
                            if seg_keys.contains(e) {
                                del_edges.insert(*e);
                            }
                            created_here.retain(|x| x != e);
                            tombed_here.insert(*e);
                        }
                        W::TombNode(nd) => {
                            if r.live(*nd) {
                                del_nodes.insert(*nd);
                            }
                            if created_here.iter().any(|e| (e.0 == *nd) != (e.2 == *nd)) {
                                c.samerun = true;
                            }
                        }
                        W::CreateEdge(e) => {
                            if tombed_with_props.contains(e) && r.live(e.0) && r.live(e.2) {
                                c.eprops = true;
                            }
                            if r.live(e.0) && r.live(e.2) {
                                created_here.push(*e);
                                if tombed_here.contains(e) {
                                    recreate_pending = true;
                                }
                            }
                        }
                        W::SetNP(a, k, _) => {
                            here_n.insert((*a, *k));
                        }
                        W::SetEP(e, k, _) => {
                            here_e.insert((*e, *k));
                        }
                        W::RemNP(a, k) => {
                            here_n.remove(&(*a, *k));
                            if sunk_n.contains(&(*a, *k)) {
                                c.remove = true;
                            }
                            if pend_n.contains(&(*a, *k)) {
                                rem_pending = true;
                            }
                        }
                        W::RemEP(e, k) => {
                            here_e.remove(&(*e, *k));
                            if sunk_e.contains(&(*e, *k)) {
                                c.remove = true;
                            }
                            if pend_e.contains(&(*e, *k)) {
                                rem_pending = true;
                            }
                        }
                        W::AddLabel(a, l) => {
                            label_change = true;
                            if lrem_here.contains(&(*a, *l)) {
                                c.labelorder = true;
                            }
                        }
                        W::RemLabel(a, l) => {
                            label_change = true;
                            lrem_here.insert((*a, *l));
                        }
                        _ => {}
                    }
                    r.apply(w);
                }
                pend_n.extend(here_n);
                pend_e.extend(here_e);
            }
            x if is_maint_compact(x) => {
                if rem_pending {
                    c.remove = true;
                }
                if !del_nodes.is_empty() || !del_edges.is_empty() {
                    c.tomb = true;
                }
                c.res_nodes.extend(del_nodes.iter().copied());
                c.res_edges.extend(del_edges.iter().copied());
                del_nodes.clear();
                del_edges.clear();
                seg_keys.extend(r.edges.iter().copied());
                if recreate_pending {
                    c.recreate = true;
                }
                for p in pend_n.iter() {
                    if !sunk_n.insert(*p) {
                        c.dups = true;
                    }
                }
                for p in pend_e.iter() {
                    if !sunk_e.insert(*p) {
                        c.dups = true;
                    }
                }
                pend_n.clear();
                pend_e.clear();
                if label_change {
                    label_change_then_maint = true;
                }
            }
            HW::CloseReopen => {
                if label_change {
                    c.labels = true;
                }
            }
            HW::DropReopen => {
                if label_change_then_maint {
                    c.labels = true;
                }
            }
            _ => {}
        }
    }
    c.names = r.interner.clone();
    c
}

#[derive(Debug, PartialEq, Eq, PartialOrd, Ord, Clone, Copy)]
enum Kind {
    NodeSet,
    Labels,
    NProps,
    EdgeSet,
    EProps,
    Vector,
    Panic,
    Lookup,
}
thread_local! {
    /// which node ids / edge keys (s, type NAME, d) differed in the last `diff_kinds` call
    static LAST_DETAIL: std::cell::RefCell<(BTreeSet<u32>, BTreeSet<(u32, u32, u32)>)> = std::cell::RefCell::new((BTreeSet::new(), BTreeSet::new()));
}
/// how two dumps differ (a = observed, b = expected)
fn diff_kinds(a: &Dump, b: &Dump) -> BTreeSet<Kind> {
    // relationship-type ids may differ between two runs (names are registered in call order,
    // also by abandoned transactions): compare the name-sorted form
    let (na, nb) = (by_name_edges(a), by_name_edges(b));
    let (a, b) = (&na, &nb);
    let mut k = BTreeSet::new();
    if a.panic.is_some() || b.panic.is_some() {
        k.insert(Kind::Panic);
        return k;
    }
    let ids = |d: &Dump| d.nodes.iter().map(|x| (x.iid, x.ext)).collect::<Vec<_>>();
    if ids(a) != ids(b) {
        k.insert(Kind::NodeSet);
    }
    for x in &a.nodes {
        if let Some(y) = b.nodes.iter().find(|y| y.iid == x.iid) {
            if x.labels != y.labels {
                k.insert(Kind::Labels);
            }
            if x.map != y.map || x.single != y.single || x.all_single != y.all_single {
                k.insert(Kind::NProps);
            }
            if x.lk != y.lk && x.lk != NOLK && y.lk != NOLK {
                k.insert(Kind::Lookup);
            }
        }
    }
    let keys = |v: &Vec<DEdge>| v.iter().map(|e| (e.s, e.t, e.d, e.mult)).collect::<Vec<_>>();
    for (va, vb) in [(&a.out, &b.out), (&a.inn, &b.inn)] {
        if keys(va) != keys(vb) {
            k.insert(Kind::EdgeSet);
        }
        for x in va {
            if let Some(y) = vb.iter().find(|y| (y.s, y.t, y.d) == (x.s, x.t, x.d)) {
                if x.map != y.map || x.single != y.single || x.all_single != y.all_single {
                    k.insert(Kind::EProps);
                }
            }
        }
    }
    if a.vec != b.vec {
        k.insert(Kind::Vector);
    }
    let na: BTreeSet<u32> = a.nodes.iter().map(|x| x.iid).collect();
    let nb: BTreeSet<u32> = b.nodes.iter().map(|x| x.iid).collect();
    let dn: BTreeSet<u32> = na.symmetric_difference(&nb).copied().collect();
    let mut de: BTreeSet<(u32, u32, u32)> = BTreeSet::new();
    for (va, vb) in [(&a.out, &b.out), (&a.inn, &b.inn)] {
        let ma: BTreeMap<(u32, u32, u32), u32> = va.iter().map(|e| ((e.s, e.t, e.d), e.mult)).collect();
        let mb: BTreeMap<(u32, u32, u32), u32> = vb.iter().map(|e| ((e.s, e.t, e.d), e.mult)).collect();
        for key in ma.keys().chain(mb.keys()) {
            if ma.get(key) != mb.get(key) {
                de.insert(*key);
            }
        }
    }
    LAST_DETAIL.with(|l| *l.borrow_mut() = (dn, de));
    k
}
/// the known class (of the classes whose predicate holds) that explains every kind of difference, if any
fn classify(c: &Classes, kinds: &BTreeSet<Kind>) -> Option<&'static str> {
    use Kind::*;
    let (dn, de) = LAST_DETAIL.with(|l| l.borrow().clone());
    let name_of = |id: u32| c.names.get(id as usize).copied().unwrap_or(999);
    let tomb_explains = c.tomb
        && dn.iter().all(|x| c.res_nodes.contains(x))
        && de.iter().all(|(s, t, d)| {
            c.res_nodes.contains(s) || c.res_nodes.contains(d) || c.res_edges.iter().any(|e| e.0 == *s && name_of(e.1) == *t && e.2 == *d)
        });
    // an edge-set difference may be shared with samerun / recreate: those keep their own predicates
    let tomb_on = tomb_explains || (c.tomb && (c.samerun || c.recreate) && dn.iter().all(|x| c.res_nodes.contains(x)));
    let table: Vec<(bool, &'static str, Vec<Kind>)> = vec![
        (c.labels, "K-C04-labels", vec![Labels]),
        (c.labelorder, "K-C06-labelorder", vec![Labels]),
        (c.eprops, "K-C06-eprops", vec![EProps]),
        (c.samerun, "K-C14-samerun", vec![EdgeSet]),
        (c.remove, "K-C05-remove", vec![NProps, EProps]),
        (c.dups, "K-C05-dups", vec![NProps, EProps]),
        (c.recreate, "K-C05-recreate", vec![EdgeSet]),
        (tomb_on, "K-C05-tomb", vec![NodeSet, EdgeSet]),
        (c.vector, "K-C07-vector", vec![Vector]),
    ];
    let mut allowed: BTreeSet<Kind> = BTreeSet::new();
    for (on, _, ks) in &table {
        if *on {
            allowed.extend(ks.iter().copied());
        }
    }
    if kinds.is_empty() || !kinds.is_subset(&allowed) {
        return None;
    }
    let first = kinds.iter().next().unwrap();
    table.iter().find(|(on, _, ks)| *on && ks.contains(first)).map(|t| t.1)
}

fn strip(h: &[Hop], keep: impl Fn(&Hop) -> bool) -> Vec<Hop> {
    h.iter().filter(|x| keep(x)).cloned().collect()
}
/// indices of the transaction steps of a history
fn txn_steps(h: &[Hop]) -> Vec<usize> {
    h.iter().enumerate().filter(|(_, x)| matches!(x, Hop::Txn { .. })).map(|(i, _)| i).collect()
}

// ---------------------------------------------------------------- main
fn write_case(cw: &mut CaseWriter, hw: &[HW], dumps: &[Dump], refs: &[Dump]) {
    cw.push(format!(
        "{{| hist := {}; impl_dumps := {}; ref_dumps := {}; impl_classes := {} |}}",
        coq_list(hw, coq_hw),
        coq_list(dumps, coq_dump),
        coq_list(refs, coq_dump),
        {
            let c = classes(hw);
            coq_list(&[c.eprops, c.samerun, c.tomb, c.remove, c.dups, c.recreate, c.labels, c.vector, c.labelorder], |b| coq_bool(*b).to_string())
        }
    ));
}

fn corpus(prop: &str) -> Vec<Vec<Hop>> {
    use Op::*;
    let t = |ops: Vec<Op>| Hop::Txn { ops, commit: true, fail: None };
    let ab = |ops: Vec<Op>| Hop::Txn { ops, commit: false, fail: None };
    let fl = |ops: Vec<Op>, n: u32| Hop::Txn { ops, commit: false, fail: Some(Fail::BigProp { n }) };
    let two = || t(vec![CreateNode { ext: 1, labels: vec![0, 1] }, CreateNode { ext: 2, labels: vec![] }, CreateNode { ext: 3, labels: vec![2] }]);
    let e = |s, d| CreateEdge { s, t: 10, d };
    let mut v = vec![
        // fixed: WAL order (delete then re-create in one transaction, then reopen)
        vec![two(), t(vec![e(0, 1)]), t(vec![TombEdge { s: 0, t: 10, d: 1 }, e(0, 1)]), Hop::DropReopen],
        // fixed: edge-free compaction, then incoming traversal of node 0
        vec![two(), t(vec![SetNP { n: 0, k: 0, v: 2 }]), Hop::Compact, t(vec![e(1, 0)])],
    ];
    match prop {
        "C06" => {
            v.push(vec![two(), t(vec![e(0, 1), SetEP { s: 0, t: 10, d: 1, k: 0, v: 2 }]), t(vec![TombEdge { s: 0, t: 10, d: 1 }]), t(vec![e(0, 1)])]);
            v.push(vec![two(), t(vec![e(2, 1), TombNode { n: 2 }])]);
            v.push(vec![two(), t(vec![RemLabel { n: 0, l: 0 }, AddLabel { n: 0, l: 0 }])]);
        }
        "C05" => {
            v.push(vec![two(), t(vec![e(0, 1), SetNP { n: 0, k: 0, v: 2 }]), Hop::Compact, t(vec![TombEdge { s: 0, t: 10, d: 1 }, TombNode { n: 2 }, RemNP { n: 0, k: 0 }]), Hop::Compact]);
            v.push(vec![two(), t(vec![SetNP { n: 0, k: 1, v: 2 }]), Hop::Compact, t(vec![SetNP { n: 0, k: 1, v: 7 }]), Hop::Checkpoint]);
            v.push(vec![two(), t(vec![e(0, 1)]), t(vec![TombEdge { s: 0, t: 10, d: 1 }, e(0, 1)]), Hop::Compact]);
        }
        "C04" => {
            v.push(vec![two(), t(vec![AddLabel { n: 1, l: 2 }, RemLabel { n: 2, l: 2 }]), Hop::Compact, Hop::CloseReopen]);
            v.push(vec![two(), t(vec![AddLabel { n: 1, l: 2 }]), Hop::CloseReopen]);
        }
        "C07" => {
            v.push(vec![two(), t(vec![e(0, 1)]),
                        fl(vec![TombEdge { s: 0, t: 10, d: 1 }, e(0, 2), TombNode { n: 1 }, SetNP { n: 0, k: 1, v: 2 }], 0),
                        t(vec![SetNP { n: 2, k: 0, v: 1 }]), Hop::DropReopen]);
            v.push(vec![two(), fl(vec![CreateNode { ext: 9, labels: vec![1] }, e(0, 1)], 0), t(vec![e(1, 2)]), Hop::CloseReopen, t(vec![SetNP { n: 0, k: 0, v: 3 }]), Hop::DropReopen]);
            v.push(vec![two(), ab(vec![SetVec { n: 0, v: 0 }, CreateNode { ext: 9, labels: vec![1] }, e(0, 1), SetNP { n: 0, k: 0, v: 1 }]), t(vec![SetNP { n: 1, k: 0, v: 1 }]), Hop::DropReopen]);
        }
        "C14" => {
            v.push(vec![two(), t(vec![e(2, 1), TombNode { n: 2 }]), t(vec![SetNP { n: 1, k: 0, v: 1 }])]);
            v.push(vec![two(), t(vec![e(1, 2), TombNode { n: 2 }])]);
        }
        _ => {}
    }
    v
}

fn main() {
    let a = args();
    quiet_panics();
    let mut prop = String::from("C06");
    let mut it = a.extra.iter();
    while let Some(k) = it.next() {
        if k == "--prop" {
            prop = it.next().unwrap().clone();
        }
    }
    let mut rep = Report::new(&a.out);
    if prop == "C30" {
        c30::main(&a, &mut rep);
        rep.finish();
        return;
    }
    let fl = match prop.as_str() {
        "C06" => Flavor { commit_pct: 100, maint_pct: 0, compact: false, reopen: false, vectors: false, c14_patterns: false, malformed_pct: 5 },
        "C05" => Flavor { commit_pct: 100, maint_pct: 40, compact: true, reopen: false, vectors: false, c14_patterns: false, malformed_pct: 0 },
        "C04" => Flavor { commit_pct: 90, maint_pct: 45, compact: true, reopen: true, vectors: false, c14_patterns: false, malformed_pct: 0 },
        "C07" => Flavor { commit_pct: 65, maint_pct: 15, compact: true, reopen: true, vectors: true, c14_patterns: false, malformed_pct: 3 },
        "C14" => Flavor { commit_pct: 90, maint_pct: 15, compact: true, reopen: true, vectors: false, c14_patterns: true, malformed_pct: 0 },
        other => panic!("unknown --prop {}", other),
    };
    let mut r = Rng::new(a.seed ^ (prop.bytes().fold(0u64, |x, b| x * 131 + b as u64)));
    let mut cw = CaseWriter::new(&a.out, &format!("Corr.{}", prop), 40);
    let mut hist = BTreeMap::<String, u64>::new();
    let mut distinct = BTreeSet::<String>::new();
    let mut fails = 0u64;
    let mut corr_dumps = 0usize;
    let corp = corpus(&prop);
    for idx in 0..a.n {
        let many = prop == "C05" && (idx == corp.len() || (idx > corp.len() && idx % 20 == 7));
        KEYSPACE.store(if many { KEYS_MANY } else { 3 }, std::sync::atomic::Ordering::Relaxed);
        let h = if idx < corp.len() { corp[idx].clone() } else if many { gen_many(&mut r) } else { gen_history(&mut r, &fl) };
        if many {
            *hist.entry("stream:many-properties".into()).or_insert(0) += 1;
        }
        let use_db = idx % 2 == 0;
        let mut filt = Vec::new();
        let (hw, dumps) = run_impl(&h, use_db, &mut filt);
        let refs = ref_dumps(&hw, &dumps, !use_db);
        write_case(&mut cw, &hw, &dumps, &refs);
        corr_dumps += dumps.len();
        // statistics
        *hist.entry(if use_db { "via:Db".into() } else { "via:GraphEngine".into() }).or_insert(0) += 1;
        for x in &h {
            if let Hop::Txn { fail: Some(f), .. } = x {
                *hist.entry(match f { Fail::BigProp { .. } => "txn:commit-fails:oversized-record".to_string(), Fail::Io(_) => "txn:commit-fails:io-fault".to_string() }).or_insert(0) += 1;
            }
        }
        for x in &hw {
            match x {
                HW::Txn(ws, c) => {
                    *hist.entry(if *c { "txn:commit".into() } else { "txn:abandon".into() }).or_insert(0) += 1;
                    for w in ws {
                        let nm = format!("{:?}", w);
                        *hist.entry(format!("op:{}", nm.split('(').next().unwrap())).or_insert(0) += 1;
                    }
                }
                other => *hist.entry(format!("step:{:?}", other)).or_insert(0) += 1,
            }
        }
        let nontrivial = dumps.last().map(|d| !d.out.is_empty() && d.nodes.len() >= 2).unwrap_or(false);
        if nontrivial {
            distinct.insert(format!("{:?}", hw));
        }
        let input = json!({"via": if use_db {"nervusdb::Db"} else {"GraphEngine"}, "history": js_hist(&h)});
        if idx < 3 + corp.len() {
            rep.case(idx, json!({"input": input, "final_dump": dumps.last().map(js_dump)}));
        }
        let mut fail = |rep: &mut Report, cls: Option<&'static str>, what: String| {
            fails += 1;
            *hist.entry(format!("fail:{}", cls.unwrap_or("UNKNOWN"))).or_insert(0) += 1;
            let what: String = what.chars().take(6000).collect();
            rep.fail(idx, cls, &what, input.clone());
        };
        for f in filt {
            fail(&mut rep, None, f);
        }
        for (i, d) in dumps.iter().enumerate() {
            if let Some(p) = &d.panic {
                fail(&mut rep, None, format!("read panicked after step {}: {}", i, p));
            }
        }
        // ---- the property's own oracle
        match prop.as_str() {
            "C06" => {
                for (i, d) in dumps.iter().enumerate() {
                    let k = diff_kinds(d, &refs[i]);
                    if !k.is_empty() {
                        let c = classes(&hw[..=i]);
                        fail(&mut rep, classify(&c, &k), format!("after commit {} the reads differ from the reference graph in {:?}: impl {} ref {}", i, k, js_dump(d), js_dump(&refs[i])));
                        break;
                    }
                }
            }
            "C05" => {
                // (a) a compaction step must not change the dump; (b) the same history without the
                // compaction/checkpoint steps must give the same dumps at every transaction
                let mut found = false;
                for (i, x) in hw.iter().enumerate() {
                    if (is_maint_compact(x) || is_reopen(x)) && i > 0 {
                        let k = diff_kinds(&dumps[i], &dumps[i - 1]);
                        if !k.is_empty() {
                            let c = classes(&hw[..=i]);
                            fail(&mut rep, classify(&c, &k), format!("step {} ({:?}) changed the reads in {:?}: before {} after {}", i, x, k, js_dump(&dumps[i - 1]), js_dump(&dumps[i])));
                            found = true;
                            break;
                        }
                    }
                }
                if !found {
                    let h2 = strip(&h, |x| !matches!(x, Hop::Compact | Hop::Checkpoint));
                    let mut f2 = Vec::new();
                    let (_, d2) = run_impl(&h2, use_db, &mut f2);
                    let (s1, s2) = (txn_steps(&h), txn_steps(&h2));
                    for (j, (i1, i2)) in s1.iter().zip(s2.iter()).enumerate() {
                        let k = diff_kinds(&dumps[*i1], &d2[*i2]);
                        if !k.is_empty() {
                            let c = classes(&hw[..=*i1]);
                            fail(&mut rep, classify(&c, &k), format!("transaction {} reads differ in {:?} from the run without compaction/checkpoint: with {} without {}", j, k, js_dump(&dumps[*i1]), js_dump(&d2[*i2])));
                            break;
                        }
                    }
                }
            }
            "C04" => {
                for (i, x) in hw.iter().enumerate() {
                    if is_reopen(x) && i > 0 {
                        let k = diff_kinds(&dumps[i], &dumps[i - 1]);
                        if !k.is_empty() {
                            let c = classes(&hw[..=i]);
                            fail(&mut rep, classify(&c, &k), format!("step {} ({:?}) changed the logical content in {:?}: before {} after {}", i, x, k, js_dump(&dumps[i - 1]), js_dump(&dumps[i])));
                            break;
                        }
                    }
                }
            }
            "C07" => {
                let h2: Vec<Hop> = strip(&h, |x| !matches!(x, Hop::Txn { commit: false, .. }));
                let mut f2 = Vec::new();
                let (_, d2) = run_impl(&h2, use_db, &mut f2);
                let keep: Vec<usize> = h.iter().enumerate().filter(|(_, x)| !matches!(x, Hop::Txn { commit: false, .. })).map(|(i, _)| i).collect();
                let mut vector_reported = false;
                for (j, i1) in keep.iter().enumerate() {
                    // an abandoned transaction directly before step i1 is covered by comparing at i1
                    if *i1 >= dumps.len() || j >= d2.len() {
                        break;
                    }
                    let mut k = diff_kinds(&dumps[*i1], &d2[j]);
                    let c = classes(&hw[..=*i1]);
                    if k.contains(&Kind::Vector) && c.vector {
                        // known: keep looking for other differences in the rest of the history
                        if !vector_reported {
                            vector_reported = true;
                            fail(&mut rep, Some("K-C07-vector"), format!("step {}: vector search differs from the run with the abandoned transactions erased: with {:?} erased {:?}", i1, dumps[*i1].vec, d2[j].vec));
                        }
                        k.remove(&Kind::Vector);
                    }
                    if !k.is_empty() {
                        fail(&mut rep, classify(&c, &k), format!("step {}: reads/vector search differ in {:?} from the run with the abandoned transactions erased: with {} erased {}", i1, k, js_dump(&dumps[*i1]), js_dump(&d2[j])));
                        break;
                    }
                }
                // and directly after each abandoned transaction nothing may have changed
                for (i, x) in h.iter().enumerate() {
                    if matches!(x, Hop::Txn { commit: false, .. }) && i > 0 {
                        let k = diff_kinds(&dumps[i], &dumps[i - 1]);
                        if !k.is_empty() {
                            let c = classes(&hw[..=i]);
                            fail(&mut rep, classify(&c, &k), format!("abandoned transaction at step {} changed {:?}", i, k));
                            break;
                        }
                    }
                }
            }
            "C14" => {
                'outer: for (i, d) in dumps.iter().enumerate() {
                    let nodes: BTreeSet<u32> = d.nodes.iter().map(|x| x.iid).collect();
                    for (view, v) in [("neighbors", &d.out), ("incoming_neighbors", &d.inn)] {
                        for e in v {
                            if !nodes.contains(&e.s) || !nodes.contains(&e.d) {
                                let c = classes(&hw[..=i]);
                                let cls = if c.samerun { Some("K-C14-samerun") } else if c.tomb && hw[..=i].iter().any(is_maint_compact) { Some("K-C05-tomb") } else { None };
                                fail(&mut rep, cls, format!("after step {} {} yields ({},{},{}) but nodes() = {:?}", i, view, e.s, name_str(e.t), e.d, nodes));
                                break 'outer;
                            }
                        }
                    }
                    if d.out.iter().map(|e| (e.s, e.t, e.d, e.mult)).collect::<Vec<_>>() != d.inn.iter().map(|e| (e.s, e.t, e.d, e.mult)).collect::<Vec<_>>() {
                        let c = classes(&hw[..=i]);
                        let cls = if c.samerun { Some("K-C14-samerun") } else { None };
                        fail(&mut rep, cls, format!("after step {} the outgoing and incoming views disagree: out {:?} in {:?}", i, d.out, d.inn));
                        break;
                    }
                }
            }
            _ => {}
        }
    }
    if prop == "C14" {
        c14q::run(&mut rep, &mut hist, &mut fails);
    }
    cw.flush();
    rep.stats(json!({
        "evaluations": a.n,
        "corr_cases": a.n,
        "dumps_compared": corr_dumps,
        "distinct_nontrivial": distinct.len(),
        "rule": "histories of 3..12 transactions (1..7 calls each) over <= 6 nodes, 3 labels, 2 relationship types, 3 keys, 14 values of all nine kinds; even cases run through nervusdb::Db, odd ones through GraphEngine (with lookup_internal_id); non-trivial = final state has >= 2 nodes and >= 1 relationship, distinct by id-level history",
        "histogram": hist,
        "direct_failures": fails,
        "case_files": cw.files.iter().map(|p| p.to_string_lossy().to_string()).collect::<Vec<_>>(),
    }));
    rep.finish();
}

// ---------------------------------------------------------------- C14, query half
mod c14q {
    use super::*;
    use nervusdb_query::{Params, prepare};
    fn exec(db: &Db, q: &str) -> Result<u32, String> {
        let p = prepare(q).map_err(|e| e.to_string())?;
        let snap = db.snapshot();
        let mut tx = db.begin_write();
        let r = p.execute_write(&snap, &mut tx, &Params::new()).map_err(|e| e.to_string())?;
        tx.commit().map_err(|e| e.to_string())?;
        Ok(r)
    }
    /// WriteableGraph proxy that records the storage calls a statement makes (to evaluate the
    /// K-C14-samerun predicate on what really happened, not on the statement text)
    struct Rec<'a, 'b> {
        inner: &'b mut nervusdb::WriteTxn<'a>,
        created: Vec<(u32, u32, u32)>,
        tombed_nodes: Vec<u32>,
    }
    impl<'a, 'b> WriteableGraph for Rec<'a, 'b> {
        fn create_node(&mut self, e: u64, l: u32) -> nervusdb_query::Result<u32> {
            WriteableGraph::create_node(self.inner, e, l)
        }
        fn add_node_label(&mut self, n: u32, l: u32) -> nervusdb_query::Result<()> {
            WriteableGraph::add_node_label(self.inner, n, l)
        }
        fn remove_node_label(&mut self, n: u32, l: u32) -> nervusdb_query::Result<()> {
            WriteableGraph::remove_node_label(self.inner, n, l)
        }
        fn create_edge(&mut self, s: u32, r: u32, d: u32) -> nervusdb_query::Result<()> {
            self.created.push((s, r, d));
            WriteableGraph::create_edge(self.inner, s, r, d)
        }
        fn set_node_property(&mut self, n: u32, k: String, v: PV) -> nervusdb_query::Result<()> {
            WriteableGraph::set_node_property(self.inner, n, k, v)
        }
        fn set_edge_property(&mut self, s: u32, r: u32, d: u32, k: String, v: PV) -> nervusdb_query::Result<()> {
            WriteableGraph::set_edge_property(self.inner, s, r, d, k, v)
        }
        fn remove_node_property(&mut self, n: u32, k: &str) -> nervusdb_query::Result<()> {
            WriteableGraph::remove_node_property(self.inner, n, k)
        }
        fn remove_edge_property(&mut self, s: u32, r: u32, d: u32, k: &str) -> nervusdb_query::Result<()> {
            WriteableGraph::remove_edge_property(self.inner, s, r, d, k)
        }
        fn tombstone_node(&mut self, n: u32) -> nervusdb_query::Result<()> {
            self.tombed_nodes.push(n);
            WriteableGraph::tombstone_node(self.inner, n)
        }
        fn tombstone_edge(&mut self, s: u32, r: u32, d: u32) -> nervusdb_query::Result<()> {
            self.created.retain(|e| *e != (s, r, d)); // tombstone_edge drops the memtable's earlier copies
            WriteableGraph::tombstone_edge(self.inner, s, r, d)
        }
        fn get_or_create_label_id(&mut self, name: &str) -> nervusdb_query::Result<u32> {
            WriteableGraph::get_or_create_label_id(self.inner, name)
        }
        fn get_or_create_rel_type_id(&mut self, name: &str) -> nervusdb_query::Result<u32> {
            WriteableGraph::get_or_create_rel_type_id(self.inner, name)
        }
        fn staged_created_nodes_with_labels(&self) -> Vec<(u32, Vec<String>)> {
            WriteableGraph::staged_created_nodes_with_labels(&*self.inner)
        }
    }
    fn dangling_edge(db: &Db) -> Option<((u32, u32, u32), BTreeSet<u32>)> {
        let s = db.snapshot();
        let nodes: BTreeSet<u32> = s.nodes().collect();
        for i in 0..UNIVERSE {
            for e in s.neighbors(i, None).chain(s.incoming_neighbors(i, None)) {
                if !nodes.contains(&e.src) || !nodes.contains(&e.dst) {
                    return Some(((e.src, e.rel, e.dst), nodes));
                }
            }
        }
        None
    }
    fn dangling(db: &Db) -> Option<String> {
        let s = db.snapshot();
        let nodes: BTreeSet<u32> = s.nodes().collect();
        for i in 0..UNIVERSE {
            for e in s.neighbors(i, None).chain(s.incoming_neighbors(i, None)) {
                if !nodes.contains(&e.src) || !nodes.contains(&e.dst) {
                    return Some(format!("({},{},{}) with nodes {:?}", e.src, e.rel, e.dst, nodes));
                }
            }
        }
        None
    }
    pub fn run(rep: &mut Report, hist: &mut BTreeMap<String, u64>, fails: &mut u64) {
        let mut failed: Vec<Option<&'static str>> = Vec::new();
        let mut fail = |rep: &mut Report, cls: Option<&'static str>, what: String, input: serde_json::Value| {
            failed.push(cls);
            rep.fail(100000, cls, &what, input);
        };
        // 1. committed relationship: DELETE without DETACH must fail (both ends), DETACH DELETE must work
        for end in ["a", "b"] {
            let d = tempfile::tempdir().unwrap();
            let db = Db::open(d.path().join("q")).unwrap();
            exec(&db, "CREATE (a:P {id: 1})-[:R]->(b:P {id: 2})").unwrap();
            let q = format!("MATCH (a:P {{id: 1}})-[:R]->(b:P {{id: 2}}) DELETE {}", end);
            *hist.entry("query:delete-committed".into()).or_insert(0) += 1;
            if exec(&db, &q).is_ok() {
                fail(rep, None, format!("`{}` succeeded on a node with a committed relationship", q), json!({"query": q}));
            }
            if let Some(x) = dangling(&db) {
                fail(rep, None, format!("dangling relationship {} after `{}`", x, q), json!({"query": q}));
            }
            let q2 = format!("MATCH (a:P {{id: 1}})-[:R]->(b:P {{id: 2}}) DETACH DELETE {}", end);
            if exec(&db, &q2).is_err() || dangling(&db).is_some() {
                fail(rep, None, format!("`{}` failed or left a dangling relationship", q2), json!({"query": q2}));
            }
        }
        // 2. relationship created earlier in the SAME statement
        for q in [
            "CREATE (a:S {id: 1})-[:R]->(b:S {id: 2}) DELETE a",
            "CREATE (a:S {id: 1})-[:R]->(b:S {id: 2}) DELETE b",
            "CREATE (a:S {id: 1})-[:R]->(b:S {id: 2}) WITH a DELETE a",
        ] {
            let d = tempfile::tempdir().unwrap();
            let db = Db::open(d.path().join("q")).unwrap();
            *hist.entry("query:delete-same-statement".into()).or_insert(0) += 1;
            let p = match prepare(q) {
                Ok(p) => p,
                Err(_) => {
                    *hist.entry("query:unsupported".into()).or_insert(0) += 1;
                    continue;
                }
            };
            let snap = db.snapshot();
            let mut tx = db.begin_write();
            let r = p.execute_mixed(&snap, &mut tx, &Params::new());
            if r.is_ok() {
                tx.commit().unwrap();
                let dang = dangling(&db);
                fail(rep, Some("K-C14-snapshot"), format!("`{}` succeeded although the node has a relationship created by the same statement; dangling: {:?}", q, dang), json!({"query": q}));
            }
        }
        // 3. relationship created earlier in the same explicit TRANSACTION (two statements, one txn)
        for end in ["a", "b"] {
            let d = tempfile::tempdir().unwrap();
            let db = Db::open(d.path().join("q")).unwrap();
            exec(&db, "CREATE (:T {id: 1}), (:T {id: 2})").unwrap();
            *hist.entry("query:delete-same-transaction".into()).or_insert(0) += 1;
            let mut tx = db.begin_write();
            let snap = db.snapshot();
            let q1 = "MATCH (a:T {id: 1}), (b:T {id: 2}) CREATE (a)-[:R]->(b)";
            let r1 = prepare(q1).unwrap().execute_write(&snap, &mut tx, &Params::new());
            if r1.is_err() {
                *hist.entry("query:unsupported".into()).or_insert(0) += 1;
                continue;
            }
            let q2 = format!("MATCH ({}:T {{id: {}}}) DELETE {}", end, if end == "a" { 1 } else { 2 }, end);
            let snap2 = db.snapshot();
            let r2 = prepare(&q2).unwrap().execute_write(&snap2, &mut tx, &Params::new());
            if r2.is_ok() {
                tx.commit().unwrap();
                let dang = dangling(&db);
                fail(rep, Some("K-C14-snapshot"), format!("`{}` then `{}` in one transaction: the delete succeeded; dangling: {:?}", q1, q2, dang), json!({"statements": [q1, q2]}));
            }
        }
        // 4. (DETACH) DELETE of a node followed by MERGE / CREATE in the SAME statement or the same explicit
        //    transaction, the later pattern describing or re-using the deleted node; afterwards every
        //    relationship returned from any node in either direction must have both endpoints in nodes()
        let setups: [(&str, &str); 2] = [
            ("linked", "CREATE (:A {id: 1})-[:R]->(:B {id: 2})"),
            ("apart", "CREATE (:A {id: 1}), (:B {id: 2})"),
        ];
        // (shape id, statements run in ONE transaction, class a failure may be attributed to — only for shapes that
        //  already dangle on the pinned tree (a later statement of a transaction is planned on the committed snapshot and
        //  so still sees the deleted node; CREATE may re-use a deleted variable) and only if the recorded storage calls
        //  satisfy the K-C14-samerun predicate; None = clean on the pinned tree, any failure is a VIOLATION)
        let shapes: Vec<(&str, Vec<&str>, Option<&'static str>)> = vec![
            ("del-merge-out", vec!["MATCH (a:A {id: 1}) DETACH DELETE a MERGE (x:A {id: 1})-[:R]->(y:B {id: 2})"], None),
            ("del-merge-in", vec!["MATCH (a:A {id: 1}) DETACH DELETE a MERGE (y:B {id: 2})<-[:R]-(x:A {id: 1})"], None),
            ("del-merge-node", vec!["MATCH (a:A {id: 1}) DETACH DELETE a MERGE (x:A {id: 1})"], None),
            ("delB-merge-out", vec!["MATCH (b:B {id: 2}) DETACH DELETE b MERGE (x:A {id: 1})-[:R]->(y:B {id: 2})"], None),
            ("del-create-fresh", vec!["MATCH (a:A {id: 1}) DETACH DELETE a CREATE (x:A {id: 1})-[:R]->(y:B {id: 3})"], None),
            ("del-create-to-survivor", vec!["MATCH (a:A {id: 1}), (b:B {id: 2}) DETACH DELETE a CREATE (x:A {id: 1})-[:R]->(b)"], None),
            ("del-create-reuse-var", vec!["MATCH (a:A {id: 1}), (b:B {id: 2}) DETACH DELETE a CREATE (a)-[:R]->(b)"], Some("K-C14-samerun")),
            ("del-with-merge", vec!["MATCH (a:A {id: 1}) DETACH DELETE a WITH 1 AS one MERGE (x:A {id: 1})-[:R]->(y:B {id: 2})"], None),
            ("txn:del;merge-out", vec!["MATCH (a:A {id: 1}) DETACH DELETE a", "MERGE (x:A {id: 1})-[:R]->(y:B {id: 2})"], Some("K-C14-samerun")),
            ("txn:del;merge-in", vec!["MATCH (a:A {id: 1}) DETACH DELETE a", "MERGE (y:B {id: 2})<-[:R]-(x:A {id: 1})"], Some("K-C14-samerun")),
            ("txn:del;create-match", vec!["MATCH (a:A {id: 1}) DETACH DELETE a", "MATCH (a:A {id: 1}), (b:B {id: 2}) CREATE (a)-[:R]->(b)"], Some("K-C14-samerun")),
            ("txn:del;create-fresh", vec!["MATCH (a:A {id: 1}) DETACH DELETE a", "CREATE (x:A {id: 1})-[:R]->(y:B {id: 3})"], None),
        ];
        for (sname, setup) in setups {
            for (shape, stmts, expected) in &shapes {
                let d = tempfile::tempdir().unwrap();
                let db = Db::open(d.path().join("q")).unwrap();
                exec(&db, setup).unwrap();
                let key = format!("query:delete-then-write:{}/{}", sname, shape);
                let mut tx = db.begin_write();
                let mut outcome = "ok";
                let (mut created, mut tombed_nodes) = (Vec::new(), Vec::new());
                for q in stmts {
                    let p = match prepare(q) {
                        Ok(p) => p,
                        Err(_) => {
                            outcome = "parse-error";
                            break;
                        }
                    };
                    let snap = db.snapshot();
                    let mut rec = Rec { inner: &mut tx, created: std::mem::take(&mut created), tombed_nodes: std::mem::take(&mut tombed_nodes) };
                    let r = p.execute_mixed(&snap, &mut rec, &Params::new());
                    created = rec.created;
                    tombed_nodes = rec.tombed_nodes;
                    if r.is_err() {
                        outcome = "exec-error";
                        break;
                    }
                }
                *hist.entry(format!("{}={}", key, outcome)).or_insert(0) += 1;
                if outcome != "ok" {
                    drop(tx); // a rejected statement: the transaction is rolled back
                    if let Some(x) = dangling(&db) {
                        fail(rep, None, format!("{}: statement rejected and rolled back, yet dangling {}", key, x), json!({"setup": setup, "statements": stmts}));
                    }
                    continue;
                }
                tx.commit().unwrap();
                if let Some((e, nodes)) = dangling_edge(&db) {
                    // K-C14-samerun as in known/C14.json, evaluated on the recorded storage calls: the transaction
                    // created e (still held by the memtable) and tombstoned exactly one of its endpoints
                    let samerun = created.contains(&e) && tombed_nodes.iter().any(|n| (e.0 == *n) != (e.2 == *n));
                    // a shape that is clean on the pinned tree stays strict: a failure there is never attributed
                    let cls = match expected {
                        Some(c) if samerun => Some(*c),
                        _ => None,
                    };
                    fail(rep, cls, format!("{}: after commit a traversal returns {:?} but nodes() = {:?} (transaction created {:?}, tombstoned nodes {:?})", key, e, nodes, created, tombed_nodes), json!({"setup": setup, "statements": stmts}));
                }
            }
        }
        for cls in failed {
            *fails += 1;
            *hist.entry(format!("fail:{}", cls.unwrap_or("UNKNOWN"))).or_insert(0) += 1;
        }
    }
}

// ---------------------------------------------------------------- C30
mod c30 {
    use super::*;
    use nervusdb::{BulkEdge, BulkNode};
    type BN = (u64, u32, Vec<(u8, u8)>);
    type BE = (u64, u32, u64, Vec<(u8, u8)>);
    fn gen_input(r: &mut Rng) -> (Vec<BN>, Vec<BE>) {
        let nn = 1 + r.below(6) as usize;
        let labels = [0u32, 1, 2, 20];
        let types = [10u32, 11, 20];
        let gp = |r: &mut Rng| -> Vec<(u8, u8)> {
            let mut v = Vec::new();
            for k in 0..3u8 {
                if r.chance(2, 5) {
                    v.push((k, r.below(14) as u8));
                }
            }
            v
        };
        let ns: Vec<BN> = (0..nn).map(|i| (201 + i as u64 * 7, *r.pick(&labels), gp(r))).collect();
        let ne = match r.below(5) { 0 => 0, _ => r.below(7) as usize };
        let mut es: Vec<BE> = Vec::new();
        for _ in 0..ne {
            let (s, d) = if !es.is_empty() && r.chance(1, 4) {
                let e = r.pick(&es).clone();
                (e.0, e.2)
            } else if r.chance(1, 6) {
                let x = r.pick(&ns).0;
                (x, x)
            } else {
                (r.pick(&ns).0, r.pick(&ns).0)
            };
            let t = if !es.is_empty() && r.chance(1, 2) { es[0].1 } else { *r.pick(&types) };
            es.push((s, t, d, gp(r)));
        }
        (ns, es)
    }
    fn pmap(p: &[(u8, u8)]) -> BTreeMap<String, PV> {
        p.iter().map(|(k, v)| (key_str(*k), palette()[*v as usize].clone())).collect()
    }
    fn coq_bp(p: &[(u8, u8)]) -> String {
        coq_list(p, |(k, v)| format!("({}, {})", n(*k as u64), n(*v as u64)))
    }
    pub fn main(a: &Args, rep: &mut Report) {
        let mut r = Rng::new(a.seed ^ 0xC30);
        let mut cw = CaseWriter::new(&a.out, "Corr.C30", 60);
        let mut hist = BTreeMap::<String, u64>::new();
        let mut distinct = BTreeSet::<String>::new();
        let mut fails = 0u64;
        for idx in 0..a.n {
            let (ns, es) = if idx == 0 {
                (vec![(1, 0, vec![(0, 2)])], vec![]) // fixed: no relationships, incoming traversal
            } else if idx == 1 {
                (vec![(1, 0, vec![]), (2, 20, vec![(1, 3)])], vec![(1, 20, 2, vec![(0, 1)]), (1, 20, 2, vec![(0, 5), (2, 6)])])
            } else {
                gen_input(&mut r)
            };
            *hist.entry(format!("edges:{}", es.len().min(4))).or_insert(0) += 1;
            *hist.entry(format!("nodes:{}", ns.len())).or_insert(0) += 1;
            let input = json!({"nodes": ns, "edges": es});
            // bulk
            let d1 = tempfile::tempdir().unwrap();
            let base = d1.path().join("b");
            let bn: Vec<BulkNode> = ns.iter().map(|x| BulkNode { external_id: x.0, label: name_str(x.1), properties: pmap(&x.2) }).collect();
            let be: Vec<BulkEdge> = es.iter().map(|x| BulkEdge { src_external_id: x.0, rel_type: name_str(x.1), dst_external_id: x.2, properties: pmap(&x.3) }).collect();
            let br = catch(std::panic::AssertUnwindSafe(|| nervusdb::bulkload(&base, bn, be).map_err(|e| e.to_string())));
            let mut filt = Vec::new();
            let bulk_dump = match br {
                Ok(Ok(())) => {
                    let im = Impl { base: base.clone(), use_db: true, h: Some(Handle::Db(Db::open(&base).unwrap())) };
                    im.dump(&mut filt)
                }
                other => Dump { panic: Some(format!("bulkload failed: {:?}", other)), ..Default::default() },
            };
            // transactional: one transaction per node, then one per edge (properties with the creating call)
            let iid = |ext: u64| ns.iter().position(|x| x.0 == ext).unwrap() as u32;
            let mut h: Vec<Hop> = Vec::new();
            for x in &ns {
                let mut ops = vec![Op::CreateNode { ext: x.0, labels: vec![x.1] }];
                for (k, v) in &x.2 {
                    ops.push(Op::SetNP { n: iid(x.0), k: *k, v: *v });
                }
                h.push(Hop::Txn { ops, commit: true, fail: None });
            }
            for x in &es {
                let mut ops = vec![Op::CreateEdge { s: iid(x.0), t: x.1, d: iid(x.2) }];
                for (k, v) in &x.3 {
                    ops.push(Op::SetEP { s: iid(x.0), t: x.1, d: iid(x.2), k: *k, v: *v });
                }
                h.push(Hop::Txn { ops, commit: true, fail: None });
            }
            let (hw, dumps) = run_impl(&h, true, &mut filt);
            let txn_dump = dumps.last().cloned().unwrap_or_default();
            cw.push(format!(
                "{{| b_nodes := {}; b_edges := {}; b_txns := {}; impl_bulk := {}; impl_txn := {} |}}",
                coq_list(&ns, |x| format!("({}, {}, {})", n(x.0), n(x.1 as u64), coq_bp(&x.2))),
                coq_list(&es, |x| format!("({}, {}, {}, {})", n(x.0), n(x.1 as u64), n(x.2), coq_bp(&x.3))),
                coq_list(&hw, coq_hw),
                coq_dump(&bulk_dump),
                coq_dump(&txn_dump)
            ));
            if !es.is_empty() {
                distinct.insert(format!("{:?}{:?}", ns, es));
            }
            if idx < 4 {
                rep.case(idx, json!({"input": input, "bulk_dump": js_dump(&bulk_dump), "txn_dump": js_dump(&txn_dump)}));
            }
            for f in filt {
                fails += 1;
                rep.fail(idx, None, &f, input.clone());
            }
            let k = diff_kinds(&by_name(&bulk_dump), &by_name(&txn_dump));
            if !k.is_empty() {
                fails += 1;
                // duplicate (src,type,dst) keys carrying different property maps: the bulk store keeps every insert
                let mut seen: BTreeMap<(u64, u32, u64), Vec<&Vec<(u8, u8)>>> = BTreeMap::new();
                for e in &es {
                    seen.entry((e.0, e.1, e.2)).or_default().push(&e.3);
                }
                let dup_props = seen.values().any(|v| {
                    (0..3u8).any(|k| v.iter().filter(|p| p.iter().any(|kv| kv.0 == k)).count() > 1)
                });
                let cls = if dup_props && k.iter().all(|x| *x == Kind::EProps) { Some("K-C30-parallel-props") } else { None };
                *hist.entry(format!("fail:{}", cls.unwrap_or("UNKNOWN"))).or_insert(0) += 1;
                rep.fail(idx, cls, &format!("bulk-loaded and transactionally loaded databases differ in {:?}: bulk {} txn {}", k, js_dump(&bulk_dump), js_dump(&txn_dump)), input.clone());
            }
        }
        cw.flush();
        rep.stats(json!({
            "evaluations": a.n,
            "corr_cases": a.n,
            "distinct_nontrivial": distinct.len(),
            "rule": "1..6 nodes (one label each out of 4 names, one shared with the relationship types), 0..6 relationships (20% none; parallel, self loops, shared names), 0..3 properties of 14 values per item; loaded by BulkLoader and by one transaction per item; non-trivial = at least one relationship, distinct by input",
            "histogram": hist,
            "direct_failures": fails,
            "case_files": cw.files.iter().map(|p| p.to_string_lossy().to_string()).collect::<Vec<_>>(),
        }));
    }
}
