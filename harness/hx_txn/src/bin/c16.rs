//! C16 — query processing never crashes the host.
//! Parent: generates queries (grammar-generated deep nesting of every recursive production, long
//! operator chains, token soup, mutated valid queries, random bytes / Unicode, every function,
//! random parameters) and hands them in batches to CHILD processes (this binary re-executed with
//! `--child`).  The child prepares and executes each query on a thread with a normal 2 MiB stack,
//! against small graphs (one of them compacted), through the Rust API and through the C API, and
//! prints one outcome line per query.  The parent reads the lines with a wall-clock cap per query;
//! a child that dies (signal) or stalls marks the query it was working on and is restarted.
//! Outcome enum: rows | error | panic | abort(signal) | timeout.  Direct oracle: rows / error only.
//! Correspondence: for the expression-nesting family the parser's recursion high-water mark
//! (hook nervusdb_query::parser::verif_depth) is compared with the Coq model's prediction.
use hx_txn::*;
use nervusdb_query::{ExecuteOptions, Params, Value};
use serde_json::json;
use std::io::{BufRead, BufReader, Write};
use std::process::{Command, Stdio};
use std::sync::mpsc;
use std::time::{Duration, Instant};
use vh::*;

const GRAPH_NAMES: [&str; 3] = ["empty", "small", "compacted"];
const SOFT_TIMEOUT_MS: u64 = 1_000;
const WALL_CAP: Duration = Duration::from_millis(20_000); // far above the configured timeout: only real hangs are timeouts (wall time on a shared machine is noisy)
const CHILD_STACK: usize = 2 * 1024 * 1024;

// ------------------------------------------------------------------ nesting families
/// expression-nesting productions whose parser recursion depth the Coq model predicts
const NEST_KINDS: &[&str] = &["paren", "list", "map", "neg", "not", "func", "case", "index", "listcomp"];
fn nest(kind: &str, d: usize) -> String {
    let rep = |s: &str| s.repeat(d);
    match kind {
        "paren" => format!("RETURN {}1{} AS x", rep("("), rep(")")),
        "list" => format!("RETURN {}1{} AS x", rep("["), rep("]")),
        "map" => format!("RETURN {}1{} AS x", rep("{a: "), rep("}")),
        "neg" => format!("RETURN {}1 AS x", rep("- ")),
        "not" => format!("RETURN {}true AS x", rep("NOT ")),
        "func" => format!("RETURN {}1{} AS x", rep("abs("), rep(")")),
        "case" => format!("RETURN {}1{} AS x", rep("CASE WHEN true THEN "), rep(" END")),
        "index" => format!("RETURN {}0{} AS x", rep("[0]["), rep("]")),
        "listcomp" => format!("RETURN {}[1]{} AS x", rep("[v IN "), rep(" | v]")),
        // productions outside the expression grammar / left-deep chains (no model prediction)
        "callsub" => format!("{}RETURN 1 AS x{}", rep("CALL { "), rep(" } RETURN x")),
        "exists" => format!("MATCH (n) WHERE {}true{} RETURN n", rep("EXISTS { MATCH (m) WHERE "), rep(" }")),
        "foreach" => format!("{}CREATE (:F){}", rep("FOREACH (i IN [1] | "), rep(")")),
        "shortest" => format!("MATCH p = {}(a)-[*]-(b){} RETURN p", rep("shortestPath("), rep(")")),
        "chain-add" => format!("RETURN 1{} AS x", rep(" + 1")),
        "chain-and" => format!("RETURN true{} AS x", rep(" AND true")),
        "chain-cmp" => format!("RETURN 1{} AS x", rep(" < 2")),
        "chain-prop" => format!("WITH {{a: 1}} AS m RETURN m{} AS x", rep(".a")),
        "chain-union" => format!("RETURN 1 AS x{}", rep(" UNION ALL RETURN 1 AS x")),
        "chain-with" => format!("WITH 1 AS x{} RETURN x", rep(" WITH x AS x")),
        "chain-match" => format!("MATCH (n0){} RETURN n0", (0..d).map(|i| format!("-->(n{})", i + 1)).collect::<String>()),
        "chain-unwind" => format!("{}RETURN 1 AS x", rep("UNWIND [1] AS u ")),
        _ => unreachable!(),
    }
}
const OTHER_KINDS: &[&str] = &["callsub", "exists", "foreach", "shortest", "chain-add", "chain-and", "chain-cmp", "chain-prop", "chain-union", "chain-with", "chain-match", "chain-unwind"];

const VOCAB: &[&str] = &[
    "MATCH", "OPTIONAL", "WHERE", "RETURN", "WITH", "UNWIND", "AS", "CREATE", "MERGE", "SET", "DELETE", "DETACH", "REMOVE", "CALL", "YIELD", "UNION", "ALL", "FOREACH", "IN", "ORDER", "BY", "SKIP", "LIMIT",
    "DISTINCT", "CASE", "WHEN", "THEN", "ELSE", "END", "EXISTS", "NOT", "AND", "OR", "XOR", "IS", "NULL", "STARTS", "ENDS", "CONTAINS", "ON", "EXPLAIN", "(", ")", "[", "]", "{", "}", ",", ":", ".", "..", "|", "-",
    "->", "<-", "=", "<>", "<", ">", "<=", ">=", "+", "*", "/", "%", "^", "$p", "$q", "n", "m", "r", "x", "n.k", "1", "0", "-1", "2.5", "1e400", "9223372036854775808", "'s'", "\"d\"", "true", "null", "count(*)",
    "collect(n)", "range(1,3)", "shortestPath", "*1..3", "*", ":P", ":KNOWS", "`q`", ";", "//c\n", "/*c*/",
];
const VALID: &[&str] = &[
    "MATCH (n) RETURN n",
    "MATCH (n:P) WHERE n.k > 1 RETURN n.name AS name ORDER BY name DESC SKIP 1 LIMIT 2",
    "MATCH (a)-[r:KNOWS]->(b) RETURN a.k, type(r), b.k",
    "MATCH (a)<-[r]-(b) RETURN a, r, b",
    "MATCH (a)-[r]-(b) RETURN count(*) AS c",
    "MATCH p = (a)-[*1..3]->(b) RETURN length(p) AS l, nodes(p) AS ns, relationships(p) AS rs",
    "MATCH p = shortestPath((a:P)-[*]-(b:R)) RETURN p",
    "MATCH (n) OPTIONAL MATCH (n)-[r]->(m) RETURN n.k, collect(m.k) AS ms",
    "MATCH (n) WITH n.k AS k, count(*) AS c WHERE c > 0 RETURN k, c ORDER BY k",
    "UNWIND range(1, 5) AS x WITH x WHERE x % 2 = 1 RETURN collect(x) AS xs, sum(x), avg(x), min(x), max(x)",
    "MATCH (n) RETURN DISTINCT labels(n) AS l",
    "MATCH (n) RETURN n.k AS k UNION MATCH (n) RETURN n.k + 1 AS k",
    "MATCH (n) WHERE EXISTS { MATCH (n)-[:KNOWS]->(m) } RETURN n.k",
    "MATCH (n) WHERE (n)-[:KNOWS]->() RETURN n.k",
    "MATCH (n) RETURN [(n)-->(m) | m.k] AS out, [x IN range(1,3) WHERE x > 1 | x * 2] AS l",
    "MATCH (n) RETURN CASE n.k WHEN 1 THEN 'one' ELSE 'other' END AS c, CASE WHEN n.k > 1 THEN 1 END AS d",
    "MATCH (n) CALL { WITH n MATCH (n)-->(m) RETURN count(m) AS c } RETURN n.k, c",
    "RETURN reduce(a = 0, x IN [1,2,3] | a + x) AS s, any(x IN [1] WHERE x = 1) AS a, all(x IN [1] WHERE x = 1) AS b, none(x IN [] WHERE true) AS c, single(x IN [1] WHERE true) AS d",
    "RETURN $p AS p, $q AS q, [1,2,3][1..2] AS sl, [1,2,3][-1] AS ix, {a: 1}.a AS ma",
    "CREATE (a:T {k: 10})-[:R {w: 1}]->(b:T {k: 11}) RETURN a, b",
    "MATCH (n:P) SET n.z = n.k * 2, n:Z REMOVE n.z RETURN n",
    "MATCH (n:P) SET n += {a: 1} SET n = {k: n.k} RETURN n",
    "MERGE (n:P {k: 1}) ON MATCH SET n.seen = true ON CREATE SET n.made = true RETURN n",
    "MATCH (n:R) DETACH DELETE n",
    "MATCH (n:P) DELETE n",
    "UNWIND [1,2] AS x FOREACH (i IN range(1, x) | CREATE (:F {i: i}))",
    "MATCH (a)-[r]->(b) DELETE r",
    "EXPLAIN MATCH (n) RETURN n",
    "CALL db.labels() YIELD label RETURN label",
    "MATCH (n) RETURN n ORDER BY n.k, n.name DESC LIMIT $p",
    "RETURN datetime('2020-01-01T00:00:00Z') AS d, date('2020-02-30') AS bad, duration('P1D') AS du, duration.between(date('2020-01-01'), date('2021-01-01')) AS bt",
    "RETURN toInteger('9223372036854775808') AS a, toFloat('1e400') AS b, 9223372036854775807 + 1 AS c, -9223372036854775808 / -1 AS d, 5 % 0 AS e, 2 ^ 1024 AS f",
    "RETURN substring('abc', -1, 10) AS a, left('é中', 1) AS b, right('é中', 5) AS c, split('a,b', '') AS d, replace('aaa', '', 'b') AS e, reverse('é中') AS f",
    "RETURN range(0, 10, 0) AS a, range(10, 0, -3) AS b, range(0, 9223372036854775807, 4611686018427387904) AS c",
    "RETURN size(range(1, 1000000)) AS n",
    "UNWIND range(1, 100000) AS x UNWIND range(1, 100000) AS y RETURN count(*)",
    "MATCH (a), (b), (c), (d), (e), (f), (g), (h) RETURN count(*)",
    "MATCH (a)-[*]-(b) RETURN count(*)",
    "MATCH (a)-[*0..]-(b) RETURN count(*)",
    "RETURN percentileCont(1, 2.0), percentileDisc(1, -1)",
    "UNWIND [1, 'a', null, 2.0, [1], {a: 1}, true] AS x RETURN x ORDER BY x",
    "UNWIND [1, 'a', null, 2.0, [1], {a: 1}, true] AS x RETURN x + x, x * 2, -x, x < 1, x = x, NOT x, x IS NULL, x IN [1], x STARTS WITH 'a', x[0], x.a, size(x), toString(x), abs(x), head(x), keys(x)",
];
const FUNCS: &[&str] = &[
    "abs", "ceil", "floor", "round", "sign", "sqrt", "log", "e", "pi", "rand", "coalesce", "head", "last", "tail", "size", "length", "reverse", "range", "keys", "labels", "type", "id", "properties", "nodes", "relationships",
    "startNode", "endNode", "toBoolean", "toFloat", "toInteger", "toString", "toLower", "toUpper", "trim", "ltrim", "rtrim", "left", "right", "replace", "split", "substring", "date", "datetime", "localtime", "time",
    "localdatetime", "duration", "duration.between", "duration.inDays", "duration.inMonths", "duration.inSeconds", "date.truncate", "datetime.truncate", "datetime.fromepoch", "datetime.fromepochmillis", "timestamp",
    "count", "sum", "avg", "min", "max", "collect", "percentileCont", "percentileDisc", "stDev", "exists", "nosuch", "sin", "exp",
];
const ARGS: &[&str] = &[
    "null", "0", "1", "-1", "9223372036854775807", "-9223372036854775808", "0.0", "-0.0", "1e308", "0.0/0.0", "1.0/0.0", "''", "'a'", "'é中\\u0000'", "'2020-01-01'", "'P1Y2M3DT4H'", "'T25:61'", "[]", "[1,2,3]", "[null]", "[[1],[2]]",
    "{}", "{a: 1}", "{year: 2020, month: 13}", "{year: -999999999}", "{epochSeconds: 9223372036854775807}", "true", "n", "$p", "$q", "range(1,10)", "'day'", "'millennium'", "date('2020-01-01')", "datetime()", "-2147483649", "4294967296",
];

fn gen_query(r: &mut Rng) -> (String, &'static str) {
    match r.below(20) {
        0..=2 => {
            // token soup
            let n = 1 + r.below(14);
            ((0..n).map(|_| *r.pick(VOCAB)).collect::<Vec<_>>().join(" "), "soup")
        }
        3..=6 => {
            // mutated valid query: delete / duplicate / swap / insert tokens
            let base = *r.pick(VALID);
            let mut toks: Vec<String> = base.split(' ').map(|s| s.to_string()).collect();
            for _ in 0..1 + r.below(3) {
                let i = r.below(toks.len() as u64) as usize;
                match r.below(5) {
                    0 => {
                        toks.remove(i);
                    }
                    1 => {
                        let t = toks[i].clone();
                        toks.insert(i, t);
                    }
                    2 => {
                        let j = r.below(toks.len() as u64) as usize;
                        toks.swap(i, j);
                    }
                    3 => toks.insert(i, r.pick(VOCAB).to_string()),
                    _ => toks[i] = r.pick(ARGS).to_string(),
                }
                if toks.is_empty() {
                    toks.push("RETURN".into());
                }
            }
            (toks.join(" "), "mutated")
        }
        7..=9 => (r.pick(VALID).to_string(), "valid"),
        10..=13 => {
            // every function with random arguments
            let f = *r.pick(FUNCS);
            let n = r.below(4);
            let args: Vec<&str> = (0..n).map(|_| *r.pick(ARGS)).collect();
            let scope = if r.chance(1, 2) { "MATCH (n) " } else { "WITH 1 AS n " };
            (format!("{}RETURN {}({}) AS v", scope, f, args.join(", ")), "function")
        }
        14 | 15 => {
            // random bytes / unusual Unicode (valid UTF-8 is required by the API: lossy conversion)
            let n = 1 + r.below(40) as usize;
            let s = if r.chance(1, 2) {
                String::from_utf8_lossy(&r.bytes(n)).to_string()
            } else {
                (0..n)
                    .map(|_| match r.below(6) {
                        0 => char::from_u32(r.below(0x80) as u32).unwrap(),
                        1 => *r.pick(&['\u{0}', '\u{feff}', '\u{202e}', '\u{a0}', '\u{2028}', '\u{1f600}', '\u{301}', 'é', '中', '\u{10ffff}']),
                        2 => *r.pick(&['(', ')', '[', ']', '{', '}', '\'', '"', '`', '\\', '$', '-', '>', '<', '*', '.', ':', '|', '/']),
                        _ => char::from_u32(r.below(0x3000) as u32).unwrap_or('x'),
                    })
                    .collect()
            };
            (s.replace('\0', "\u{1}"), "bytes")
        }
        16 => {
            // a keyword prefix followed by unusual text (prefix-slicing code paths)
            let pre = *r.pick(&["RETURN", "WITH '", "EXPLAI", "EXPLAIN", "MATCH(", "CREATE", "explain ", "   EXPL"]);
            let suf = *r.pick(&["é' AS x RETURN x", "\u{a0}(n)", "中", " é", "\u{1f600}", "N\u{301} MATCH (n) RETURN n"]);
            (format!("{}{}", pre, suf), "prefix-unicode")
        }
        17 => {
            // huge literals
            let n = 1000 + r.below(30000) as usize;
            let q = match r.below(4) {
                0 => format!("RETURN '{}' AS s", "é".repeat(n)),
                1 => format!("RETURN {} AS i", "9".repeat(n.min(400))),
                2 => format!("RETURN [{}] AS l", vec!["1"; n].join(",")),
                _ => format!("RETURN 0.{}1 AS f", "0".repeat(n.min(2000))),
            };
            (q, "huge-literal")
        }
        18 => {
            let k = *r.pick(NEST_KINDS);
            (nest(k, 1 + r.below(40) as usize), "nest-shallow")
        }
        _ => {
            let k = *r.pick(OTHER_KINDS);
            (nest(k, 1 + r.below(30) as usize), "chain-shallow")
        }
    }
}
fn gen_params(r: &mut Rng) -> serde_json::Value {
    let v = |r: &mut Rng| match r.below(8) {
        0 => json!(null),
        1 => json!(r.range(-3, 3)),
        2 => json!(i64::MAX),
        3 => json!(1.5),
        4 => json!("é"),
        5 => json!([1, "a", null]),
        6 => json!({"a": {"b": [1]}}),
        _ => json!(true),
    };
    let p = v(r);
    let q = v(r);
    json!({"p": p, "q": q})
}

// ------------------------------------------------------------------ child
fn jv(j: &serde_json::Value) -> Value {
    match j {
        serde_json::Value::Null => Value::Null,
        serde_json::Value::Bool(b) => Value::Bool(*b),
        serde_json::Value::Number(n) => n.as_i64().map(Value::Int).unwrap_or_else(|| Value::Float(n.as_f64().unwrap())),
        serde_json::Value::String(s) => Value::String(s.clone()),
        serde_json::Value::Array(a) => Value::List(a.iter().map(jv).collect()),
        serde_json::Value::Object(m) => Value::Map(m.iter().map(|(k, v)| (k.clone(), jv(v))).collect()),
    }
}
const GRAPH: &[&str] = &[
    "CREATE (:P {k: 1, name: 'ann', tags: ['a']})-[:KNOWS {since: 2001}]->(:P:Q {k: 2, name: 'é'})-[:KNOWS]->(:P {k: 3})",
    "CREATE (:R {k: 4})",
    "MATCH (a:P {k: 3}), (b:R) CREATE (a)-[:LIKES]->(b), (b)-[:LIKES]->(b)",
    "MATCH (a:P {k: 1}), (b:P {k: 2}) CREATE (a)-[:KNOWS]->(b)",
];
fn build(dir: &std::path::Path, name: &str, compacted: bool) -> std::path::PathBuf {
    let p = dir.join(name);
    let d = CDb::open(&p).unwrap();
    if name != "empty" {
        for s in GRAPH {
            d.execute_write(s, None).unwrap();
        }
        if compacted {
            d.compact().unwrap();
            d.execute_write("CREATE (:P {k: 5})-[:KNOWS]->(:S {k: 6})", None).unwrap();
        }
    }
    d.close().unwrap();
    p
}
fn child_main(batch: &str) {
    quiet_panics();
    let dir = scratch_dir().unwrap();
    let paths = [build(dir.path(), "empty", false), build(dir.path(), "small", false), build(dir.path(), "compacted", true)];
    let rdbs: Vec<nervusdb::Db> = paths.iter().map(|p| nervusdb::Db::open(p).unwrap()).collect();
    // the C API works on copies (a second handle on the same files is another property's subject)
    let cdbs: Vec<CDb> = paths
        .iter()
        .map(|p| {
            let q = p.with_file_name(format!("{}_c", p.file_name().unwrap().to_string_lossy()));
            for ext in ["ndb", "wal"] {
                std::fs::copy(p.with_extension(ext), q.with_extension(ext)).unwrap();
            }
            CDb::open(&q).unwrap()
        })
        .collect();
    let out = std::io::stdout();
    for line in std::fs::read_to_string(batch).unwrap().lines() {
        let c: serde_json::Value = serde_json::from_str(line).unwrap();
        let id = c["id"].as_u64().unwrap();
        let text = c["query"].as_str().unwrap().to_string();
        let g = c["graph"].as_u64().unwrap() as usize;
        let pj = c["params"].clone();
        {
            let mut o = out.lock();
            writeln!(o, "BEGIN {}", id).unwrap();
            o.flush().unwrap();
        }
        let rdb = &rdbs[g];
        let t0 = Instant::now();
        let res = std::thread::scope(|s| {
            std::thread::Builder::new()
                .stack_size(CHILD_STACK)
                .spawn_scoped(s, || {
                    catch(std::panic::AssertUnwindSafe(|| {
                        let mut params = Params::with_execute_options(ExecuteOptions { soft_timeout_ms: SOFT_TIMEOUT_MS, ..ExecuteOptions::default() });
                        for (k, v) in pj.as_object().unwrap() {
                            params.insert(k.clone(), jv(v));
                        }
                        nervusdb_query::parser::verif_depth::reset();
                        let prepared = nervusdb_query::prepare(&text);
                        let depth = nervusdb_query::parser::verif_depth::high_water();
                        let r = match prepared {
                            Err(e) => Err(format!("prepare: {}", e)),
                            Ok(p) => {
                                let snapshot = rdb.snapshot();
                                let mut txn = rdb.begin_write();
                                // the write transaction is dropped: the graph stays the same for the next query
                                p.execute_mixed(&snapshot, &mut txn, &params).map(|(rows, n)| (rows.len(), n)).map_err(|e| format!("execute: {}", e))
                            }
                        };
                        (depth, r)
                    }))
                })
                .unwrap()
                .join()
                .unwrap()
        });
        let ms = t0.elapsed().as_millis();
        // the C API entry points (a panic inside an extern "C" function aborts the process)
        let cres = if matches!(res, Ok((_, Ok(_))) | Ok((_, Err(_)))) {
            let ps = pj.to_string();
            let a = cdbs[g].query(&text, Some(&ps)).map(|s| s.len()).map_err(|e| e.code);
            Some(a)
        } else {
            None
        };
        let mut o = out.lock();
        match res {
            Ok((depth, Ok((rows, n)))) => writeln!(o, "END {} rows {} {} {} {:?}", id, depth, rows, n, cres.map(|x| x.is_ok())).unwrap(),
            Ok((depth, Err(e))) => writeln!(o, "END {} error {} ms={} {}", id, depth, ms, json!(e)).unwrap(),
            Err(p) => writeln!(o, "END {} panic 0 {}", id, json!(p)).unwrap(),
        }
        o.flush().unwrap();
    }
}

// ------------------------------------------------------------------ parent
#[derive(Clone, Debug)]
struct Outcome {
    kind: String, // rows | error | panic | abort | timeout
    depth: u64,
    detail: String,
    ms: u128,
}
struct Case {
    id: usize,
    query: String,
    params: serde_json::Value,
    graph: usize,
    stream: String,
    nest: Option<(String, usize)>,
}
fn run_batches(cases: &[Case], dir: &std::path::Path, cap: Duration, tag: &str) -> Vec<Outcome> {
    let exe = std::env::current_exe().unwrap();
    let mut out: Vec<Option<Outcome>> = vec![None; cases.len()];
    let mut start = 0usize;
    let mut round = 0;
    while start < cases.len() {
        round += 1;
        let batch = dir.join(format!("batch_{}{}.jsonl", tag, round));
        {
            let mut f = std::io::BufWriter::new(std::fs::File::create(&batch).unwrap());
            for (i, c) in cases.iter().enumerate().skip(start) {
                writeln!(f, "{}", json!({"id": i, "query": c.query, "params": c.params, "graph": c.graph})).unwrap();
            }
        }
        let mut child = Command::new(&exe).arg("--child").arg(&batch).stdout(Stdio::piped()).stderr(Stdio::null()).spawn().unwrap();
        let stdout = child.stdout.take().unwrap();
        let (tx, rx) = mpsc::channel::<String>();
        let reader = std::thread::spawn(move || {
            for l in BufReader::new(stdout).lines().map_while(Result::ok) {
                if tx.send(l).is_err() {
                    break;
                }
            }
        });
        let mut current: Option<(usize, Instant)> = None;
        let mut last_done = start;
        let mut died: Option<String> = None;
        loop {
            let wait = match current {
                Some((_, t)) => cap.saturating_sub(t.elapsed()),
                None => Duration::from_secs(60), // database set-up at child start
            };
            match rx.recv_timeout(wait) {
                Ok(l) => {
                    let mut it = l.splitn(5, ' ');
                    match it.next() {
                        Some("BEGIN") => current = Some((it.next().unwrap().parse().unwrap(), Instant::now())),
                        Some("END") => {
                            let id: usize = it.next().unwrap().parse().unwrap();
                            let kind = it.next().unwrap().to_string();
                            let depth: u64 = it.next().unwrap_or("0").parse().unwrap_or(0);
                            let ms = current.map(|c| c.1.elapsed().as_millis()).unwrap_or(0);
                            out[id] = Some(Outcome { kind, depth, detail: it.next().unwrap_or("").to_string(), ms });
                            last_done = id + 1;
                            current = None;
                        }
                        _ => {}
                    }
                }
                Err(mpsc::RecvTimeoutError::Timeout) => {
                    died = Some("timeout".into());
                    let _ = child.kill();
                    break;
                }
                Err(mpsc::RecvTimeoutError::Disconnected) => break,
            }
        }
        let status = child.wait().unwrap();
        let _ = reader.join();
        if last_done >= cases.len() && current.is_none() {
            break;
        }
        // the child stopped while working on `current` (or before BEGIN of last_done)
        let at = current.map(|c| c.0).unwrap_or(last_done);
        use std::os::unix::process::ExitStatusExt;
        let kind = died.unwrap_or_else(|| "abort".into());
        let detail = format!("exit={:?} signal={:?}", status.code(), status.signal());
        if at < cases.len() {
            out[at] = Some(Outcome { kind, depth: 0, detail, ms: current.map(|c| c.1.elapsed().as_millis()).unwrap_or(0) });
        }
        start = at + 1;
    }
    out.into_iter().map(|o| o.unwrap_or(Outcome { kind: "abort".into(), depth: 0, detail: "no outcome recorded".into(), ms: 0 })).collect()
}

/// nesting measure of a query text, for the known-finding predicate: maximal bracket nesting plus
/// the longest run of prefix operators / nested keywords (computed on the text, not by the parser)
fn text_nesting(q: &str) -> usize {
    let mut depth = 0usize;
    let mut maxd = 0usize;
    for w in q.split(|c: char| c.is_whitespace()) {
        if w.eq_ignore_ascii_case("CASE") || w.eq_ignore_ascii_case("NOT") || w == "-" {
            depth += 1;
            maxd = maxd.max(depth);
        }
        if w.eq_ignore_ascii_case("END") {
            depth = depth.saturating_sub(1);
        }
        for ch in w.chars() {
            match ch {
                '(' | '[' | '{' => {
                    depth += 1;
                    maxd = maxd.max(depth);
                }
                ')' | ']' | '}' => depth = depth.saturating_sub(1),
                _ => {}
            }
        }
    }
    maxd
}

/// length of operator / clause / property chains (left-deep ASTs and plans), computed on the text
fn chain_len(q: &str) -> usize {
    q.split_whitespace().count().max(q.matches('.').count()).max(q.matches("-->").count())
}

fn main() {
    let a = args();
    if let Some(i) = a.extra.iter().position(|x| x == "--child") {
        child_main(&a.extra[i + 1]);
        return;
    }
    let mut r = Rng::new(a.seed);
    let mut cw = CaseWriter::new(&a.out, "Corr.C16", 200);
    let mut rep = Report::new(&a.out);
    let mut hist = std::collections::BTreeMap::<String, u64>::new();
    let mut cases: Vec<Case> = vec![];
    let push = |cases: &mut Vec<Case>, query: String, params: serde_json::Value, graph: usize, stream: &str, nest: Option<(String, usize)>| {
        let id = cases.len();
        cases.push(Case { id, query, params, graph, stream: stream.to_string(), nest });
    };
    // corpus first: the witnesses
    push(&mut cases, nest("paren", 2000), json!({}), 0, "corpus", Some(("paren".into(), 2000)));
    push(&mut cases, "WITH 'é' AS x RETURN x".into(), json!({}), 0, "corpus", None);
    push(&mut cases, "MATCH (a)<-[r]-(b) RETURN a, r, b".into(), json!({}), 2, "corpus", None);
    // fixed d9e8e2a: execute_mixed drained the plan iterator after the timeout error (ran > 100 s with soft_timeout_ms = 1000)
    push(&mut cases, "UNWIND range(1, 100000) AS x UNWIND range(1, 100000) AS y RETURN count(*)".into(), json!({}), 1, "corpus", None);
    // deep nesting of every recursive production / long chains
    // every recursive production and every chain: around the limit of each family (the deepest accepted
    // input must run without overflowing the 2 MiB stack in this build) and far beyond it (must be rejected)
    let deep: &[usize] = if a.tier == "thorough" {
        &[1, 2, 3, 10, 14, 15, 18, 19, 21, 22, 30, 45, 49, 50, 51, 60, 74, 75, 76, 100, 144, 147, 148, 149, 150, 151, 200, 400, 1000, 3000, 20000, 100000]
    } else {
        &[1, 3, 14, 18, 21, 30, 49, 50, 51, 74, 75, 100, 147, 149, 150, 151, 400, 3000, 50000]
    };
    for k in NEST_KINDS.iter().chain(OTHER_KINDS.iter()) {
        for d in deep {
            let nestinfo = if NEST_KINDS.contains(k) { Some((k.to_string(), *d)) } else { None };
            push(&mut cases, nest(k, *d), json!({}), 1, &format!("deep:{}", k), nestinfo);
        }
    }
    while cases.len() < a.n {
        let (q, stream) = gen_query(&mut r);
        let nestinfo = None;
        let g = r.below(3) as usize;
        let p = gen_params(&mut r);
        push(&mut cases, q, p, g, stream, nestinfo);
    }
    let mut outcomes = run_batches(&cases, &a.out, WALL_CAP, "");
    // wall time on a shared machine is noisy: a timeout counts only if the query, run alone in a fresh
    // child with three times the cap, stalls again
    for i in 0..cases.len() {
        if outcomes[i].kind == "timeout" {
            let one = [Case { id: 0, query: cases[i].query.clone(), params: cases[i].params.clone(), graph: cases[i].graph, stream: cases[i].stream.clone(), nest: None }];
            let again = run_batches(&one, &a.out, WALL_CAP * 3, "retry");
            *hist.entry(format!("timeout-retried:{}", again[0].kind)).or_insert(0) += 1;
            outcomes[i] = again[0].clone();
        }
    }
    let mut nontrivial = std::collections::BTreeSet::<String>::new();
    let mut fails = 0u64;
    let mut slowest = 0u128;
    for (c, o) in cases.iter().zip(&outcomes) {
        let rejected_deep = o.kind == "error" && o.detail.contains("NestingDepthLimitExceeded");
        *hist.entry(format!("{}:{}", c.stream, if rejected_deep { "rejected-nesting-limit" } else { o.kind.as_str() })).or_insert(0) += 1;
        slowest = slowest.max(o.ms);
        if o.kind == "rows" || o.detail.contains("execute:") {
            nontrivial.insert(c.query.clone());
        }
        if c.id < 3 {
            rep.case(c.id, json!({"query": c.query.chars().take(200).collect::<String>(), "outcome": o.kind, "parser_depth": o.depth, "detail": o.detail.chars().take(200).collect::<String>(), "ms": o.ms as u64}));
        }
        if let Some((k, d)) = &c.nest {
            if o.kind == "rows" || o.kind == "error" {
                let ki = NEST_KINDS.iter().position(|x| x == k).unwrap();
                let rejected = o.kind == "error" && o.detail.contains("NestingDepthLimitExceeded");
                cw.push(format!("{{| kind := {}%N; nest := {}%N; impl_depth := {}%N; impl_rejected := {} |}}", ki, d, o.depth, coq_bool(rejected)));
            }
        }
        if o.kind == "error" && o.detail.contains("kind=IntermediateRows") && o.detail.contains("stage=CartesianProduct") {
            // the row limit stopped the query; was that after the configured timeout had already passed?
            let ms: u64 = o.detail.split("ms=").nth(1).and_then(|x| x.split(' ').next()).and_then(|x| x.parse().ok()).unwrap_or(0);
            if ms > SOFT_TIMEOUT_MS + 500 {
                fails += 1;
                *hist.entry("direct-failure:K-C16-timeout-cartesian".into()).or_insert(0) += 1;
                rep.fail(c.id, Some("K-C16-timeout-cartesian"), &format!("query ran {} ms with soft_timeout_ms = {} and was stopped by the row limit, not by the timeout", ms, SOFT_TIMEOUT_MS),
                    json!({"query": c.query, "graph": GRAPH_NAMES[c.graph], "detail": o.detail}));
            }
        }
        if !(o.kind == "rows" || o.kind == "error") {
            fails += 1;
            let class: Option<&str> = None; // K-C16-depth was repaired (d751b2b): no abort is known any more
            *hist.entry(format!("direct-failure:{}:{}", o.kind, class.unwrap_or("unclassified"))).or_insert(0) += 1;
            rep.fail(c.id, class, &format!("query processing ended in {} ({})", o.kind, o.detail.chars().take(160).collect::<String>()),
                json!({"query_prefix": c.query.chars().take(300).collect::<String>(), "query_len": c.query.len(), "stream": c.stream, "params": c.params, "graph": GRAPH_NAMES[c.graph], "text_nesting": text_nesting(&c.query), "chain_len": chain_len(&c.query)}));
        }
    }
    cw.flush();
    rep.stats(json!({
        "evaluations": cases.len(),
        "corr_cases": cw.total,
        "distinct_nontrivial": nontrivial.len(),
        "rule": "queries: nesting / chain length 1 .. 50k/100k, dense around the limit, of 9 expression productions and 12 clause-level / chain productions; token soup; mutated valid queries; 40 valid queries over all clauses; 70 functions x boundary arguments; random bytes / unusual Unicode; keyword prefix + multi-byte text; huge literals; random parameters; graphs: empty, small, compacted+delta. Each query is prepared and executed (execute_mixed, write transaction dropped) in a child process on a 2 MiB thread, then through ndb_query; non-trivial = the query got past prepare (rows or an execution error), distinct by text",
        "histogram": hist,
        "direct_failures": fails,
        "slowest_ms": slowest as u64,
        "wall_cap_ms": WALL_CAP.as_millis() as u64,
        "soft_timeout_ms": SOFT_TIMEOUT_MS,
        "case_files": cw.files.iter().map(|p| p.to_string_lossy().to_string()).collect::<Vec<_>>(),
    }));
    rep.finish();
}
