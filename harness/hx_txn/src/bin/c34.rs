//! C34 — C API results match the Rust API.
//! (a) classification: generated statements with updates nested in CALL { }, UNION, FOREACH and
//!     EXISTS { } through ndb_query / ndb_execute_write; the refusals are compared with the Coq
//!     classifier model and with a walk over the real parsed AST (direct property check).
//! (b) values: the same read statements + parameters on identical databases through
//!     ndb_query (JSON) and prepare/execute_streaming/reify (Value); every column value becomes a
//!     Coq case (to_json model vs C JSON) and is checked directly (decode(JSON) = Value).
//! (c) errors: same statement fails/succeeds through both, same message, category = stage.
use hx_txn::*;
use nervusdb_query::{Params, Value, ast};
use serde_json::{Value as J, json};
use vh::*;

// ---------------------------------------------------------------- (a) classifier
#[derive(Clone, Debug)]
enum E {
    Leaf,
    Node(Box<E>, Box<E>),
    Exists(Vec<C>),
}
#[derive(Clone, Debug)]
enum C {
    Read(E),
    Update(E),
    Foreach(E, Vec<C>),
    CallSub(Vec<C>),
    Union(Vec<C>),
}
fn coq_e(e: &E) -> String {
    match e {
        E::Leaf => "ELeaf".into(),
        E::Node(l, r) => format!("(ENode {} {})", coq_e(l), coq_e(r)),
        E::Exists(q) => format!("(EExists {})", coq_q(q)),
    }
}
fn coq_c(c: &C) -> String {
    match c {
        C::Read(e) => format!("(CRead {})", coq_e(e)),
        C::Update(e) => format!("(CUpdate {})", coq_e(e)),
        C::Foreach(e, b) => format!("(CForeach {} {})", coq_e(e), coq_q(b)),
        C::CallSub(q) => format!("(CCallSub {})", coq_q(q)),
        C::Union(q) => format!("(CUnion {})", coq_q(q)),
    }
}
fn coq_q(q: &[C]) -> String {
    match q.split_first() {
        None => "QNil".into(),
        Some((c, t)) => format!("(QCons {} {})", coq_c(c), coq_q(t)),
    }
}

struct G<'a> {
    r: &'a mut Rng,
    n: usize,
}
impl G<'_> {
    fn fresh(&mut self, p: &str) -> String {
        self.n += 1;
        format!("{}{}", p, self.n)
    }
    /// (text, model)
    fn expr(&mut self, depth: u32) -> (String, E) {
        let k = if depth == 0 { 0 } else { self.r.below(7) };
        match k {
            0 | 1 | 2 => {
                let s = *self.r.pick(&["1", "'CREATE (x)'", "null", "'SET'", "2.5", "true", "$p", "[]", "'DELETE n'"]);
                (s.to_string(), E::Leaf)
            }
            3 | 4 => {
                let (a, ea) = self.expr(depth - 1);
                let (b, eb) = self.expr(depth - 1);
                let t = match self.r.below(4) {
                    0 => format!("({} + {})", a, b),
                    1 => format!("[{}, {}]", a, b),
                    2 => format!("coalesce({}, {})", a, b),
                    _ => format!("{{a: {}, b: {}}}", a, b),
                };
                (t, E::Node(Box::new(ea), Box::new(eb)))
            }
            _ => {
                let (t, q) = self.exists_query(depth - 1);
                (format!("EXISTS {{ {} }}", t), E::Exists(q))
            }
        }
    }
    /// subquery of EXISTS { }: must start with a reading clause; top-level clauses are not updates
    fn exists_query(&mut self, depth: u32) -> (String, Vec<C>) {
        let mut text = vec![];
        let mut q = vec![];
        let v = self.fresh("m");
        text.push(format!("MATCH ({})", v));
        q.push(C::Read(E::Leaf));
        if depth > 0 && self.r.chance(1, 2) {
            let wu = self.r.chance(2, 3);
            let (t, sub) = self.query(depth - 1, wu, false);
            text.push(format!("CALL {{ {} }}", t));
            q.push(C::CallSub(sub));
        }
        if self.r.chance(1, 3) {
            let (t, e) = self.expr(depth.min(1));
            text.push(format!("WITH {} AS {}", t, self.fresh("w")));
            q.push(C::Read(e));
        }
        text.push("RETURN 1 AS one".into());
        q.push(C::Read(E::Leaf));
        if depth > 0 && self.r.chance(1, 4) {
            let wu = self.r.chance(1, 2);
            let (t, sub) = self.query(depth - 1, wu, false);
            text.push(format!("UNION {}", t));
            q.push(C::Union(sub));
        }
        (text.join(" "), q)
    }
    fn update(&mut self, depth: u32) -> (String, C) {
        match self.r.below(7) {
            0 | 1 => {
                let (t, e) = self.expr(depth);
                (format!("CREATE (:T {{p: {}}})", t), C::Update(e))
            }
            2 => {
                let (t, e) = self.expr(depth);
                (format!("SET n.p = {}", t), C::Update(e))
            }
            3 => {
                let (t, e) = self.expr(depth);
                (format!("MERGE (:T {{q: {}}})", t), C::Update(e))
            }
            4 => ("DELETE n".into(), C::Update(E::Leaf)),
            5 => ("REMOVE n.p".into(), C::Update(E::Leaf)),
            _ => {
                let (t, e) = self.expr(depth.min(1));
                let nb = self.r.below(3);
                let mut bt = vec![];
                let mut bq = vec![];
                for _ in 0..nb {
                    let (u, c) = self.update(depth.saturating_sub(1));
                    bt.push(u);
                    bq.push(c);
                }
                (format!("FOREACH ({} IN [{}] | {})", self.fresh("i"), t, bt.join(" ")), C::Foreach(e, bq))
            }
        }
    }
    /// a query; `with_update`: contains an updating clause somewhere at its own clause level or nested
    fn query(&mut self, depth: u32, with_update: bool, allow_union: bool) -> (String, Vec<C>) {
        let mut text = vec!["MATCH (n)".to_string()];
        let mut q = vec![C::Read(E::Leaf)];
        let n = 1 + self.r.below(3);
        let upd_at = if with_update { Some(self.r.below(n)) } else { None };
        for i in 0..n {
            if Some(i) == upd_at {
                if depth > 0 && self.r.chance(1, 3) {
                    let (t, sub) = self.query(depth - 1, true, true);
                    text.push(format!("CALL {{ {} }}", t));
                    q.push(C::CallSub(sub));
                } else {
                    let (t, c) = self.update(depth);
                    text.push(t);
                    q.push(c);
                }
            } else {
                match self.r.below(4) {
                    0 => {
                        let (t, e) = self.expr(depth);
                        text.push(format!("WITH n, {} AS {}", t, self.fresh("v")));
                        q.push(C::Read(e));
                    }
                    1 => {
                        let (t, e) = self.expr(depth);
                        text.push(format!("WHERE {} IS NOT NULL", t));
                        q.push(C::Read(e));
                    }
                    2 if depth > 0 => {
                        let (t, sub) = self.query(depth - 1, false, true);
                        text.push(format!("CALL {{ {} }}", t));
                        q.push(C::CallSub(sub));
                    }
                    _ => {
                        let (t, e) = self.expr(depth);
                        text.push(format!("UNWIND [{}] AS {}", t, self.fresh("u")));
                        q.push(C::Read(e));
                    }
                }
            }
        }
        text.push("RETURN 1 AS one".into());
        q.push(C::Read(E::Leaf));
        if allow_union && depth > 0 && self.r.chance(1, 3) {
            // A UNION B UNION C ... parses to the FLAT list [A.., Union(B), Union(C), ..]; 1-4 branches, all
            // UNION or all UNION ALL, the update (if any) in any of them — also only in the last one
            let branches = 1 + self.r.below(4);
            let all = self.r.chance(1, 2);
            let only_last = self.r.chance(1, 3);
            for i in 0..branches {
                let wu = if only_last { i + 1 == branches } else { self.r.chance(1, 3) };
                let (t, sub) = self.query(depth - 1, wu, false);
                text.push(format!("UNION {}{}", if all { "ALL " } else { "" }, t));
                q.push(C::Union(sub));
            }
        }
        (text.join(" "), q)
    }
}

// walk over the REAL AST: (update at clause nesting only, update anywhere incl. below expressions)
fn walk_q(q: &ast::Query) -> (bool, bool) {
    let mut a = false;
    let mut b = false;
    for c in &q.clauses {
        let (x, y) = walk_c(c);
        a |= x;
        b |= y;
    }
    (a, b)
}
fn walk_pat(p: &ast::Pattern) -> bool {
    p.elements.iter().any(|el| match el {
        ast::PathElement::Node(n) => n.properties.as_ref().is_some_and(|m| m.properties.iter().any(|pp| walk_e(&pp.value))),
        ast::PathElement::Relationship(r) => r.properties.as_ref().is_some_and(|m| m.properties.iter().any(|pp| walk_e(&pp.value))),
    })
}
fn walk_items(items: &[ast::ReturnItem]) -> bool {
    items.iter().any(|i| walk_e(&i.expression))
}
fn walk_c(c: &ast::Clause) -> (bool, bool) {
    use ast::Clause::*;
    match c {
        Create(x) => (true, true || x.patterns.iter().any(walk_pat)),
        Merge(_) | Set(_) | Remove(_) | Delete(_) | Foreach(_) => (true, true),
        Call(ast::CallClause::Subquery(q)) => walk_q(q),
        Call(ast::CallClause::Procedure(p)) => (false, p.arguments.iter().any(walk_e)),
        Union(u) => walk_q(&u.query),
        Match(m) => (false, m.patterns.iter().any(walk_pat)),
        Unwind(u) => (false, walk_e(&u.expression)),
        Where(w) => (false, walk_e(&w.expression)),
        With(w) => (
            false,
            walk_items(&w.items)
                || w.where_clause.as_ref().is_some_and(|x| walk_e(&x.expression))
                || w.order_by.as_ref().is_some_and(|o| o.items.iter().any(|i| walk_e(&i.expression)))
                || w.limit.as_ref().is_some_and(walk_e)
                || w.skip.as_ref().is_some_and(walk_e),
        ),
        Return(r) => (
            false,
            walk_items(&r.items)
                || r.order_by.as_ref().is_some_and(|o| o.items.iter().any(|i| walk_e(&i.expression)))
                || r.limit.as_ref().is_some_and(walk_e)
                || r.skip.as_ref().is_some_and(walk_e),
        ),
    }
}
/// does the expression contain, at any depth, a subquery with an updating clause?
fn walk_e(e: &ast::Expression) -> bool {
    use ast::Expression::*;
    match e {
        Literal(_) | Variable(_) | PropertyAccess(_) | Parameter(_) => false,
        Binary(b) => walk_e(&b.left) || walk_e(&b.right),
        Unary(u) => walk_e(&u.operand),
        FunctionCall(f) => f.args.iter().any(walk_e),
        Case(c) => {
            c.expression.as_ref().is_some_and(walk_e)
                || c.when_clauses.iter().any(|(a, b)| walk_e(a) || walk_e(b))
                || c.else_expression.as_ref().is_some_and(walk_e)
        }
        Exists(x) => match x.as_ref() {
            ast::ExistsExpression::Pattern(p) => walk_pat(p),
            ast::ExistsExpression::Subquery(q) => walk_q(q).1,
        },
        List(l) => l.iter().any(walk_e),
        ListComprehension(c) => walk_e(&c.list) || c.where_expression.as_ref().is_some_and(walk_e) || c.map_expression.as_ref().is_some_and(walk_e),
        PatternComprehension(c) => walk_pat(&c.pattern) || c.where_expression.as_ref().is_some_and(walk_e) || walk_e(&c.projection),
        Map(m) => m.properties.iter().any(|p| walk_e(&p.value)),
    }
}

const REFUSED_BY_QUERY: &str = "ndb_query/read API does not accept write statements";
const REFUSED_BY_WRITE: &str = "ndb_execute_write API expects a write statement";

// ---------------------------------------------------------------- (b) values
fn coq_str(s: &str) -> String {
    coq_bytes(s.as_bytes())
}
fn coq_props(m: &std::collections::BTreeMap<String, Value>) -> Option<String> {
    let mut out = vec![];
    for (k, v) in m {
        out.push(format!("({}, {})", coq_str(k), coq_value(v)?));
    }
    Some(format!("[{}]", out.join("; ")))
}
fn coq_value(v: &Value) -> Option<String> {
    Some(match v {
        Value::Null => "VNull".into(),
        Value::Bool(b) => format!("(VBool {})", coq_bool(*b)),
        Value::Int(i) => format!("(VInt {})", coq_z(*i as i128)),
        Value::Float(f) => format!("(VFloat {})", coq_n(f.to_bits() as u128)),
        Value::String(s) => format!("(VStr {})", coq_str(s)),
        Value::DateTime(t) => format!("(VDateTime {})", coq_z(*t as i128)),
        Value::Blob(b) => format!("(VBlob {})", coq_bytes(b)),
        Value::List(l) => {
            let mut out = vec![];
            for x in l {
                out.push(coq_value(x)?);
            }
            format!("(VList [{}])", out.join("; "))
        }
        Value::Map(m) => format!("(VMap {})", coq_props(m)?),
        Value::Node(n) => format!("(VNode {} {} {})", coq_z(n.id as i128), coq_list(&n.labels, |s| coq_str(s)), coq_props(&n.properties)?),
        Value::Relationship(r) => format!(
            "(VRel {} {} {} {})",
            coq_z(r.key.src as i128),
            coq_z(r.key.dst as i128),
            coq_str(&r.rel_type),
            coq_props(&r.properties)?
        ),
        Value::NodeId(i) => format!("(VNodeId {})", coq_z(*i as i128)),
        Value::ExternalId(i) => format!("(VExternalId {})", coq_z(*i as i128)),
        Value::EdgeKey(_) | Value::Path(_) | Value::ReifiedPath(_) => return None,
    })
}
fn coq_json(j: &J) -> String {
    match j {
        J::Null => "JNull".into(),
        J::Bool(b) => format!("(JBool {})", coq_bool(*b)),
        J::Number(n) => {
            if let Some(i) = n.as_i64() {
                format!("(JInt {})", coq_z(i as i128))
            } else if let Some(u) = n.as_u64() {
                format!("(JInt {})", coq_z(u as i128))
            } else {
                format!("(JFloat {})", coq_n(n.as_f64().unwrap().to_bits() as u128))
            }
        }
        J::String(s) => format!("(JStr {})", coq_str(s)),
        J::Array(a) => format!("(JArr [{}])", a.iter().map(coq_json).collect::<Vec<_>>().join("; ")),
        J::Object(m) => {
            let mut ks: Vec<&String> = m.keys().collect();
            ks.sort_by(|a, b| a.as_bytes().cmp(b.as_bytes()));
            format!("(JObj [{}])", ks.iter().map(|k| format!("({}, {})", coq_str(k), coq_json(&m[*k]))).collect::<Vec<_>>().join("; "))
        }
    }
}
/// the natural reading of the C API's JSON back into a value (what a client of the C API sees)
fn decode(j: &J) -> Value {
    match j {
        J::Null => Value::Null,
        J::Bool(b) => Value::Bool(*b),
        J::Number(n) => n.as_i64().map(Value::Int).unwrap_or_else(|| Value::Float(n.as_f64().unwrap())),
        J::String(s) => Value::String(s.clone()),
        J::Array(a) => Value::List(a.iter().map(decode).collect()),
        J::Object(m) => {
            let keys: Vec<&str> = m.keys().map(|s| s.as_str()).collect();
            let tag = m.get("type").and_then(|t| t.as_str());
            let props = |j: &J| -> std::collections::BTreeMap<String, Value> {
                j.as_object().map(|o| o.iter().map(|(k, v)| (k.clone(), decode(v))).collect()).unwrap_or_default()
            };
            let mut sk = keys.clone();
            sk.sort();
            match (tag, sk.as_slice()) {
                (Some("datetime"), ["type", "value"]) if m["value"].is_i64() => Value::DateTime(m["value"].as_i64().unwrap()),
                (Some("node_id"), ["type", "value"]) if m["value"].is_u64() => Value::NodeId(m["value"].as_u64().unwrap() as u32),
                (Some("external_id"), ["type", "value"]) if m["value"].is_u64() => Value::ExternalId(m["value"].as_u64().unwrap()),
                (Some("node"), ["id", "labels", "properties", "type"]) if m["id"].is_u64() && m["labels"].is_array() && m["properties"].is_object() => {
                    Value::Node(nervusdb_query::executor::NodeValue {
                        id: m["id"].as_u64().unwrap() as u32,
                        labels: m["labels"].as_array().unwrap().iter().map(|x| x.as_str().unwrap_or("").to_string()).collect(),
                        properties: props(&m["properties"]),
                    })
                }
                _ => Value::Map(m.iter().map(|(k, v)| (k.clone(), decode(v))).collect()),
            }
        }
    }
}
fn val_eq(a: &Value, b: &Value) -> bool {
    match (a, b) {
        (Value::Float(x), Value::Float(y)) => x.to_bits() == y.to_bits(),
        (Value::List(x), Value::List(y)) => x.len() == y.len() && x.iter().zip(y).all(|(p, q)| val_eq(p, q)),
        (Value::Map(x), Value::Map(y)) => x.len() == y.len() && x.iter().zip(y).all(|((k1, p), (k2, q))| k1 == k2 && val_eq(p, q)),
        (Value::Node(x), Value::Node(y)) => {
            x.id == y.id && x.labels == y.labels && val_eq(&Value::Map(x.properties.clone()), &Value::Map(y.properties.clone()))
        }
        (Value::Relationship(_), _) | (_, Value::Relationship(_)) => true, // relationship JSON has no rel id: compared in Coq only
        _ => a == b,
    }
}
fn has_nonfinite(v: &Value) -> bool {
    match v {
        Value::Float(f) => !f.is_finite(),
        Value::List(l) => l.iter().any(has_nonfinite),
        Value::Map(m) => m.values().any(has_nonfinite),
        Value::Node(n) => n.properties.values().any(has_nonfinite),
        Value::Relationship(r) => r.properties.values().any(has_nonfinite),
        _ => false,
    }
}
/// a map whose JSON is indistinguishable from a tagged object
fn has_tagged_map(v: &Value) -> bool {
    match v {
        Value::Map(m) => {
            matches!(m.get("type"), Some(Value::String(t)) if ["datetime", "node_id", "external_id", "node", "blob", "relationship", "path", "edge_key", "path_legacy"].contains(&t.as_str()))
                || m.values().any(has_tagged_map)
        }
        Value::List(l) => l.iter().any(has_tagged_map),
        Value::Node(n) => n.properties.values().any(has_tagged_map),
        _ => false,
    }
}
fn has_blob(v: &Value) -> bool {
    match v {
        Value::Blob(_) => true,
        Value::List(l) => l.iter().any(has_blob),
        Value::Map(m) => m.values().any(has_blob),
        _ => false,
    }
}

fn gen_lit(r: &mut Rng, depth: u32) -> String {
    match if depth == 0 { r.below(6) } else { r.below(9) } {
        0 => r.pick(&["0", "1", "-1", "9007199254740993", "9223372036854775807", "-9223372036854775808", "255"]).to_string(),
        1 => r.pick(&["0.0", "-0.0", "1.0", "1.5", "1e300", "4.9e-324", "0.1", "123456789.125", "1e21", "-2.5e-7"]).to_string(),
        2 => r.pick(&["'a'", "''", "'\\u00e9\\u4e2d'", "'q\"uote'", "'back\\\\slash'", "'line\\nbreak'", "'\\u0001'", "'node'"]).to_string(),
        3 => r.pick(&["true", "false", "null"]).to_string(),
        4 => r.pick(&["(1e308 * 10.0)", "(0.0 / 0.0)", "(-1e308 * 10.0)", "sqrt(-1.0)", "(1.0 / 0.0)"]).to_string(),
        5 => r.pick(&["toFloat(3)", "1 + 2", "size([1,2])", "toString(1.0)", "range(1,3)", "1 = 1.0", "2 ^ 70"]).to_string(),
        6 => {
            let n = r.below(3);
            format!("[{}]", (0..n).map(|_| gen_lit(r, depth - 1)).collect::<Vec<_>>().join(", "))
        }
        7 => {
            let keys = ["a", "b", "type", "value", "id"];
            let n = r.below(3) as usize;
            let mut used = vec![];
            let mut items = vec![];
            for _ in 0..n {
                let k = *r.pick(&keys);
                if used.contains(&k) {
                    continue;
                }
                used.push(k);
                items.push(format!("{}: {}", k, gen_lit(r, depth - 1)));
            }
            format!("{{{}}}", items.join(", "))
        }
        _ => r.pick(&["{type: 'datetime', value: 5}", "{type: 'node_id', value: 0}", "{type: 'node', id: 0, labels: [], properties: {}}", "{type: 'blob', len: 1}"]).to_string(),
    }
}
fn gen_param(r: &mut Rng, depth: u32) -> J {
    match if depth == 0 { r.below(5) } else { r.below(7) } {
        0 => json!(*r.pick(&[0i64, -1, 1 << 53, i64::MAX, i64::MIN])),
        1 => json!(*r.pick(&[0.5f64, -0.0, 1e300, 2.0, 18446744073709551615.0])),
        2 => json!(*r.pick(&["", "x", "é中", "\"", "\u{1}"])),
        3 => json!(r.chance(1, 2)),
        4 => J::Null,
        5 => J::Array((0..r.below(3)).map(|_| gen_param(r, depth - 1)).collect()),
        _ => {
            let mut m = serde_json::Map::new();
            for _ in 0..r.below(3) {
                m.insert(r.pick(&["a", "b", "type", "value"]).to_string(), gen_param(r, depth - 1));
            }
            J::Object(m)
        }
    }
}
fn json_to_value(j: &J) -> Value {
    // how a caller of the Rust API passes the same parameter (json_to_query_value's reading)
    match j {
        J::Null => Value::Null,
        J::Bool(b) => Value::Bool(*b),
        J::Number(n) => n.as_i64().map(Value::Int).unwrap_or_else(|| Value::Float(n.as_f64().unwrap())),
        J::String(s) => Value::String(s.clone()),
        J::Array(a) => Value::List(a.iter().map(json_to_value).collect()),
        J::Object(m) => Value::Map(m.iter().map(|(k, v)| (k.clone(), json_to_value(v))).collect()),
    }
}

const SETUP: &[&str] = &[
    "CREATE (:P {k: 1, name: 'ann', score: 1.5, tags: ['a', 'b'], ok: true})-[:KNOWS {since: 2001, w: 0.25}]->(:P:Q {k: 2, name: 'é'})",
    "CREATE (:R {k: 3})",
    "MATCH (a:P {k: 2}), (b:R) CREATE (a)-[:LIKES]->(b)",
];
const READS: &[&str] = &[
    "MATCH (n) RETURN n",
    "MATCH (n) RETURN id(n) AS i, labels(n) AS l, properties(n) AS p, n.k AS k, n.missing AS z",
    "MATCH (a)-[r]->(b) RETURN r, type(r) AS t, a.k AS a, b.k AS b",
    "MATCH (n) RETURN collect(n) AS ns, count(*) AS c, sum(n.k) AS s, avg(n.k) AS av",
    "MATCH (n:P) RETURN {node: n, k: n.k, l: [n, n.name]} AS m ORDER BY n.k",
    "MATCH (n) WHERE n.k > 1 RETURN n.k AS k, n.name AS name ORDER BY k DESC",
    "MATCH (a)-[r:KNOWS]->(b) RETURN properties(r) AS p, r.since AS s, r.w AS w",
    "MATCH (n) RETURN n.k AS k, n.k / 0 AS d, n.k * 1.0 / 0.0 AS f, toFloat(n.k) / 0.0 AS g",
    "UNWIND [1, 2.0, 'x', null, [1], {a: 1}] AS x RETURN x, toString(x) AS s",
    "OPTIONAL MATCH (n:Nope) RETURN n, n.k AS k",
];
/// statements that fail somewhere: (text, through the write entry point?)
const ERRS: &[(&str, bool)] = &[
    ("RETURN", false),
    ("MATCH (n RETURN n", false),
    ("RETURN 1 +", false),
    ("RETURN nofunc(1)", false),
    ("RETURN x", false),
    ("MATCH (n) RETURN n.k AS a, n.k AS a", false),
    ("RETURN toInteger(true) AS x", false),
    ("UNWIND [1, true] AS x RETURN toInteger(x) AS y", false),
    ("RETURN [1,2]['a'] AS x", false),
    ("RETURN 9223372036854775808 AS x", false),
    ("MATCH (n) WITH n RETURN m", false),
    ("RETURN range(1, 100000000) AS r", false),
    ("CREATE (n:X {k: })", true),
    ("MATCH (n:P) DELETE n", true),
    ("CREATE (a)-[:T]-(b)-[", true),
    ("UNWIND [1, true] AS x CREATE (:E {v: toInteger(x)})", true),
    ("CREATE (n:X {v: [{a: 1}]})", true),
    ("MATCH (n:P) SET n = 5", true),
    ("MERGE (n)-[:T]-()", true),
    ("CREATE (n), (n)", true),
    ("FOREACH (x IN 5 | CREATE (:F))", true),
    ("CALL { CREATE (x:Z) } RETURN 1", true),
    ("RETURN \u{1F600}", false),
    ("RETURN 'unterminated", false),
    ("MATCH (n) RETURN n ORDER BY", false),
    ("RETURN 1 AS a UNION RETURN 2 AS b", false),
    ("CALL db.nope()", false),
];
/// write statements for the state-parity stream; `{k}` / `{x}` are replaced by small random integers.
/// Several report a change count of 0 although they write (MERGE .. ON MATCH SET on an existing entity,
/// SET to the same value, REMOVE of a missing property / label).
const STATE_WRITES: &[&str] = &[
    "MERGE (n:P {k: {k}}) ON MATCH SET n.seen = {x} ON CREATE SET n.made = {x}",
    "MERGE (n:P {k: {k}}) ON MATCH SET n.seen = {x}",
    "MERGE (n:P {k: {k}})",
    "MATCH (a:P {k: 1}), (b:P {k: 2}) MERGE (a)-[r:KNOWS]->(b) ON MATCH SET r.w = {x}",
    "MATCH (a:P {k: {k}}), (b:R) MERGE (a)-[r:LIKES]->(b) ON CREATE SET r.w = {x} ON MATCH SET r.again = {x}",
    "MATCH (n:P) SET n.name = n.name",
    "MATCH (n:P {k: {k}}) SET n.score = {x}",
    "MATCH (n:P {k: {k}}) REMOVE n.missing",
    "MATCH (n:P {k: {k}}) REMOVE n.score",
    "MATCH (n:Nope) SET n.x = {x}",
    "MATCH (n:P {k: {k}}) SET n:Extra",
    "MATCH (n:P {k: {k}}) REMOVE n:Extra",
    "MATCH (n:P {k: {k}}) REMOVE n:NeverSet",
    "MATCH (n:P {k: {k}}) SET n += {}",
    "MATCH (n:P {k: {k}}) SET n += {extra: {x}}",
    "CREATE (:T {k: {k}, v: {x}})",
    "MATCH (n:T {k: {k}}) DETACH DELETE n",
    "MATCH (n:T) WHERE n.k = {k} DELETE n",
    "FOREACH (i IN [] | CREATE (:Never))",
    "FOREACH (i IN [{x}] | MERGE (:F {i: i}))",
    "MATCH (n:P {k: {k}}) SET n.seen = null",
    "UNWIND [] AS u CREATE (:Never {u: u})",
    "RETURN 1 AS x UNION RETURN 2 AS x UNION MERGE (m:U {k: {k}}) ON MATCH SET m.hit = {x} RETURN m.k AS x",
];
const STATE_DUMP: &[&str] = &[
    "MATCH (n) RETURN labels(n) AS l, properties(n) AS p",
    "MATCH (a)-[r]->(b) RETURN a.k AS a, type(r) AS t, b.k AS b, properties(r) AS p",
];

const SYNTAX_WORDS: &[&str] = &["syntax", "parse", "unexpected token", "unexpected character", "variablealreadybound", "variabletypeconflict"];
const OTHER_WORDS: &[&str] = &["storage format mismatch", "compatibility", "wal", "checkpoint", "io error", "permission denied", "disk full", "no such file", "database is closed"];

fn main() {
    let a = args();
    let mut r = Rng::new(a.seed);
    let mut cw = CaseWriter::new(&a.out, "Corr.C34", 100);
    let mut rep = Report::new(&a.out);
    let mut hist = std::collections::BTreeMap::<String, u64>::new();
    let mut nontrivial = std::collections::BTreeSet::<String>::new();
    let mut fails = 0u64;
    let mut bump = |h: &mut std::collections::BTreeMap<String, u64>, k: &str| *h.entry(k.to_string()).or_insert(0) += 1;

    // ---------- (a) classifier stream: 60 % of n
    let dir = scratch_dir().unwrap();
    let db = CDb::open(&dir.path().join("cls")).unwrap();
    let n_cls = a.n * 6 / 10;
    let corpus: Vec<(String, Vec<C>)> = vec![
        // the K-C34-exists-nested witness (CApi/Classifier_proofs.v w_exists)
        ("RETURN EXISTS { CALL { CREATE (x:Z) } RETURN 1 } AS e".into(), vec![C::Read(E::Exists(vec![C::CallSub(vec![C::Update(E::Leaf)]), C::Read(E::Leaf)]))]),
        ("RETURN EXISTS { MATCH (n) RETURN 1 UNION CREATE (x:Z) RETURN 1 } AS e".into(), vec![C::Read(E::Exists(vec![C::Read(E::Leaf), C::Read(E::Leaf), C::Union(vec![C::Update(E::Leaf), C::Read(E::Leaf)])]))]),
        ("CALL { CREATE (x:Z) } RETURN 1".into(), vec![C::CallSub(vec![C::Update(E::Leaf)]), C::Read(E::Leaf)]),
        ("FOREACH (i IN [1] | )".into(), vec![C::Foreach(E::Leaf, vec![])]),
        ("RETURN 1 AS x UNION CREATE (z:Z) RETURN 1 AS x".into(), vec![C::Read(E::Leaf), C::Union(vec![C::Update(E::Leaf), C::Read(E::Leaf)])]),
        ("RETURN 'CREATE (n) SET n.x = 1 DELETE n' AS c".into(), vec![C::Read(E::Leaf)]),
        // update only in the third / fourth UNION branch (flat clause list [A.., Union(B), Union(C), ..])
        ("RETURN 1 AS x UNION RETURN 2 AS x UNION CREATE (m:W {v: 3}) RETURN m.v AS x".into(), vec![C::Read(E::Leaf), C::Union(vec![C::Read(E::Leaf)]), C::Union(vec![C::Update(E::Leaf), C::Read(E::Leaf)])]),
        ("RETURN 1 AS x UNION ALL RETURN 2 AS x UNION ALL RETURN 3 AS x UNION ALL MATCH (n) SET n.p = 1 RETURN 4 AS x".into(), vec![C::Read(E::Leaf), C::Union(vec![C::Read(E::Leaf)]), C::Union(vec![C::Read(E::Leaf)]), C::Union(vec![C::Read(E::Leaf), C::Update(E::Leaf), C::Read(E::Leaf)])]),
        ("RETURN 1 AS x UNION RETURN 2 AS x UNION RETURN 3 AS x".into(), vec![C::Read(E::Leaf), C::Union(vec![C::Read(E::Leaf)]), C::Union(vec![C::Read(E::Leaf)])]),
        ("MATCH (n) CALL { CALL { FOREACH (i IN [1] | CREATE (:Z)) } } RETURN 1".into(), vec![C::Read(E::Leaf), C::CallSub(vec![C::CallSub(vec![C::Foreach(E::Leaf, vec![C::Update(E::Leaf)])])]), C::Read(E::Leaf)]),
    ];
    let mut unparsed = 0u64;
    for idx in 0..n_cls {
        let (text, q) = if idx < corpus.len() {
            corpus[idx].clone()
        } else {
            let mut g = G { r: &mut r, n: 0 };
            let wu = g.r.chance(1, 2);
            g.query(3, wu, true)
        };
        let parsed = match nervusdb_query::parse(&text) {
            Ok(p) => p,
            Err(e) => {
                unparsed += 1;
                bump(&mut hist, "cls:generator-statement-does-not-parse");
                if unparsed <= 3 {
                    rep.case(idx, json!({"unparsed": text, "error": e.to_string()}));
                }
                continue;
            }
        };
        let (clause_level, anywhere) = walk_q(&parsed);
        let rq = matches!(db.query(&text, Some("{\"p\": 1}")), Err(ref e) if e.message == REFUSED_BY_QUERY);
        let rw = matches!(db.execute_write(&text, Some("{\"p\": 1}")), Err(ref e) if e.message == REFUSED_BY_WRITE);
        cw.push(format!("KCls {} {} {} {}", coq_q(&q), coq_bool(rq), coq_bool(rw), coq_bool(anywhere)));
        bump(&mut hist, &format!("cls:update-anywhere={} clause-level={} refused_by_query={} refused_by_write={}", anywhere, clause_level, rq, rw));
        if anywhere {
            nontrivial.insert(text.clone());
        }
        if idx < 2 {
            rep.case(idx, json!({"statement": text, "refused_by_ndb_query": rq, "refused_by_ndb_execute_write": rw, "real_ast_has_update": anywhere}));
        }
        // direct: the read entry point refuses exactly the statements with an updating clause, the write one accepts exactly those
        if rq != anywhere || rw == anywhere {
            fails += 1;
            let known = anywhere && !clause_level && !rq && rw;
            bump(&mut hist, if known { "direct-failure:K-C34-exists-nested" } else { "direct-failure:unclassified" });
            rep.fail(
                idx,
                if known { Some("K-C34-exists-nested") } else { None },
                "read/write entry points disagree with \"the statement contains an updating clause\"",
                json!({"statement": text, "refused_by_ndb_query": rq, "refused_by_ndb_execute_write": rw, "update_anywhere": anywhere, "update_outside_expressions": clause_level}),
            );
        }
    }
    drop(db);

    // ---------- (b) values + (c) errors on identical databases
    let dir2 = scratch_dir().unwrap();
    let p1 = dir2.path().join("c");
    {
        let d = CDb::open(&p1).unwrap();
        for s in SETUP {
            d.execute_write(s, None).unwrap();
        }
        d.close().unwrap();
    }
    for ext in ["ndb", "wal"] {
        std::fs::copy(p1.with_extension(ext), dir2.path().join("r").with_extension(ext)).unwrap();
    }
    let cdb = CDb::open(&p1).unwrap();
    let rdb = nervusdb::Db::open(dir2.path().join("r")).unwrap();
    let n_val = a.n - n_cls;
    let mut value_cases = 0u64;
    for idx in 0..n_val {
        let gidx = n_cls + idx;
        let (text, pj): (String, J) = if idx < READS.len() {
            (READS[idx].to_string(), json!({}))
        } else if r.chance(1, 3) {
            ("RETURN $p AS v, [$p, $q] AS l".to_string(), json!({"p": gen_param(&mut r, 2), "q": gen_param(&mut r, 1)}))
        } else {
            (format!("RETURN {} AS v, {} AS w", gen_lit(&mut r, 2), gen_lit(&mut r, 1)), json!({}))
        };
        let mut params = Params::new();
        for (k, v) in pj.as_object().unwrap() {
            params.insert(k.clone(), json_to_value(v));
        }
        let snapshot = rdb.snapshot();
        let rust: Result<Vec<Vec<(String, Value)>>, String> = (|| {
            let p = nervusdb_query::prepare(&text).map_err(|e| e.to_string())?;
            let rows = p.execute_streaming(&snapshot, &params).collect::<Result<Vec<_>, _>>().map_err(|e| e.to_string())?;
            let mut out = vec![];
            for row in rows {
                let mut cols = vec![];
                for (k, v) in row.columns().iter().cloned() {
                    cols.push((k, v.reify(&snapshot).map_err(|e| e.to_string())?));
                }
                out.push(cols);
            }
            Ok(out)
        })();
        let c = cdb.query(&text, Some(&pj.to_string()));
        let input = json!({"statement": text, "params": pj});
        match (rust, c) {
            (Ok(rows), Ok(js)) => {
                let cj: J = serde_json::from_str(&js).unwrap();
                let crow = cj.as_array().unwrap();
                if crow.len() != rows.len() {
                    fails += 1;
                    rep.fail(gidx, None, "row counts differ between the C API and the Rust API", input);
                    continue;
                }
                bump(&mut hist, "val:statement-ok");
                for (cols, cr) in rows.iter().zip(crow) {
                    let co = cr.as_object().unwrap();
                    if co.len() != cols.len() {
                        fails += 1;
                        rep.fail(gidx, None, "column sets differ", input.clone());
                        continue;
                    }
                    for (k, v) in cols {
                        let Some(cv) = co.get(k) else {
                            fails += 1;
                            rep.fail(gidx, None, "column missing in the C API row", input.clone());
                            continue;
                        };
                        if let Some(term) = coq_value(v) {
                            cw.push(format!("KJson {} {}", term, coq_json(cv)));
                            value_cases += 1;
                        }
                        bump(&mut hist, &format!("val:kind:{}", match v { Value::Null => "null", Value::Bool(_) => "bool", Value::Int(_) => "int", Value::Float(f) => if f.is_finite() { "float" } else { "float-nonfinite" }, Value::String(_) => "string", Value::List(_) => "list", Value::Map(_) => "map", Value::Node(_) => "node", Value::Relationship(_) => "relationship", _ => "other" }));
                        if !matches!(v, Value::Null | Value::Bool(_)) {
                            nontrivial.insert(format!("{:?}", v));
                        }
                        let back = decode(cv);
                        if !val_eq(&back, v) {
                            fails += 1;
                            let class = if has_nonfinite(v) { Some("K-C34-nonfinite") } else if has_tagged_map(v) { Some("K-C34-tagged-map") } else if has_blob(v) { Some("K-C34-blob") } else { None };
                            bump(&mut hist, &format!("direct-failure:{}", class.unwrap_or("unclassified")));
                            rep.fail(gidx, class, "the value read back from the C API's JSON is not the value the Rust API returned", json!({"input": input, "column": k, "rust_value": format!("{:?}", v), "c_json": cv}));
                        }
                    }
                }
            }
            (Err(e1), Err(e2)) => {
                bump(&mut hist, "val:statement-error-both");
                if e1 != e2.message {
                    fails += 1;
                    rep.fail(gidx, None, "error messages differ", json!({"input": input, "rust": e1, "c": e2.message}));
                }
            }
            (x, y) => {
                fails += 1;
                rep.fail(gidx, None, "one API fails where the other succeeds", json!({"input": input, "rust": format!("{:?}", x.map(|r| r.len())), "c": format!("{:?}", y)}));
            }
        }
    }
    // (c) errors
    for (i, (text, write)) in ERRS.iter().enumerate() {
        let gidx = a.n + i;
        let snapshot = rdb.snapshot();
        let params = Params::new();
        // stage at which the Rust API fails
        let (stage, msg): (&str, Option<String>) = match nervusdb_query::prepare(text) {
            Err(e) => ("prepare", Some(e.to_string())),
            Ok(p) => {
                if *write {
                    let mut txn = rdb.begin_write();
                    match p.execute_mixed(&snapshot, &mut txn, &params) {
                        Err(e) => ("execute", Some(e.to_string())),
                        Ok(_) => ("ok", None), // not committed: the twin stays identical only if the C side is not run either
                    }
                } else {
                    match p.execute_streaming(&snapshot, &params).collect::<Result<Vec<_>, _>>() {
                        Err(e) => ("execute", Some(e.to_string())),
                        Ok(_) => ("ok", None),
                    }
                }
            }
        };
        if stage == "ok" && *write {
            bump(&mut hist, "err:write-statement-succeeds (skipped)");
            continue;
        }
        let c = if *write { cdb.execute_write(text, None).map(|_| ()) } else { cdb.query(text, None).map(|_| ()) };
        let input = json!({"statement": text, "entry": if *write { "ndb_execute_write / execute_mixed" } else { "ndb_query / execute_streaming" }});
        match (msg, c) {
            (None, Ok(())) => bump(&mut hist, "err:both-succeed"),
            (Some(m), Err(e)) => {
                bump(&mut hist, &format!("err:{}:cat{}", stage, e.category));
                nontrivial.insert(text.to_string());
                if m != e.message {
                    fails += 1;
                    rep.fail(gidx, None, "error messages differ", json!({"input": input, "rust": m, "c": e.message}));
                }
                let expected_cat = if stage == "prepare" { 1 } else { 2 };
                if e.category != expected_cat {
                    fails += 1;
                    let lower = m.to_lowercase();
                    let syn = SYNTAX_WORDS.iter().any(|w| lower.contains(w)) || lower.starts_with("expected ");
                    let oth = OTHER_WORDS.iter().any(|w| lower.contains(w));
                    // the category is derived from the message text: explained iff the keyword rule gives what was observed
                    let by_text = if syn { 1 } else if oth { -1 } else { 2 };
                    let known = by_text == e.category || (by_text == -1 && e.category >= 3);
                    bump(&mut hist, if known { "direct-failure:K-C34-errcat-text" } else { "direct-failure:unclassified" });
                    rep.fail(gidx, if known { Some("K-C34-errcat-text") } else { None }, "error category does not match the stage at which the Rust API fails (prepare = syntax/semantic, execute = execution)", json!({"input": input, "stage": stage, "message": m, "c_category": e.category}));
                }
            }
            (m, c) => {
                fails += 1;
                rep.fail(gidx, None, "one API fails where the other succeeds", json!({"input": input, "rust": m, "c": format!("{:?}", c)}));
            }
        }
    }
    // ---------- (d) state parity: the same write statements through ndb_execute_write and through
    // prepare / execute_mixed / commit on byte-identical databases; then both databases are read back
    drop(cdb);
    drop(rdb);
    let n_state = (a.n / 15).max(12);
    let mut state_cases = 0u64;
    for idx in 0..n_state {
        let gidx = a.n + ERRS.len() + idx;
        let d = scratch_dir().unwrap();
        let (pc, pr) = (d.path().join("c"), d.path().join("r"));
        {
            let x = CDb::open(&pc).unwrap();
            for s in SETUP {
                x.execute_write(s, None).unwrap();
            }
            x.close().unwrap();
        }
        for ext in ["ndb", "wal"] {
            std::fs::copy(pc.with_extension(ext), pr.with_extension(ext)).unwrap();
        }
        let len = 2 + r.below(5) as usize;
        let stmts: Vec<String> = (0..len)
            .map(|i| {
                let t = if idx == 0 && i < 2 { STATE_WRITES[0] } else { *r.pick(STATE_WRITES) };
                t.replace("{k}", &r.range(1, 3).to_string()).replace("{x}", &r.range(0, 9).to_string())
            })
            .collect();
        let cdb = CDb::open(&pc).unwrap();
        let rdb = nervusdb::Db::open(&pr).unwrap();
        let mut c_res = vec![];
        let mut r_res = vec![];
        for s in &stmts {
            c_res.push(cdb.execute_write(s, None).map_err(|e| e.message));
            let rr: Result<u32, String> = (|| {
                let p = nervusdb_query::prepare(s).map_err(|e| e.to_string())?;
                let snapshot = rdb.snapshot();
                let mut txn = rdb.begin_write();
                let (_rows, n) = p.execute_mixed(&snapshot, &mut txn, &Params::new()).map_err(|e| e.to_string())?;
                txn.commit().map_err(|e| e.to_string())?;
                Ok(n)
            })();
            r_res.push(rr);
        }
        cdb.close().unwrap();
        drop(rdb);
        let read_back = |p: &std::path::Path| -> Vec<Vec<String>> {
            let x = CDb::open(p).unwrap();
            let out = STATE_DUMP
                .iter()
                .map(|q| {
                    let js = x.query(q, None).unwrap_or_else(|e| format!("[\"error {}\"]", e.message));
                    let v: J = serde_json::from_str(&js).unwrap_or(J::Null);
                    let mut rows: Vec<String> = v.as_array().map(|a| a.iter().map(|r| r.to_string()).collect()).unwrap_or_default();
                    rows.sort();
                    rows
                })
                .collect();
            x.close().unwrap();
            out
        };
        let (dc, dr) = (read_back(&pc), read_back(&pr));
        state_cases += 1;
        for (s, c) in stmts.iter().zip(&c_res) {
            bump(&mut hist, &format!("state:{}:{}", s.split(' ').next().unwrap_or(""), match c { Ok(0) => "ok-count0", Ok(_) => "ok", Err(_) => "err" }));
        }
        nontrivial.insert(stmts.join("; "));
        if idx < 1 {
            rep.case(gidx, json!({"state_parity": stmts, "c_results": format!("{:?}", c_res), "rust_results": format!("{:?}", r_res)}));
        }
        if c_res != r_res || dc != dr {
            fails += 1;
            bump(&mut hist, "direct-failure:unclassified");
            rep.fail(gidx, None, "after the same write statements the database written through ndb_execute_write differs from the one written through execute_mixed + commit (results, change counts or read-back)",
                json!({"statements": stmts, "c_results": format!("{:?}", c_res), "rust_results": format!("{:?}", r_res), "c_database": dc, "rust_database": dr}));
        }
    }
    cw.flush();
    rep.stats(json!({
        "evaluations": a.n + ERRS.len(),
        "corr_cases": cw.total,
        "distinct_nontrivial": nontrivial.len(),
        "rule": "60% classifier statements (grammar-generated, depth <= 3, updates nested in CALL{}, FOREACH, EXISTS{} and in any branch of 1-5-branch UNION / UNION ALL chains; non-trivial = contains an updating clause, distinct by text); 40% read statements / parameters returning every value kind (boundary ints, doubles incl. non-finite, unicode strings, nested lists/maps, tagged-looking maps, nodes, relationships; non-trivial = value other than null/bool, distinct by value); fixed list of failing statements for error parity; state parity: sequences of 2-6 write statements (many reporting a change count of 0 although they write: MERGE .. ON MATCH SET, SET to the same value, REMOVE of a missing property/label) through both write paths on identical databases, read back through ndb_query",
        "histogram": hist,
        "direct_failures": fails,
        "value_cases": value_cases,
        "state_parity_sequences": state_cases,
        "generator_unparsed": unparsed,
        "case_files": cw.files.iter().map(|p| p.to_string_lossy().to_string()).collect::<Vec<_>>(),
    }));
    rep.finish();
}
