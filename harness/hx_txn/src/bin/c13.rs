//! C13 — a failed statement has no effect.
//! Implementation runs: generated statement sequences (with statements failing at a chosen row,
//! refused DELETEs, syntax errors) in auto-commit mode and inside one explicit C API transaction
//! that is committed; the final database is dumped.
//! Direct oracle (model-free): the same database, same mode, running only the statements that
//! succeeded must give the same dump.  Correspondence: the Coq model M predicts the statuses and
//! the dump of every case (Corr/C13.v).
use hx_txn::txn::*;
use serde_json::json;
use vh::*;

fn gen_stmt(r: &mut Rng, keys: &[i64], init: &Init) -> Stmt {
    let connected: Vec<i64> = init.edges.iter().flat_map(|(a, b)| [init.nodes[*a].0, init.nodes[*b].0]).collect();
    match r.below(16) {
        0 | 1 => Stmt::Create(gen_rows(r, keys, true, true)),
        2 => Stmt::Create(gen_rows(r, keys, false, false)),
        3 | 4 => Stmt::Set(r.below(2) as u8, gen_rows(r, keys, true, false)),
        5 => Stmt::Set(r.below(2) as u8, gen_rows(r, keys, false, false)),
        6 | 7 => {
            // refused delete when the node is connected
            let k = if !connected.is_empty() && r.chance(3, 4) { *r.pick(&connected) } else { r.range(1, 7) };
            Stmt::Delete(false, k)
        }
        8 => Stmt::Delete(true, r.range(1, 7)),
        12 | 13 | 14 => {
            // several targets; plain DELETE is refused when any of them is connected (typically not the first one)
            let mut ks: Vec<i64> = keys.to_vec();
            for extra in 1..=7 {
                if !ks.contains(&extra) && r.chance(1, 4) {
                    ks.push(extra);
                }
            }
            for i in (1..ks.len()).rev() {
                ks.swap(i, r.below(i as u64 + 1) as usize);
            }
            ks.truncate(2 + r.below(3) as usize);
            if ks.is_empty() {
                ks.push(r.range(1, 7));
            }
            Stmt::DeleteIn(r.chance(1, 5), ks)
        }
        15 => Stmt::DeleteRel(if !connected.is_empty() && r.chance(4, 5) { *r.pick(&connected) } else { r.range(1, 7) }),
        9 => Stmt::Link(r.range(1, 7), r.range(1, 7)),
        10 => Stmt::Merge(r.range(1, 8)),
        _ => Stmt::Syntax(r.below(4) as u8),
    }
}

fn main() {
    let a = args();
    let mut r = Rng::new(a.seed);
    let mut cw = CaseWriter::new(&a.out, "Corr.C13", 100);
    let mut rep = Report::new(&a.out);
    let mut hist = std::collections::BTreeMap::<String, u64>::new();
    let mut nontrivial = std::collections::BTreeSet::<String>::new();
    let mut fails = 0u64;

    // corpus: the K-C13-buffer witness (Txn/Proofs.v w13), the same in auto-commit mode, a refused delete
    let w13 = Stmt::Create(vec![(1, Cell::Int(1)), (2, Cell::Int(2)), (3, Cell::Bad), (4, Cell::Int(4))]);
    let empty = Init { nodes: vec![], edges: vec![] };
    let conn = Init { nodes: vec![(1, Some(5)), (2, None), (3, None)], edges: vec![(0, 1)] };
    let corpus: Vec<(Init, bool, Vec<Stmt>)> = vec![
        (empty.clone(), true, vec![w13.clone()]),
        (empty.clone(), false, vec![w13.clone()]),
        (conn.clone(), true, vec![Stmt::Set(1, vec![(3, Cell::Int(9))]), Stmt::Delete(false, 1), Stmt::Syntax(0), Stmt::Link(3, 2)]),
        (conn.clone(), true, vec![Stmt::Set(0, vec![(1, Cell::Int(7)), (2, Cell::Bad), (3, Cell::Int(1))])]),
        (conn.clone(), false, vec![Stmt::Set(0, vec![(1, Cell::Int(7)), (2, Cell::Bad), (3, Cell::Int(1))]), Stmt::Delete(false, 2)]),
        // refused multi-target deletes inside a committed transaction must leave nothing behind (seeded gap C13/m1):
        // node 3 (unconnected) precedes the connected ones; DELETE r, a where a has a second relationship
        (Init { nodes: vec![(3, None), (1, Some(5)), (2, None)], edges: vec![(1, 2)] }, true, vec![Stmt::DeleteIn(false, vec![3, 1, 2]), Stmt::Set(1, vec![(3, Cell::Int(4))])]),
        (Init { nodes: vec![(1, None), (2, None), (3, None)], edges: vec![(0, 1), (1, 2)] }, true, vec![Stmt::DeleteRel(2), Stmt::DeleteIn(false, vec![1, 3])]),
        (Init { nodes: vec![(1, None), (2, None), (3, None)], edges: vec![(0, 1), (2, 1)] }, true, vec![Stmt::DeleteRel(2), Stmt::DeleteIn(true, vec![1, 3])]),
    ];
    for idx in 0..a.n {
        let (init, explicit, stmts) = if idx < corpus.len() {
            corpus[idx].clone()
        } else {
            let init = gen_init(&mut r);
            let keys: Vec<i64> = init.nodes.iter().map(|n| n.0).collect();
            let explicit = r.chance(3, 5);
            let n = 1 + r.below(4) as usize;
            let stmts: Vec<Stmt> = (0..n).map(|_| gen_stmt(&mut r, &keys, &init)).collect();
            (init, explicit, stmts)
        };
        let input = js_case(&init, explicit, &stmts);
        let (st, errs, d) = match run_case(&init, explicit, &stmts) {
            Ok(x) => x,
            Err(e) => {
                fails += 1;
                rep.fail(idx, None, &format!("harness could not run/dump the case: {}", e), input);
                continue;
            }
        };
        cw.push(coq_case(&init, explicit, &stmts, &st, &d));
        *hist.entry(if explicit { "mode:explicit-txn" } else { "mode:auto-commit" }.into()).or_insert(0) += 1;
        for (s, ok) in stmts.iter().zip(&st) {
            *hist.entry(format!("stmt:{}:{}", s.kind(), if *ok { "ok" } else { "err" })).or_insert(0) += 1;
        }
        for e in errs.iter().flatten() {
            *hist.entry(format!("error:{}", e.message.chars().take(48).collect::<String>())).or_insert(0) += 1;
        }
        let any_fail = st.iter().any(|b| !b);
        if any_fail {
            nontrivial.insert(format!("{:?}{:?}{:?}", init, explicit, stmts));
        }
        if idx < 3 {
            rep.case(idx, json!({"input": input, "status": st, "dump_nodes": d.0, "dump_edges": d.1}));
        }
        // direct oracle: the failed statements must not matter
        if any_fail {
            let kept: Vec<Stmt> = stmts.iter().zip(&st).filter(|(_, ok)| **ok).map(|(s, _)| s.clone()).collect();
            match run_case(&init, explicit, &kept) {
                Ok((st2, _, d2)) => {
                    if d2 != d || st2.iter().any(|b| !b) {
                        fails += 1;
                        let dirty = explicit && stmts.iter().zip(&st).any(|(s, ok)| !*ok && init.fails_dirty(s));
                        *hist.entry(format!("direct-failure:{}", if dirty { "K-C13-buffer" } else { "unclassified" })).or_insert(0) += 1;
                        rep.fail(
                            idx,
                            if dirty { Some("K-C13-buffer") } else { None },
                            "database after the run differs from the database obtained without the failed statement(s)",
                            json!({"input": input, "status": st, "dump_with_failed": {"nodes": d.0, "edges": d.1}, "dump_without_failed": {"nodes": d2.0, "edges": d2.1}}),
                        );
                    }
                }
                Err(e) => {
                    fails += 1;
                    rep.fail(idx, None, &format!("twin run failed: {}", e), input);
                }
            }
        }
    }
    cw.flush();
    rep.stats(json!({
        "evaluations": a.n,
        "distinct_nontrivial": nontrivial.len(),
        "rule": "sequences of 1-4 statements (UNWIND-CREATE / UNWIND-MATCH-SET with a per-row toInteger() that raises at a chosen row, refused DELETE of connected nodes (single target, several targets of which a later one is connected, DELETE r, a with a second relationship), DETACH DELETE, MATCH-CREATE relationship, MERGE, syntax errors) on databases of 0-4 nodes with parallel edges and self loops; 60% inside one explicit C API transaction committed afterwards, 40% auto-commit; non-trivial = at least one statement failed, distinct by (database, mode, statements)",
        "histogram": hist,
        "direct_failures": fails,
        "case_files": cw.files.iter().map(|p| p.to_string_lossy().to_string()).collect::<Vec<_>>(),
    }));
    rep.finish();
}
