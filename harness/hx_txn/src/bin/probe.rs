use hx_txn::*;
fn dump(db: &CDb) {
    println!("  nodes: {:?}", db.query("MATCH (n) RETURN id(n) AS i, labels(n) AS l, properties(n) AS p", None));
    println!("  rels:  {:?}", db.query("MATCH (a)-[r]->(b) RETURN id(a) AS a, id(b) AS b", None));
}
fn main() {
    let dir = scratch_dir().unwrap();
    let db = CDb::open(&dir.path().join("p")).unwrap();
    let mut txn: Option<CTxn> = None;
    for a in std::env::args().skip(1) {
        let (k, s) = a.split_at(2.min(a.len()));
        match k {
            "A:" => println!("auto {:?} -> {:?}", s, db.execute_write(s, None)),
            "Q:" => println!("query {:?} -> {:?}", s, db.query(s, None)),
            "B" => { txn = Some(db.begin().unwrap()); println!("begin"); }
            "T:" => println!("txn {:?} -> {:?}", s, txn.as_ref().unwrap().query(s, None)),
            "C" => println!("commit {:?}", txn.take().unwrap().commit()),
            "D" => dump(&db),
            _ => println!("?? {a}"),
        }
    }
}
