use hx_txn::*;
fn dump(db: &CDb) {
    println!("  nodes: {:?}", db.query("MATCH (n) RETURN labels(n) AS l, properties(n) AS p", None));
    println!("  rels:  {:?}", db.query("MATCH (a)-[r]->(b) RETURN a.k AS a, type(r) AS t, b.k AS b, properties(r) AS p", None));
}
fn main() {
    let dir = tempfile::tempdir().unwrap();
    let db = CDb::open(&dir.path().join("p")).unwrap();
    let args: Vec<String> = std::env::args().skip(1).collect();
    // usage: probe [A:stmt | B | T:stmt | C | R | D | Q:stmt | X (compact)]
    let mut txn: Option<CTxn> = None;
    for a in args {
        let (k, s) = a.split_at(2.min(a.len()));
        match k {
            "A:" => println!("auto {:?} -> {:?}", s, db.execute_write(s, None)),
            "Q:" => println!("query {:?} -> {:?}", s, db.query(s, None)),
            "B" => { txn = Some(db.begin().unwrap()); println!("begin"); }
            "T:" => println!("txn {:?} -> {:?}", s, txn.as_ref().unwrap().query(s, None)),
            "C" => println!("commit {:?}", txn.take().unwrap().commit()),
            "R" => println!("rollback {:?}", txn.take().unwrap().rollback()),
            "D" => dump(&db),
            "X" => println!("compact {:?}", db.compact()),
            _ => println!("?? {a}"),
        }
    }
}
