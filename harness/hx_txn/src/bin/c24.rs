//! C24 — transactions see their own writes.
//! Implementation runs: statement sequences inside ONE explicit C API transaction in which later
//! statements read / update / merge / delete what earlier ones wrote; committed; dumped.
//! Direct oracle (model-free; justified by theorem C24_spec_is_sequential): the same statements
//! run one by one in auto-commit mode on an identical database must give the same statuses and
//! dump.  Correspondence: the Coq model M predicts both runs (Corr/C24.v).
use hx_txn::txn::*;
use serde_json::json;
use vh::*;

fn gen_seq(r: &mut Rng, init: &Init) -> Vec<Stmt> {
    let mut keys: Vec<i64> = init.nodes.iter().map(|n| n.0).collect();
    let n = 2 + r.below(4) as usize;
    let mut out = vec![];
    for i in 0..n {
        let pickk = |r: &mut Rng, keys: &Vec<i64>| if !keys.is_empty() && r.chance(4, 5) { *r.pick(keys) } else { r.range(1, 9) };
        let s = match if i == 0 { r.below(4) } else { r.below(19) } {
            0 | 1 => {
                let rows = gen_rows(r, &[], false, false);
                keys.extend(rows.iter().map(|x| x.0));
                Stmt::Create(rows)
            }
            2 => {
                let k = r.range(1, 9);
                keys.push(k);
                Stmt::Merge(k)
            }
            3 | 11 => {
                let rows = gen_rows(r, &[], false, false);
                keys.extend(rows.iter().map(|x| x.0));
                Stmt::CreateNL(rows)
            }
            12 | 13 => Stmt::ScanSet(r.below(2) as u8, r.range(-5, 20)),
            14 | 15 => {
                // REMOVE of a label the database has never interned is skipped by the code (no buffered removal):
                // outside the model, so a fresh label is only removed after it was set on a non-empty scan
                let l = 1 + r.below(2) as u8;
                let set_before = !init.nodes.is_empty() && out.iter().any(|s| matches!(s, Stmt::ScanLabel(true, x) if *x == l));
                Stmt::ScanLabel(!(set_before && r.chance(1, 2)), l)
            }
            16 => {
                if r.chance(1, 3) {
                    Stmt::ScanDelete(r.chance(1, 2))
                } else {
                    Stmt::ScanLoop
                }
            }
            17 => Stmt::LabelSet(r.below(3) as u8, r.below(2) as u8, r.range(-5, 20)),
            18 => Stmt::ScanLabel(init.nodes.is_empty() || r.chance(1, 2), 0),
            4 | 5 => {
                let bad = r.chance(1, 8);
                Stmt::Set(r.below(2) as u8, gen_rows(r, &keys, bad, false))
            }
            6 => Stmt::Delete(false, pickk(r, &keys)),
            7 => Stmt::Delete(true, pickk(r, &keys)),
            8 | 9 => Stmt::Link(pickk(r, &keys), pickk(r, &keys)),
            _ => Stmt::Merge(pickk(r, &keys)),
        };
        out.push(s);
    }
    out
}

/// K-C24-snapshot on the input — what really fails today.  Inside one transaction
///  (a) a key-filtered statement (MATCH (n:L) WHERE n.k = .. / MERGE) reads a key that an earlier statement
///      wrote (created, updated, deleted, connected; DETACH DELETE also writes the neighbours), or runs after
///      an unlabelled-scan DELETE or a scan that sets / removes the label :L the filter relies on;
///  (b) a labelled scan MATCH (n:<label>) runs after the label was set / removed, after a node carrying it was
///      created, or after any deletion;
///  (c) a plain DELETE (safety check against the committed relationships) runs after relationships were
///      created or removed.
/// Statements driven by the unlabelled scan MATCH (n) after CREATEs (with or without labels), property and
/// label writes are NOT in the class: they see the staged nodes, and must keep doing so.
fn reads_earlier_write(init: &Init, stmts: &[Stmt]) -> bool {
    let mut written: Vec<i64> = vec![];
    let mut links: Vec<(i64, i64)> = init.edges.iter().map(|(a, b)| (init.nodes[*a].0, init.nodes[*b].0)).collect();
    let (mut wrote_all, mut edges_changed, mut deleted_any) = (false, false, false);
    let mut labels_touched: Vec<u8> = vec![];
    for s in stmts {
        let key_filtered = matches!(s, Stmt::Set(..) | Stmt::Delete(..) | Stmt::Link(..) | Stmt::Merge(_) | Stmt::DeleteIn(..) | Stmt::DeleteRel(_));
        if key_filtered && (wrote_all || s.reads().iter().any(|k| written.contains(k))) {
            return true;
        }
        if matches!(s, Stmt::Delete(false, _) | Stmt::ScanDelete(false)) && edges_changed {
            return true;
        }
        if let Stmt::LabelSet(l, _, _) = s {
            if labels_touched.contains(l) || deleted_any {
                return true;
            }
        }
        written.extend(s.writes());
        match s {
            Stmt::Link(a, b) => {
                links.push((*a, *b));
                edges_changed = true;
            }
            Stmt::ScanLoop => edges_changed = true,
            Stmt::Delete(detach, k) => {
                deleted_any = true;
                if *detach {
                    edges_changed = true;
                    for (a, b) in &links {
                        if a == k {
                            written.push(*b);
                        }
                        if b == k {
                            written.push(*a);
                        }
                    }
                }
            }
            Stmt::ScanDelete(detach) => {
                deleted_any = true;
                wrote_all = true;
                edges_changed |= *detach;
            }
            Stmt::ScanLabel(_, l) => {
                labels_touched.push(*l);
                if *l == 0 {
                    wrote_all = true; // the key-filtered statements match on :L
                }
            }
            Stmt::Create(_) | Stmt::Merge(_) => labels_touched.push(0), // a staged node carries :L
            _ => {}
        }
    }
    false
}

/// K-C24-label-order on the input: a label removed earlier in the transaction is added again
fn label_readded(stmts: &[Stmt]) -> bool {
    let mut removed: Vec<u8> = vec![];
    for s in stmts {
        match s {
            Stmt::ScanLabel(false, l) => removed.push(*l),
            Stmt::ScanLabel(true, l) if removed.contains(l) => return true,
            _ => {}
        }
    }
    false
}

fn main() {
    let a = args();
    let mut r = Rng::new(a.seed);
    let mut cw = CaseWriter::new(&a.out, "Corr.C24", 100);
    let mut rep = Report::new(&a.out);
    let mut hist = std::collections::BTreeMap::<String, u64>::new();
    let mut nontrivial = std::collections::BTreeSet::<String>::new();
    let mut fails = 0u64;

    let empty = Init { nodes: vec![], edges: vec![] };
    let two = Init { nodes: vec![(1, None), (2, Some(4))], edges: vec![] };
    let corpus: Vec<(Init, Vec<Stmt>)> = vec![
        // K-C24-snapshot witness (Txn/Proofs.v w24a, w24b): MATCH ... SET after CREATE
        (empty.clone(), vec![Stmt::Create(vec![(10, Cell::Int(0))]), Stmt::Set(1, vec![(10, Cell::Int(7))])]),
        // MERGE after CREATE / MERGE twice
        (empty.clone(), vec![Stmt::Merge(2), Stmt::Merge(2), Stmt::Create(vec![(3, Cell::Int(1))]), Stmt::Merge(3)]),
        // relationship created, then plain DELETE of its end must be refused
        (two.clone(), vec![Stmt::Link(1, 2), Stmt::Delete(false, 1)]),
        // delete, then update of the deleted node; independent statements
        (two.clone(), vec![Stmt::Delete(false, 1), Stmt::Set(0, vec![(1, Cell::Int(3))]), Stmt::Create(vec![(7, Cell::Int(7))])]),
        (two.clone(), vec![Stmt::Create(vec![(7, Cell::Int(7))]), Stmt::Set(1, vec![(2, Cell::Int(3))])]),
        // what works today and must keep working (seeded gaps m1, m2): a label never interned before is set and then
        // removed inside the transaction; a label-less node created earlier is found by MATCH (n)
        (two.clone(), vec![Stmt::ScanLabel(true, 1), Stmt::ScanLabel(false, 1)]),
        (empty.clone(), vec![Stmt::Create(vec![(1, Cell::Int(1))]), Stmt::ScanLabel(true, 2), Stmt::ScanLabel(false, 2), Stmt::ScanSet(1, 4)]),
        (two.clone(), vec![Stmt::CreateNL(vec![(7, Cell::Int(0))]), Stmt::ScanSet(1, 9), Stmt::ScanLoop]),
        (empty.clone(), vec![Stmt::CreateNL(vec![(1, Cell::Int(1)), (2, Cell::Int(2))]), Stmt::ScanLabel(true, 1), Stmt::ScanDelete(false)]),
        // K-C24-label-order witness
        (two.clone(), vec![Stmt::ScanLabel(false, 0), Stmt::ScanLabel(true, 0)]),
        // still K-C24-snapshot: a labelled scan on a label set earlier in the transaction
        (two.clone(), vec![Stmt::ScanLabel(true, 1), Stmt::LabelSet(1, 1, 9)]),
    ];
    let mut cases = 0usize;
    for idx in 0..a.n {
        let (init, stmts) = if idx < corpus.len() {
            corpus[idx].clone()
        } else {
            let init = gen_init(&mut r);
            let s = gen_seq(&mut r, &init);
            (init, s)
        };
        let input = js_case(&init, true, &stmts);
        let x = run_case(&init, true, &stmts);
        let y = run_case(&init, false, &stmts);
        let ((st, _errs, d), (st2, _errs2, d2)) = match (x, y) {
            (Ok(x), Ok(y)) => (x, y),
            (x, y) => {
                fails += 1;
                rep.fail(idx, None, &format!("harness could not run/dump the case: {:?} {:?}", x.err(), y.err()), input);
                continue;
            }
        };
        cw.push(coq_case(&init, true, &stmts, &st, &d));
        cw.push(coq_case(&init, false, &stmts, &st2, &d2));
        cases += 2;
        let known = reads_earlier_write(&init, &stmts);
        *hist.entry(format!("reads-earlier-write:{}", known)).or_insert(0) += 1;
        for (j, s) in stmts.iter().enumerate() {
            *hist.entry(format!("stmt:{}:{}", s.kind(), if st[j] { "ok" } else { "err" })).or_insert(0) += 1;
        }
        if known {
            nontrivial.insert(format!("{:?}{:?}", init, stmts));
        }
        if idx < 3 {
            rep.case(idx, json!({"input": input, "txn_status": st, "txn_dump": {"nodes": d.0, "edges": d.1}, "sequential_status": st2, "sequential_dump": {"nodes": d2.0, "edges": d2.1}}));
        }
        if d != d2 || st != st2 {
            fails += 1;
            // a statement failing after partial writes is C13's finding, not this one: only tag when no statement failed dirty
            let dirty = stmts.iter().zip(&st).any(|(s, ok)| !*ok && init.fails_dirty(s));
            let class = if known { Some("K-C24-snapshot") } else if dirty { Some("K-C13-buffer-in-C24") } else if label_readded(&stmts) { Some("K-C24-label-order") } else { None };
            *hist.entry(format!("direct-failure:{}", class.unwrap_or("unclassified"))).or_insert(0) += 1;
            rep.fail(
                idx,
                class,
                "the transaction's result differs from running its statements one after the other",
                json!({"input": input, "txn_status": st, "sequential_status": st2, "txn_dump": {"nodes": d.0, "edges": d.1}, "sequential_dump": {"nodes": d2.0, "edges": d2.1}}),
            );
        }
    }
    cw.flush();
    rep.stats(json!({
        "evaluations": a.n,
        "corr_cases": cases,
        "distinct_nontrivial": nontrivial.len(),
        "rule": "sequences of 2-5 statements inside one explicit C API transaction (first statement creates, with or without a label; later ones SET / DELETE / DETACH DELETE / connect / MERGE keys written earlier with probability 4/5, or are driven by the unlabelled scan MATCH (n): SET property, SET / REMOVE a label never interned before, CREATE relationship, DELETE; or by a labelled scan) on databases of 0-4 nodes; each sequence is also run statement by statement in auto-commit mode on an identical database; non-trivial = some statement reads a key written earlier in the same transaction, distinct by (database, statements)",
        "histogram": hist,
        "direct_failures": fails,
        "case_files": cw.files.iter().map(|p| p.to_string_lossy().to_string()).collect::<Vec<_>>(),
    }));
    rep.finish();
}
