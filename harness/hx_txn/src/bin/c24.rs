//! C24 — transactions see their own writes.
//! Implementation runs: statement sequences inside ONE explicit C API transaction in which later
//! statements read / update / merge / delete what earlier ones wrote; committed; dumped.
//! Direct oracle (model-free; justified by theorem C24_spec_is_sequential): the same statements
//! run one by one in auto-commit mode on an identical database must give the same statuses and
//! dump.  Correspondence: the Coq model M predicts both runs (Corr/C24.v).
use hx_txn::txn::*;
use serde_json::json;
use vh::*;

fn gen_seq(r: &mut Rng, init: &Init) -> Vec<Stmt> {
    let mut keys: Vec<i64> = init.nodes.iter().map(|n| n.0).collect();
    let n = 2 + r.below(4) as usize;
    let mut out = vec![];
    for i in 0..n {
        let pickk = |r: &mut Rng, keys: &Vec<i64>| if !keys.is_empty() && r.chance(4, 5) { *r.pick(keys) } else { r.range(1, 9) };
        let s = match if i == 0 { r.below(3) } else { r.below(11) } {
            0 | 1 => {
                let rows = gen_rows(r, &[], false, false);
                keys.extend(rows.iter().map(|x| x.0));
                Stmt::Create(rows)
            }
            2 => {
                let k = r.range(1, 9);
                keys.push(k);
                Stmt::Merge(k)
            }
            3 | 4 | 5 => {
                let bad = r.chance(1, 8);
                Stmt::Set(r.below(2) as u8, gen_rows(r, &keys, bad, false))
            }
            6 => Stmt::Delete(false, pickk(r, &keys)),
            7 => Stmt::Delete(true, pickk(r, &keys)),
            8 | 9 => Stmt::Link(pickk(r, &keys), pickk(r, &keys)),
            _ => Stmt::Merge(pickk(r, &keys)),
        };
        out.push(s);
    }
    out
}

/// K-C24-snapshot on the input: a statement reads (MATCH/MERGE filter) a key that an earlier
/// statement of the same transaction wrote (created, updated, deleted or connected).  DETACH DELETE
/// also writes the neighbours of the deleted node (it removes their relationships): neighbours in
/// the initial database or through relationships created earlier in the transaction.
fn reads_earlier_write(init: &Init, stmts: &[Stmt]) -> bool {
    let mut written: Vec<i64> = vec![];
    let mut links: Vec<(i64, i64)> = init.edges.iter().map(|(a, b)| (init.nodes[*a].0, init.nodes[*b].0)).collect();
    for s in stmts {
        if s.reads().iter().any(|k| written.contains(k)) {
            return true;
        }
        written.extend(s.writes());
        match s {
            Stmt::Link(a, b) => links.push((*a, *b)),
            Stmt::Delete(true, k) => {
                for (a, b) in &links {
                    if a == k {
                        written.push(*b);
                    }
                    if b == k {
                        written.push(*a);
                    }
                }
            }
            _ => {}
        }
    }
    false
}

fn main() {
    let a = args();
    let mut r = Rng::new(a.seed);
    let mut cw = CaseWriter::new(&a.out, "Corr.C24", 100);
    let mut rep = Report::new(&a.out);
    let mut hist = std::collections::BTreeMap::<String, u64>::new();
    let mut nontrivial = std::collections::BTreeSet::<String>::new();
    let mut fails = 0u64;

    let empty = Init { nodes: vec![], edges: vec![] };
    let two = Init { nodes: vec![(1, None), (2, Some(4))], edges: vec![] };
    let corpus: Vec<(Init, Vec<Stmt>)> = vec![
        // K-C24-snapshot witness (Txn/Proofs.v w24a, w24b): MATCH ... SET after CREATE
        (empty.clone(), vec![Stmt::Create(vec![(10, Cell::Int(0))]), Stmt::Set(1, vec![(10, Cell::Int(7))])]),
        // MERGE after CREATE / MERGE twice
        (empty.clone(), vec![Stmt::Merge(2), Stmt::Merge(2), Stmt::Create(vec![(3, Cell::Int(1))]), Stmt::Merge(3)]),
        // relationship created, then plain DELETE of its end must be refused
        (two.clone(), vec![Stmt::Link(1, 2), Stmt::Delete(false, 1)]),
        // delete, then update of the deleted node; independent statements
        (two.clone(), vec![Stmt::Delete(false, 1), Stmt::Set(0, vec![(1, Cell::Int(3))]), Stmt::Create(vec![(7, Cell::Int(7))])]),
        (two.clone(), vec![Stmt::Create(vec![(7, Cell::Int(7))]), Stmt::Set(1, vec![(2, Cell::Int(3))])]),
    ];
    let mut cases = 0usize;
    for idx in 0..a.n {
        let (init, stmts) = if idx < corpus.len() {
            corpus[idx].clone()
        } else {
            let init = gen_init(&mut r);
            let s = gen_seq(&mut r, &init);
            (init, s)
        };
        let input = js_case(&init, true, &stmts);
        let x = run_case(&init, true, &stmts);
        let y = run_case(&init, false, &stmts);
        let ((st, _errs, d), (st2, _errs2, d2)) = match (x, y) {
            (Ok(x), Ok(y)) => (x, y),
            (x, y) => {
                fails += 1;
                rep.fail(idx, None, &format!("harness could not run/dump the case: {:?} {:?}", x.err(), y.err()), input);
                continue;
            }
        };
        cw.push(coq_case(&init, true, &stmts, &st, &d));
        cw.push(coq_case(&init, false, &stmts, &st2, &d2));
        cases += 2;
        let known = reads_earlier_write(&init, &stmts);
        *hist.entry(format!("reads-earlier-write:{}", known)).or_insert(0) += 1;
        for (j, s) in stmts.iter().enumerate() {
            *hist.entry(format!("stmt:{}:{}", s.kind(), if st[j] { "ok" } else { "err" })).or_insert(0) += 1;
        }
        if known {
            nontrivial.insert(format!("{:?}{:?}", init, stmts));
        }
        if idx < 3 {
            rep.case(idx, json!({"input": input, "txn_status": st, "txn_dump": {"nodes": d.0, "edges": d.1}, "sequential_status": st2, "sequential_dump": {"nodes": d2.0, "edges": d2.1}}));
        }
        if d != d2 || st != st2 {
            fails += 1;
            // a statement failing after partial writes is C13's finding, not this one: only tag when no statement failed dirty
            let dirty = stmts.iter().zip(&st).any(|(s, ok)| !*ok && init.fails_dirty(s));
            let class = if known && !dirty { Some("K-C24-snapshot") } else if dirty && !known { Some("K-C13-buffer-in-C24") } else if known { Some("K-C24-snapshot") } else { None };
            *hist.entry(format!("direct-failure:{}", class.unwrap_or("unclassified"))).or_insert(0) += 1;
            rep.fail(
                idx,
                class,
                "the transaction's result differs from running its statements one after the other",
                json!({"input": input, "txn_status": st, "sequential_status": st2, "txn_dump": {"nodes": d.0, "edges": d.1}, "sequential_dump": {"nodes": d2.0, "edges": d2.1}}),
            );
        }
    }
    cw.flush();
    rep.stats(json!({
        "evaluations": a.n,
        "corr_cases": cases,
        "distinct_nontrivial": nontrivial.len(),
        "rule": "sequences of 2-5 statements inside one explicit C API transaction (first statement creates; later ones SET / DELETE / DETACH DELETE / connect / MERGE keys written earlier with probability 4/5) on databases of 0-4 nodes; each sequence is also run statement by statement in auto-commit mode on an identical database; non-trivial = some statement reads a key written earlier in the same transaction, distinct by (database, statements)",
        "histogram": hist,
        "direct_failures": fails,
        "case_files": cw.files.iter().map(|p| p.to_string_lossy().to_string()).collect::<Vec<_>>(),
    }));
    rep.finish();
}
