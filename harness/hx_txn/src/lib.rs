//! Shared glue for the Txn / CApi / Parser harness binaries: a thin safe wrapper over the
//! `extern "C"` API of nervusdb-capi (linked as a Rust library).
use ndb_capi::*;
use std::ffi::{CStr, CString};
use std::os::raw::c_char;
use std::ptr;

pub struct CDb {
    pub db: *mut ndb_db_t,
}

/// scratch directory for one database: tmpfs when available (fsync-heavy commits; durability is not
/// the subject of these checks), the system temp dir otherwise
pub fn scratch_dir() -> std::io::Result<tempfile::TempDir> {
    let shm = std::path::Path::new("/dev/shm");
    if shm.is_dir() {
        if let Ok(d) = tempfile::Builder::new().prefix("hx_txn").tempdir_in(shm) {
            return Ok(d);
        }
    }
    tempfile::tempdir()
}

#[derive(Debug, Clone, PartialEq, Eq)]
pub struct CErr {
    pub code: i32,
    pub category: i32,
    pub message: String,
}

pub fn last_error(code: i32) -> CErr {
    let n = ndb_last_error_message(ptr::null_mut(), 0);
    let mut buf = vec![0 as c_char; n + 1];
    ndb_last_error_message(buf.as_mut_ptr(), buf.len());
    let message = unsafe { CStr::from_ptr(buf.as_ptr()) }.to_string_lossy().to_string();
    CErr { code, category: ndb_last_error_category(), message }
}

fn cs(s: &str) -> Result<CString, CErr> {
    CString::new(s).map_err(|_| CErr { code: -1, category: -1, message: "interior NUL".into() })
}

impl CDb {
    pub fn open(path: &std::path::Path) -> Result<CDb, CErr> {
        let p = cs(&path.to_string_lossy())?;
        let mut db: *mut ndb_db_t = ptr::null_mut();
        let rc = ndb_open(p.as_ptr(), &mut db);
        if rc != NDB_OK {
            return Err(last_error(rc));
        }
        Ok(CDb { db })
    }
    /// ndb_query: JSON text of the rows
    pub fn query(&self, cypher: &str, params: Option<&str>) -> Result<String, CErr> {
        let q = cs(cypher)?;
        let p = match params { Some(p) => Some(cs(p)?), None => None };
        let mut res: *mut ndb_result_t = ptr::null_mut();
        let rc = ndb_query(self.db, q.as_ptr(), p.as_ref().map_or(ptr::null(), |c| c.as_ptr()), &mut res);
        if rc != NDB_OK {
            return Err(last_error(rc));
        }
        let mut js: *mut c_char = ptr::null_mut();
        let rc = ndb_result_to_json(res, &mut js);
        if rc != NDB_OK {
            ndb_result_free(res);
            return Err(last_error(rc));
        }
        let out = unsafe { CStr::from_ptr(js) }.to_string_lossy().to_string();
        ndb_string_free(js);
        ndb_result_free(res);
        Ok(out)
    }
    pub fn execute_write(&self, cypher: &str, params: Option<&str>) -> Result<u32, CErr> {
        let q = cs(cypher)?;
        let p = match params { Some(p) => Some(cs(p)?), None => None };
        let mut n: u32 = 0;
        let rc = ndb_execute_write(self.db, q.as_ptr(), p.as_ref().map_or(ptr::null(), |c| c.as_ptr()), &mut n);
        if rc != NDB_OK {
            return Err(last_error(rc));
        }
        Ok(n)
    }
    pub fn begin(&self) -> Result<CTxn, CErr> {
        let mut t: *mut ndb_txn_t = ptr::null_mut();
        let rc = ndb_begin_write(self.db, &mut t);
        if rc != NDB_OK {
            return Err(last_error(rc));
        }
        Ok(CTxn { t })
    }
    pub fn compact(&self) -> Result<(), CErr> {
        let rc = ndb_compact(self.db);
        if rc != NDB_OK { Err(last_error(rc)) } else { Ok(()) }
    }
    pub fn close(self) -> Result<(), CErr> {
        let rc = ndb_close(self.db);
        if rc != NDB_OK { Err(last_error(rc)) } else { Ok(()) }
    }
}

pub struct CTxn {
    pub t: *mut ndb_txn_t,
}
impl CTxn {
    pub fn query(&self, cypher: &str, params: Option<&str>) -> Result<(), CErr> {
        let q = cs(cypher)?;
        let p = match params { Some(p) => Some(cs(p)?), None => None };
        let rc = ndb_txn_query(self.t, q.as_ptr(), p.as_ref().map_or(ptr::null(), |c| c.as_ptr()));
        if rc != NDB_OK { Err(last_error(rc)) } else { Ok(()) }
    }
    pub fn commit(self) -> Result<(), CErr> {
        let rc = ndb_txn_commit(self.t);
        if rc != NDB_OK { Err(last_error(rc)) } else { Ok(()) }
    }
    pub fn rollback(self) -> Result<(), CErr> {
        let rc = ndb_txn_rollback(self.t);
        if rc != NDB_OK { Err(last_error(rc)) } else { Ok(()) }
    }
}

// =====================================================================================
// Txn statement family shared by c13 / c24 (mirrors coq/theories/Txn/Model.v `stmt`)
// =====================================================================================
pub mod txn {
    use super::*;
    use vh::*;

    #[derive(Clone, Debug, PartialEq)]
    pub enum Cell {
        Int(i64),
        Bad,
    }
    impl Cell {
        pub fn raises(&self) -> bool {
            !matches!(self, Cell::Int(_))
        }
    }
    /// per-row value expression: toInteger() raises on `true` (r[2] is always 1)
    pub const ROW_EXPR: &str = "toInteger(r[1]) + 0 * size(range(1, r[2]))";
    #[derive(Clone, Debug, PartialEq)]
    pub enum Stmt {
        Create(Vec<(i64, Cell)>),
        Set(u8, Vec<(i64, Cell)>),
        Delete(bool, i64),
        Link(i64, i64),
        Merge(i64),
        Syntax(u8),
        /// label-less nodes
        CreateNL(Vec<(i64, Cell)>),
        /// statements driven by the unlabelled scan MATCH (n)
        ScanSet(u8, i64),
        ScanLabel(bool, u8),
        ScanLoop,
        ScanDelete(bool),
        /// labelled scan MATCH (n:<label>) SET n.<p> = z
        LabelSet(u8, u8, i64),
        /// multi-target deletes (distinct keys) and DELETE r, a
        DeleteIn(bool, Vec<i64>),
        DeleteRel(i64),
    }
    /// label 0 is on every node of the initial databases; F1, F2 are never interned before the transaction
    pub const LABELS: [&str; 3] = ["L", "F1", "F2"];
    pub const PROPS: [&str; 2] = ["v", "w"];
    const BAD_TEXT: [&str; 4] = ["CREATE (:L {k: )", "MATCH (n:L) SET n.v = ", "CREATE (:L {k: 1}", "MATCH (n:L) WHERE n.k = 1 DELETE"];

    fn rows_text(rows: &[(i64, Cell)]) -> String {
        let items: Vec<String> = rows
            .iter()
            .map(|(k, c)| match c {
                Cell::Int(v) => format!("[{}, {}, 1]", k, v),
                Cell::Bad => format!("[{}, true, 1]", k),
            })
            .collect();
        format!("[{}]", items.join(", "))
    }
    impl Stmt {
        pub fn cypher(&self) -> String {
            match self {
                Stmt::Create(rows) => format!("UNWIND {} AS r CREATE (:L {{k: r[0], v: {}}})", rows_text(rows), ROW_EXPR),
                Stmt::Set(p, rows) => format!(
                    "UNWIND {} AS r MATCH (n:L) WHERE n.k = r[0] SET n.{} = {}",
                    rows_text(rows),
                    PROPS[*p as usize],
                    ROW_EXPR
                ),
                Stmt::Delete(detach, k) => format!("MATCH (n:L) WHERE n.k = {} {}DELETE n", k, if *detach { "DETACH " } else { "" }),
                Stmt::Link(a, b) => format!("MATCH (a:L), (b:L) WHERE a.k = {} AND b.k = {} CREATE (a)-[:R]->(b)", a, b),
                Stmt::Merge(k) => format!("MERGE (n:L {{k: {}}})", k),
                Stmt::Syntax(i) => BAD_TEXT[*i as usize % BAD_TEXT.len()].to_string(),
                Stmt::CreateNL(rows) => format!("UNWIND {} AS r CREATE ({{k: r[0], v: {}}})", rows_text(rows), ROW_EXPR),
                Stmt::ScanSet(p, z) => format!("MATCH (n) SET n.{} = {}", PROPS[*p as usize], z),
                Stmt::ScanLabel(true, l) => format!("MATCH (n) SET n:{}", LABELS[*l as usize]),
                Stmt::ScanLabel(false, l) => format!("MATCH (n) REMOVE n:{}", LABELS[*l as usize]),
                Stmt::ScanLoop => "MATCH (n) CREATE (n)-[:R]->(n)".to_string(),
                Stmt::ScanDelete(detach) => format!("MATCH (n) {}DELETE n", if *detach { "DETACH " } else { "" }),
                Stmt::LabelSet(l, p, z) => format!("MATCH (n:{}) SET n.{} = {}", LABELS[*l as usize], PROPS[*p as usize], z),
                Stmt::DeleteIn(detach, ks) => format!(
                    "MATCH (n:L) WHERE n.k IN [{}] {}DELETE n",
                    ks.iter().map(|k| k.to_string()).collect::<Vec<_>>().join(", "),
                    if *detach { "DETACH " } else { "" }
                ),
                Stmt::DeleteRel(k) => format!("MATCH ()-[r]->(a:L) WHERE a.k = {} DELETE r, a", k),
            }
        }
        pub fn coq(&self) -> String {
            let rows = |rows: &[(i64, Cell)]| {
                coq_list(rows, |(k, c)| {
                    format!("({}, {})", coq_z(*k as i128), match c { Cell::Int(v) => format!("CInt {}", coq_z(*v as i128)), Cell::Bad => "CBad".into() })
                })
            };
            match self {
                Stmt::Create(r) => format!("SCreate {}", rows(r)),
                Stmt::Set(p, r) => format!("SSet {} {}", coq_n(*p as u128), rows(r)),
                Stmt::Delete(d, k) => format!("SDelete {} {}", coq_bool(*d), coq_z(*k as i128)),
                Stmt::Link(a, b) => format!("SLink {} {}", coq_z(*a as i128), coq_z(*b as i128)),
                Stmt::Merge(k) => format!("SMerge {}", coq_z(*k as i128)),
                Stmt::Syntax(_) => "SSyntax".into(),
                Stmt::CreateNL(r) => format!("SCreateNL {}", rows(r)),
                Stmt::ScanSet(p, z) => format!("SScanSet {} {}", coq_n(*p as u128), coq_z(*z as i128)),
                Stmt::ScanLabel(a, l) => format!("SScanLabel {} {}", coq_bool(*a), coq_n(*l as u128)),
                Stmt::ScanLoop => "SScanLoop".into(),
                Stmt::ScanDelete(d) => format!("SScanDelete {}", coq_bool(*d)),
                Stmt::LabelSet(l, p, z) => format!("SLabelSet {} {} {}", coq_n(*l as u128), coq_n(*p as u128), coq_z(*z as i128)),
                Stmt::DeleteIn(d, ks) => format!("SDeleteIn {} {}", coq_bool(*d), coq_list(ks, |k| coq_z(*k as i128))),
                Stmt::DeleteRel(k) => format!("SDeleteRel {}", coq_z(*k as i128)),
            }
        }
        pub fn kind(&self) -> &'static str {
            match self {
                Stmt::Create(r) => if r.iter().any(|x| x.1.raises()) { "create-bad" } else { "create" },
                Stmt::Set(_, r) => if r.iter().any(|x| x.1.raises()) { "set-bad" } else { "set" },
                Stmt::Delete(true, _) => "detach-delete",
                Stmt::Delete(false, _) => "delete",
                Stmt::Link(..) => "link",
                Stmt::Merge(_) => "merge",
                Stmt::Syntax(_) => "syntax",
                Stmt::CreateNL(_) => "create-no-label",
                Stmt::ScanSet(..) => "scan-set",
                Stmt::ScanLabel(true, _) => "scan-set-label",
                Stmt::ScanLabel(false, _) => "scan-remove-label",
                Stmt::ScanLoop => "scan-create-rel",
                Stmt::ScanDelete(_) => "scan-delete",
                Stmt::LabelSet(..) => "label-scan-set",
                Stmt::DeleteIn(true, _) => "detach-delete-in",
                Stmt::DeleteIn(false, _) => "delete-in",
                Stmt::DeleteRel(_) => "delete-rel-and-node",
            }
        }
        /// keys the statement filters on (reads through MATCH / MERGE)
        pub fn reads(&self) -> Vec<i64> {
            match self {
                Stmt::Create(_) | Stmt::Syntax(_) | Stmt::CreateNL(_) => vec![],
                Stmt::ScanSet(..) | Stmt::ScanLabel(..) | Stmt::ScanLoop | Stmt::ScanDelete(_) | Stmt::LabelSet(..) => vec![],
                Stmt::Set(_, r) => r.iter().map(|x| x.0).collect(),
                Stmt::Delete(_, k) | Stmt::Merge(k) | Stmt::DeleteRel(k) => vec![*k],
                Stmt::DeleteIn(_, ks) => ks.clone(),
                Stmt::Link(a, b) => vec![*a, *b],
            }
        }
        /// keys of nodes the statement may write (create, update, delete, connect)
        pub fn writes(&self) -> Vec<i64> {
            match self {
                Stmt::Create(r) | Stmt::Set(_, r) | Stmt::CreateNL(r) => r.iter().map(|x| x.0).collect(),
                Stmt::ScanSet(..) | Stmt::ScanLabel(..) | Stmt::ScanLoop | Stmt::ScanDelete(_) | Stmt::LabelSet(..) => vec![],
                Stmt::Delete(_, k) | Stmt::Merge(k) | Stmt::DeleteRel(k) => vec![*k],
                Stmt::DeleteIn(_, ks) => ks.clone(),
                Stmt::Link(a, b) => vec![*a, *b],
                Stmt::Syntax(_) => vec![],
            }
        }
    }

    /// initial database: nodes (key, v) with distinct keys, edges by position
    #[derive(Clone, Debug)]
    pub struct Init {
        pub nodes: Vec<(i64, Option<i64>)>,
        pub edges: Vec<(usize, usize)>,
    }
    impl Init {
        pub fn coq_nodes(&self) -> String {
            coq_list(&self.nodes, |(k, v)| format!("({}, {})", coq_z(*k as i128), coq_opt(v, |z| coq_z(*z as i128))))
        }
        pub fn coq_edges(&self) -> String {
            coq_list(&self.edges, |(a, b)| format!("({}, {})", coq_n(*a as u128), coq_n(*b as u128)))
        }
        pub fn build(&self, db: &CDb) -> Result<(), CErr> {
            for (k, v) in &self.nodes {
                let q = match v {
                    Some(v) => format!("CREATE (:L {{k: {}, v: {}}})", k, v),
                    None => format!("CREATE (:L {{k: {}}})", k),
                };
                db.execute_write(&q, None)?;
            }
            for (a, b) in &self.edges {
                db.execute_write(&Stmt::Link(self.nodes[*a].0, self.nodes[*b].0).cypher(), None)?;
            }
            Ok(())
        }
        /// K-C13-buffer, evaluated on the input: does `s`, run against the committed database `self`
        /// (explicit transactions plan every statement against it), fail after a write?
        pub fn fails_dirty(&self, s: &Stmt) -> bool {
            match s {
                Stmt::Create(r) | Stmt::CreateNL(r) => r.iter().any(|x| x.1.raises()),
                Stmt::Set(_, r) => {
                    let has = |k: i64| self.nodes.iter().any(|n| n.0 == k);
                    let mut wrote = false;
                    for (k, c) in r {
                        if !has(*k) {
                            continue;
                        }
                        match c {
                            Cell::Bad => return wrote,
                            Cell::Int(_) => wrote = true,
                        }
                    }
                    false
                }
                _ => false,
            }
        }
    }

    pub fn gen_init(r: &mut Rng) -> Init {
        let n = r.below(5) as usize;
        let mut keys: Vec<i64> = vec![1, 2, 3, 4, 5, 6];
        let mut nodes = vec![];
        for _ in 0..n {
            let i = r.below(keys.len() as u64) as usize;
            let k = keys.remove(i);
            nodes.push((k, if r.chance(1, 2) { Some(r.range(-3, 9)) } else { None }));
        }
        let mut edges = vec![];
        if n > 0 {
            for _ in 0..r.below(4) {
                edges.push((r.below(n as u64) as usize, r.below(n as u64) as usize));
            }
        }
        Init { nodes, edges }
    }

    pub type Dump = (Vec<(i64, Vec<u8>, Vec<(u8, i64)>)>, Vec<(i64, i64)>);

    /// canonical dump through ndb_query: identities erased, relationships with both ends alive
    pub fn dump(db: &CDb) -> Result<Dump, String> {
        let js = db.query("MATCH (n) RETURN id(n) AS i, labels(n) AS l, properties(n) AS p", None).map_err(|e| format!("dump nodes: {:?}", e))?;
        let v: serde_json::Value = serde_json::from_str(&js).map_err(|e| e.to_string())?;
        let mut ids = std::collections::BTreeMap::new();
        let mut nodes = vec![];
        for row in v.as_array().ok_or("rows")? {
            let id = row["i"].as_i64().ok_or("id")?;
            let mut labels = vec![];
            for l in row["l"].as_array().ok_or("labels")? {
                let name = l.as_str().ok_or("label")?;
                labels.push(LABELS.iter().position(|x| *x == name).ok_or(format!("unexpected label {}", name))? as u8);
            }
            labels.sort();
            let p = row["p"].as_object().ok_or("props")?;
            let k = p.get("k").and_then(|x| x.as_i64()).ok_or(format!("node without integer k: {}", row))?;
            let mut props = vec![];
            for (name, val) in p {
                if name == "k" {
                    continue;
                }
                let pi = PROPS.iter().position(|x| x == name).ok_or(format!("unexpected property {}", name))? as u8;
                props.push((pi, val.as_i64().ok_or(format!("non-integer property {}", row))?));
            }
            props.sort();
            ids.insert(id, k);
            nodes.push((k, labels, props));
        }
        let js = db.query("MATCH (a)-[r]->(b) RETURN id(a) AS a, id(b) AS b, type(r) AS t", None).map_err(|e| format!("dump rels: {:?}", e))?;
        let v: serde_json::Value = serde_json::from_str(&js).map_err(|e| e.to_string())?;
        let mut edges = vec![];
        for row in v.as_array().ok_or("rows")? {
            let (a, b) = (row["a"].as_i64().ok_or("a")?, row["b"].as_i64().ok_or("b")?);
            if let (Some(ka), Some(kb)) = (ids.get(&a), ids.get(&b)) {
                edges.push((*ka, *kb));
            }
        }
        nodes.sort();
        edges.sort();
        Ok((nodes, edges))
    }
    pub fn coq_dump(d: &Dump) -> (String, String) {
        (
            coq_list(&d.0, |(k, ls, ps)| {
                format!(
                    "({}, {}, {})",
                    coq_z(*k as i128),
                    coq_list(ls, |l| coq_n(*l as u128)),
                    coq_list(ps, |(p, v)| format!("({}, {})", coq_n(*p as u128), coq_z(*v as i128)))
                )
            }),
            coq_list(&d.1, |(a, b)| format!("({}, {})", coq_z(*a as i128), coq_z(*b as i128))),
        )
    }

    /// run `stmts` on a fresh database built from `init`; explicit = one C API transaction, committed.
    /// Returns per-statement success and the final dump.
    pub fn run_case(init: &Init, explicit: bool, stmts: &[Stmt]) -> Result<(Vec<bool>, Vec<Option<CErr>>, Dump), String> {
        let dir = scratch_dir().map_err(|e| e.to_string())?;
        let db = CDb::open(&dir.path().join("d")).map_err(|e| format!("{:?}", e))?;
        init.build(&db).map_err(|e| format!("init: {:?}", e))?;
        let mut st = vec![];
        let mut errs = vec![];
        if explicit {
            let t = db.begin().map_err(|e| format!("{:?}", e))?;
            for s in stmts {
                let r = t.query(&s.cypher(), None);
                st.push(r.is_ok());
                errs.push(r.err());
            }
            t.commit().map_err(|e| format!("commit: {:?}", e))?;
        } else {
            for s in stmts {
                let r = db.execute_write(&s.cypher(), None);
                st.push(r.is_ok());
                errs.push(r.err());
            }
        }
        let d = dump(&db)?;
        db.close().map_err(|e| format!("close: {:?}", e))?;
        Ok((st, errs, d))
    }

    pub fn coq_case(init: &Init, explicit: bool, stmts: &[Stmt], st: &[bool], d: &Dump) -> String {
        let (n, e) = coq_dump(d);
        format!(
            "{{| init_nodes := {}; init_edges := {}; explicit := {}; stmts := {}; impl_status := {}; impl_nodes := {}; impl_edges := {} |}}",
            init.coq_nodes(),
            init.coq_edges(),
            coq_bool(explicit),
            coq_list(stmts, |s| format!("({})", s.coq())),
            coq_list(st, |b| coq_bool(*b).to_string()),
            n,
            e
        )
    }
    pub fn js_case(init: &Init, explicit: bool, stmts: &[Stmt]) -> serde_json::Value {
        serde_json::json!({
            "init_nodes": init.nodes, "init_edges": init.edges, "explicit_txn": explicit,
            "statements": stmts.iter().map(|s| s.cypher()).collect::<Vec<_>>(),
        })
    }

    pub fn gen_rows(r: &mut Rng, keys: &[i64], bad: bool, allow_limit: bool) -> Vec<(i64, Cell)> {
        let n = 1 + r.below(4) as usize;
        let badpos = if bad { Some(r.below(n as u64) as usize) } else { None };
        (0..n)
            .map(|i| {
                let k = if !keys.is_empty() && r.chance(3, 4) { *r.pick(keys) } else { r.range(1, 9) };
                (k, if Some(i) == badpos { let _ = allow_limit; Cell::Bad } else { Cell::Int(r.range(-5, 20)) })
            })
            .collect()
    }
}
