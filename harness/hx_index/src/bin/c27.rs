//! C27 — ordered index key encoding: correspondence cases + direct search.
use nervusdb_storage::index::ordered_key::{encode_index_key, encode_ordered_value};
use nervusdb_storage::property::PropertyValue as PV;
use serde_json::json;
use std::cmp::Ordering;
use vh::*;

const F_BOUNDARY: &[u64] = &[
    0x0000_0000_0000_0000, // +0
    0x8000_0000_0000_0000, // -0
    0x0000_0000_0000_0001, // min subnormal
    0x8000_0000_0000_0001,
    0x000F_FFFF_FFFF_FFFF, // max subnormal
    0x0010_0000_0000_0000, // min normal
    0x8010_0000_0000_0000,
    0x3FF0_0000_0000_0000, // 1.0
    0xBFF0_0000_0000_0000, // -1.0
    0x3FEF_FFFF_FFFF_FFFF,
    0x3FF0_0000_0000_0001,
    0x7FEF_FFFF_FFFF_FFFF, // max
    0xFFEF_FFFF_FFFF_FFFF, // -max
    0x7FF0_0000_0000_0000, // +inf
    0xFFF0_0000_0000_0000, // -inf
    0x4340_0000_0000_0000, // 2^53
    0x7FF8_0000_0000_0000, // NaN (malformed stream)
    0xFFF0_0000_0000_0001, // NaN
];
const I_BOUNDARY: &[i64] = &[i64::MIN, i64::MIN + 1, -256, -255, -1, 0, 1, 255, 256, 65535, 65536, i64::MAX - 1, i64::MAX, 1 << 53, (1 << 53) + 1];

fn gen_float(r: &mut Rng) -> u64 {
    match r.below(4) {
        0 => *r.pick(F_BOUNDARY),
        1 => {
            // neighbour of a boundary value
            let b = *r.pick(F_BOUNDARY);
            b.wrapping_add(r.range(-2, 2) as u64)
        }
        2 => (r.next() & 0x800F_FFFF_FFFF_FFFF) | ((r.below(2047)) << 52), // any finite
        _ => r.next(),
    }
}
fn gen_int(r: &mut Rng) -> i64 {
    match r.below(3) {
        0 => *r.pick(I_BOUNDARY),
        1 => r.pick(I_BOUNDARY).wrapping_add(r.range(-3, 3)),
        _ => r.next() as i64,
    }
}
fn gen_bytes(r: &mut Rng) -> Vec<u8> {
    let n = r.below(6) as usize;
    (0..n)
        .map(|_| match r.below(5) {
            0 => 0u8,
            1 => 0xFF,
            2 => 1,
            3 => b'a' + r.below(3) as u8,
            _ => r.next() as u8,
        })
        .collect()
}
fn gen_str(r: &mut Rng) -> String {
    let n = r.below(6) as usize;
    (0..n)
        .map(|_| match r.below(6) {
            0 => '\0',
            1 => '\u{1}',
            2 => 'a',
            3 => 'b',
            4 => '\u{ff}',
            _ => char::from_u32(r.below(0x800) as u32).unwrap_or('x'),
        })
        .collect()
}
fn gen_val(r: &mut Rng, kind: u64) -> PV {
    match kind {
        0 => PV::Null,
        1 => PV::Bool(r.chance(1, 2)),
        2 => PV::Int(gen_int(r)),
        3 => PV::Float(f64::from_bits(gen_float(r))),
        4 => PV::String(gen_str(r)),
        5 => PV::DateTime(gen_int(r)),
        _ => PV::Blob(gen_bytes(r)),
    }
}
/// a value close to `v` (same kind) so that equal/adjacent pairs are common
fn mutate(r: &mut Rng, v: &PV) -> PV {
    match v {
        PV::Int(i) => PV::Int(i.wrapping_add(r.range(-1, 1))),
        PV::DateTime(i) => PV::DateTime(i.wrapping_add(r.range(-1, 1))),
        PV::Float(f) => {
            let b = f.to_bits();
            match r.below(3) {
                0 => PV::Float(f64::from_bits(b ^ (1 << 63))),
                1 => PV::Float(f64::from_bits(b.wrapping_add(r.range(-1, 1) as u64))),
                _ => v.clone(),
            }
        }
        PV::String(s) => {
            let mut s = s.clone();
            match r.below(3) {
                0 => s.push('\0'),
                1 => {
                    s.pop();
                }
                _ => s.push('a'),
            }
            PV::String(s)
        }
        PV::Blob(b) => {
            let mut b = b.clone();
            match r.below(3) {
                0 => b.push(0),
                1 => {
                    b.pop();
                }
                _ => b.push(0xFF),
            }
            PV::Blob(b)
        }
        other => other.clone(),
    }
}

fn coq_val(v: &PV) -> String {
    match v {
        PV::Null => "ONull".into(),
        PV::Bool(b) => format!("(OBool {})", coq_bool(*b)),
        PV::Int(i) => format!("(OInt {})", coq_z(*i as i128)),
        PV::Float(f) => format!("(OFloat {})", coq_n(f.to_bits() as u128)),
        PV::String(s) => format!("(OStr {})", coq_bytes(s.as_bytes())),
        PV::DateTime(i) => format!("(ODateTime {})", coq_z(*i as i128)),
        PV::Blob(b) => format!("(OBlob {})", coq_bytes(b)),
        _ => unreachable!(),
    }
}
fn js_val(v: &PV) -> serde_json::Value {
    match v {
        PV::Null => json!("null"),
        PV::Bool(b) => json!({"bool": b}),
        PV::Int(i) => json!({"int": i}),
        PV::Float(f) => json!({"float_bits": format!("{:#018x}", f.to_bits())}),
        PV::String(s) => json!({"str_bytes": s.as_bytes()}),
        PV::DateTime(i) => json!({"datetime": i}),
        PV::Blob(b) => json!({"blob": b}),
        _ => unreachable!(),
    }
}
fn kind(v: &PV) -> &'static str {
    match v {
        PV::Null => "null",
        PV::Bool(_) => "bool",
        PV::Int(_) => "int",
        PV::Float(_) => "float",
        PV::String(_) => "string",
        PV::DateTime(_) => "datetime",
        PV::Blob(_) => "blob",
        _ => "other",
    }
}
/// the implementation language's own comparison of two values of one kind
fn val_cmp(a: &PV, b: &PV) -> Option<Ordering> {
    match (a, b) {
        (PV::Null, PV::Null) => Some(Ordering::Equal),
        (PV::Bool(x), PV::Bool(y)) => Some(x.cmp(y)),
        (PV::Int(x), PV::Int(y)) => Some(x.cmp(y)),
        (PV::DateTime(x), PV::DateTime(y)) => Some(x.cmp(y)),
        (PV::Float(x), PV::Float(y)) => x.partial_cmp(y),
        (PV::String(x), PV::String(y)) => Some(x.as_bytes().cmp(y.as_bytes())),
        (PV::Blob(x), PV::Blob(y)) => Some(x.cmp(y)),
        _ => None,
    }
}
fn is_nan(v: &PV) -> bool {
    matches!(v, PV::Float(f) if f.is_nan())
}

fn main() {
    let a = args();
    let mut r = Rng::new(a.seed);
    let mut cw = CaseWriter::new(&a.out, "Corr.C27", 500);
    let mut rep = Report::new(&a.out);
    let mut hist = std::collections::BTreeMap::<String, u64>::new();
    let mut nontrivial = std::collections::BTreeSet::<(Vec<u8>, Vec<u8>)>::new();
    let mut fails = 0u64;

    // corpus first: the witnesses of repaired defects
    let corpus: Vec<(PV, PV)> = vec![
        (PV::Float(0.0), PV::Float(-0.0)),
        (PV::Float(-0.0), PV::Float(f64::from_bits(1))),
        (PV::String("a".into()), PV::String("a\0".into())),
        (PV::Int(-1), PV::Int(0)),
    ];
    let total = a.n;
    for idx in 0..total {
        let (va, vb) = if idx < corpus.len() {
            corpus[idx].clone()
        } else {
            // null and bool are nearly trivial: 1 in 16 each
            let k = match r.below(16) { 0 => 0, 1 => 1, x => 2 + (x % 5) };
            let va = gen_val(&mut r, k);
            let vb = match r.below(10) {
                0 => { let k2 = r.below(7); gen_val(&mut r, k2) } // other kind (prefix-freeness across kinds)
                1..=4 => mutate(&mut r, &va),
                _ => gen_val(&mut r, k),
            };
            (va, vb)
        };
        let ea = encode_ordered_value(&va);
        let eb = encode_ordered_value(&vb);
        let ec = ea.cmp(&eb);
        let vc = val_cmp(&va, &vb);
        let key = encode_index_key(7, &va, 9);
        *hist.entry(format!("{}/{}", kind(&va), kind(&vb))).or_insert(0) += 1;
        *hist.entry(format!("cmp:{:?}", vc)).or_insert(0) += 1;
        if is_nan(&va) || is_nan(&vb) {
            *hist.entry("malformed:nan".into()).or_insert(0) += 1;
        }
        if vc.is_some() && vc != Some(Ordering::Equal) {
            nontrivial.insert((ea.clone(), eb.clone()));
        }
        cw.push(format!(
            "{{| va := {}; vb := {}; impl_enc_a := {}; impl_enc_b := {}; impl_enc_cmp := {}; impl_val_cmp := {}; impl_key := {} |}}",
            coq_val(&va), coq_val(&vb), coq_bytes(&ea), coq_bytes(&eb), coq_cmp(ec),
            coq_opt(&vc, |o| coq_cmp(*o).to_string()), coq_bytes(&key)
        ));
        let input = json!({"a": js_val(&va), "b": js_val(&vb), "enc_a": ea, "enc_b": eb});
        if idx < 3 + corpus.len() {
            rep.case(idx, input.clone());
        }
        // direct search on the implementation: the property itself
        if !is_nan(&va) && !is_nan(&vb) {
            if let Some(o) = vc {
                if o != ec {
                    fails += 1;
                    rep.fail(idx, None, &format!("values compare {:?} but encodings compare {:?}", o, ec), input.clone());
                }
            }
            let proper_prefix = |x: &Vec<u8>, y: &Vec<u8>| y.len() > x.len() && y[..x.len()] == x[..];
            if proper_prefix(&ea, &eb) || proper_prefix(&eb, &ea) {
                fails += 1;
                rep.fail(idx, None, "one encoding is a proper prefix of the other", input.clone());
            }
            if vc.is_none() && ea == eb {
                fails += 1;
                rep.fail(idx, None, "values of different kinds share an encoding", input.clone());
            }
        }
    }
    cw.flush();
    rep.stats(json!({
        "evaluations": total,
        "distinct_nontrivial": nontrivial.len(),
        "rule": "pairs of values (boundary-heavy i64, f64 bit patterns incl. subnormals/±0/±inf/adjacent ulps, byte strings over {0,1,0xFF,a..c,random}); same kind 90%, mutated neighbour 40%; non-trivial = comparable and unequal, distinct by the pair of encodings",
        "histogram": hist,
        "direct_failures": fails,
        "case_files": cw.files.iter().map(|p| p.to_string_lossy().to_string()).collect::<Vec<_>>(),
    }));
    rep.finish();
}
