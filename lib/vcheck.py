"""Common machinery of /verif/bin/check.

A property check (checks/Cxx.py) supplies a SPEC dict; `run_check` then
  1. regenerates Gen/Consts.v from /repo (translator half of the tie),
  2. greps the Coq tree for forbidden constructs,
  3. builds the property's theorem file (full .vo build, per-property target),
  4. reads `Print Assumptions` of every property theorem and compares it with
     the allow-list,
  5. builds the Rust harness against /repo's working tree and runs it: the
     harness runs the implementation on generated inputs, tests the property
     on the implementation directly (the search for a failing input) and
     writes Coq case files holding the same inputs with the implementation's
     outputs,
  6. evaluates the model on those cases inside Coq (vm_compute) and collects
     the cases where model and implementation differ (correspondence half),
  7. decides: VIOLATION with a concrete failing input when the search found
     one outside the known findings; VIOLATION ... no-failing-input-found when
     a proof, the assumption allow-list, the generator or the correspondence
     no longer checks but no failing input was found; exit 0 otherwise,
  8. writes evidence/<id>.json.
"""
import concurrent.futures
import fcntl
import glob
import json
import os
import re
import shutil
import subprocess
import sys
import time

ROOT = os.path.dirname(os.path.dirname(os.path.abspath(__file__)))
COQ = os.path.join(ROOT, "coq")
HARNESS = os.path.join(ROOT, "harness")
OUT = os.path.join(ROOT, "out")
EVID = os.path.join(ROOT, "evidence")
REPO = os.environ.get("VERIF_REPO", "/repo")
GUARD = "nervusdb_verif"

ENV = dict(os.environ)
ENV.update({"CARGO_NET_OFFLINE": "true", "LC_ALL": "C"})

FORBIDDEN = re.compile(
    r"\b(Admitted|admit|Axiom|Axioms|Parameter|Parameters|Conjecture|Conjectures|Hypothesis|Hypotheses|Variable|Variables"
    r"|Unset\s+Guard\s+Checking|Unset\s+Positivity\s+Checking|Unset\s+Universe\s+Checking|bypass_check|Admit\s+Obligations|native_compute)\b"
)


def log(msg):
    sys.stderr.write("[check] %s\n" % msg)
    sys.stderr.flush()


def sh(cmd, cwd=None, timeout=None, env=None):
    """run, return (rc, combined output); rc 124 on timeout"""
    try:
        p = subprocess.run(cmd, cwd=cwd, env=env or ENV, stdout=subprocess.PIPE, stderr=subprocess.STDOUT,
                           timeout=timeout, shell=isinstance(cmd, str))
        out = p.stdout.decode("utf-8", "replace")
        rc = p.returncode
    except subprocess.TimeoutExpired as e:
        out = (e.stdout or b"").decode("utf-8", "replace") + "\n[timeout after %ss]" % timeout
        rc = 124
    out = "\n".join(l for l in out.splitlines() if "conda.cli.condarc" not in l)
    return rc, out


class Lock:
    """file lock shared by all processes working in /verif (exclusive for builds, shared for
    readers of the compiled .vo files)"""

    def __init__(self, name, shared=False):
        d = os.path.join(ROOT, "out")
        os.makedirs(d, exist_ok=True)
        self.path = os.path.join(d, name + ".lock")
        self.shared = shared

    def __enter__(self):
        self.f = open(self.path, "a")
        fcntl.flock(self.f, fcntl.LOCK_SH if self.shared else fcntl.LOCK_EX)

    def __exit__(self, *a):
        fcntl.flock(self.f, fcntl.LOCK_UN)
        self.f.close()


# ---------------------------------------------------------------- Coq side

def gen_consts():
    """regenerate Gen/Consts.v from REPO.  For an alternative repo (VERIF_REPO) the shared
    file is not rewritten: the constants are generated aside and must be identical."""
    if not ALT:
        rc, out = sh([sys.executable, os.path.join(ROOT, "gen", "consts.py")])
        return rc == 0, out
    os.makedirs(OUT, exist_ok=True)
    env = dict(ENV)
    env["VERIF_CONSTS_OUT"] = os.path.join(OUT, "Consts.v")
    rc, out = sh([sys.executable, os.path.join(ROOT, "gen", "consts.py")], env=env)
    if rc != 0:
        return False, out
    cur = os.path.join(COQ, "theories", "Gen", "Consts.v")
    if not os.path.exists(cur) or open(cur).read() != open(env["VERIF_CONSTS_OUT"]).read():
        rc2, diff = sh(["diff", cur, env["VERIF_CONSTS_OUT"]])
        return False, "constants generated from %s differ from the ones the development was built with:\n%s" % (REPO, diff)
    return True, out


def coq_sources():
    fs = []
    for d, _, files in os.walk(os.path.join(COQ, "theories")):
        for f in files:
            if f.endswith(".v"):
                fs.append(os.path.relpath(os.path.join(d, f), COQ))
    return sorted(fs)


def ensure_makefile():
    want = "-Q theories NDB\n" + "\n".join(coq_sources()) + "\n"
    cp = os.path.join(COQ, "_CoqProject")
    old = open(cp).read() if os.path.exists(cp) else None
    if old != want or not os.path.exists(os.path.join(COQ, "Makefile")):
        with open(cp, "w") as f:
            f.write(want)
        rc, out = sh(["coq_makefile", "-f", "_CoqProject", "-o", "Makefile"], cwd=COQ)
        if rc != 0:
            raise RuntimeError("coq_makefile failed: " + out)


def coq_make(targets, timeout=2400):
    with Lock("coq"):
        ensure_makefile()
        t0 = time.time()
        rc, out = sh(["make", "-j16"] + targets, cwd=COQ, timeout=timeout)
        return rc == 0, out, time.time() - t0


def module_file(mod):
    """NDB.A.B or A.B -> theories/A/B.v"""
    parts = mod.split(".")
    if parts[0] == "NDB":
        parts = parts[1:]
    return os.path.join("theories", *parts) + ".v"


def dep_closure(vfile):
    """transitive NDB dependencies of a .v file (paths relative to COQ), incl. itself"""
    seen, todo = [], [vfile]
    while todo:
        f = todo.pop()
        if f in seen:
            continue
        seen.append(f)
        try:
            text = open(os.path.join(COQ, f)).read()
        except OSError:
            continue
        text = strip_comments(text)
        for m in re.finditer(r"From\s+NDB\s+Require\s+(?:Import\s+|Export\s+)?(.*?)\.(?=\s|$)", text, re.S):
            for mod in m.group(1).split():
                todo.append(module_file(mod))
    return sorted(seen)


def strip_comments(text):
    out, depth, i = [], 0, 0
    while i < len(text):
        if text.startswith("(*", i):
            depth += 1
            i += 2
        elif text.startswith("*)", i) and depth > 0:
            depth -= 1
            i += 2
        else:
            if depth == 0:
                out.append(text[i])
            i += 1
    return "".join(out)


def hygiene(files):
    """forbidden constructs in the given Coq files (comments and strings ignored)"""
    bad = []
    for f in files:
        try:
            text = strip_comments(open(os.path.join(COQ, f)).read())
        except OSError:
            continue
        text = re.sub(r'"[^"]*"', '""', text)
        in_section = 0
        for ln, line in enumerate(text.splitlines(), 1):
            if re.match(r"\s*Section\b", line):
                in_section += 1
            if re.match(r"\s*End\b", line) and in_section:
                in_section -= 1
            for m in FORBIDDEN.finditer(line):
                w = m.group(1)
                if w.split()[0] in ("Variable", "Variables", "Hypothesis", "Hypotheses") and in_section:
                    continue
                bad.append("%s:%d: %s" % (f, ln, w))
    return bad


def count_obligations(files):
    """statements closed by Qed/Defined in the given files"""
    n_stmt = n_qed = 0
    for f in files:
        try:
            text = strip_comments(open(os.path.join(COQ, f)).read())
        except OSError:
            continue
        n_stmt += len(re.findall(r"^\s*(?:Local\s+|Global\s+|#\[[^\]]*\]\s*)?(?:Theorem|Lemma|Corollary|Proposition|Fact|Remark|Example)\s", text, re.M))
        n_qed += len(re.findall(r"\b(?:Qed|Defined)\s*\.", text))
    return n_stmt, n_qed


def snapshot_vo(vfiles, workdir):
    """copy the compiled closure (.vo of the given .v files) into workdir/vo under the shared lock;
    probes and case files are then evaluated against the copy, so a concurrent rebuild of the
    shared tree can neither disturb them nor be held up by them"""
    dest = os.path.join(workdir, "vo")
    if os.path.isdir(dest):
        shutil.rmtree(dest)
    with Lock("coq", shared=True):
        for f in vfiles:
            src = os.path.join(COQ, f[:-2] + ".vo")
            if not os.path.exists(src):
                continue
            rel = os.path.relpath(f[:-2] + ".vo", "theories")
            d = os.path.join(dest, os.path.dirname(rel))
            os.makedirs(d, exist_ok=True)
            shutil.copy(src, os.path.join(dest, rel))
    return dest


VO_ROOT = [os.path.join(COQ, "theories")]


def vo_root():
    return VO_ROOT[0]


def print_assumptions(module, theorems, workdir):
    """{theorem: [axioms]} via a scratch file compiled against the built .vo files"""
    os.makedirs(workdir, exist_ok=True)
    path = os.path.join(workdir, "assumptions_probe.v")
    with open(path, "w") as f:
        f.write("Require Import %s.\n" % module)
        for t in theorems:
            f.write('Goal True. idtac "@@BEGIN %s". Abort.\nPrint Assumptions %s.\nGoal True. idtac "@@END". Abort.\n' % (t, t))
    rc, out = sh(["coqc", "-noglob", "-Q", vo_root(), "NDB", path], cwd=workdir, timeout=600)
    res = {}
    if rc != 0:
        return None, out
    cur = None
    for line in out.splitlines():
        m = re.match(r"@@BEGIN (\S+)", line)
        if m:
            cur = m.group(1)
            res[cur] = []
            continue
        if line.startswith("@@END"):
            cur = None
            continue
        if cur is not None:
            if "Closed under the global context" in line or line.strip() in ("", "Axioms:"):
                continue
            m = re.match(r"^(\S+)\s*:", line)
            if m:
                res[cur].append(m.group(1))
    return res, out


def statement_of(module, theorems, workdir):
    path = os.path.join(workdir, "statement_probe.v")
    with open(path, "w") as f:
        f.write("Require Import %s.\n" % module)
        for t in theorems:
            f.write('Goal True. idtac "@@BEGIN %s". Abort.\nPrint %s.\nGoal True. idtac "@@END". Abort.\n' % (t, t))
    rc, out = sh(["coqc", "-noglob", "-Q", vo_root(), "NDB", path], cwd=workdir, timeout=600)
    res, cur = {}, None
    for line in out.splitlines():
        m = re.match(r"@@BEGIN (\S+)", line)
        if m:
            cur = m.group(1)
            res[cur] = ""
        elif line.startswith("@@END"):
            cur = None
        elif cur is not None:
            res[cur] += line.strip() + " "
    return res


def run_case_files(files, jobs=16, timeout=1800):
    """evaluate harness-written case files in Coq; returns (bad_indices, errors)"""
    bad, errors = [], []

    def one(f):
        rc, out = sh(["coqc", "-noglob", "-Q", vo_root(), "NDB", f],
                     cwd=os.path.dirname(f), timeout=timeout)
        return f, rc, out

    results = list(concurrent.futures.ThreadPoolExecutor(max_workers=jobs).map(one, files))
    if True:
        for f, rc, out in results:
            if rc != 0:
                errors.append("%s: %s" % (f, out[-2000:]))
                continue
            m = re.search(r"=\s*\[(.*?)\]\s*:\s*list N", out, re.S)
            if not m:
                errors.append("%s: unparsable output: %s" % (f, out[-500:]))
                continue
            body = m.group(1).strip()
            if body:
                for tok in body.split(";"):
                    tok = tok.strip().replace("%N", "")
                    if tok:
                        bad.append(int(tok))
    for f in files:
        for ext in (".vo", ".vok", ".vos", ".glob"):
            p = f[:-2] + ext
            if os.path.exists(p):
                os.remove(p)
        aux = os.path.join(os.path.dirname(f), "." + os.path.basename(f)[:-2] + ".aux")
        if os.path.exists(aux):
            os.remove(aux)
    return sorted(bad), errors


def coqchk(module, timeout=3000):
    rc, out = sh(["coqchk", "-o", "-silent", "-Q", vo_root(), "NDB", module], cwd=COQ, timeout=timeout)
    return rc, out


# ---------------------------------------------------------------- Rust side

ALT = os.path.realpath(REPO) != "/repo"
ALT_TAG = "alt-" + re.sub(r"[^A-Za-z0-9]+", "_", os.path.realpath(REPO)).strip("_") if ALT else ""
if ALT:
    OUT = os.path.join(OUT, ALT_TAG)
    EVID = os.path.join(OUT, "evidence")


def harness_target_dir():
    if ALT:
        return os.path.join(os.path.realpath(REPO), "target-vharness")
    return os.path.join(HARNESS, "target")


def cargo_cmd(pkg, bin_name):
    cmd = ["cargo", "build", "--offline"]
    for c in ("nervusdb", "nervusdb-api", "nervusdb-storage", "nervusdb-query", "nervusdb-capi"):
        cmd += ["--config", 'patch.crates-io.%s.path="%s"' % (c, os.path.join(os.path.realpath(REPO), c))]
    return cmd + (["-p", pkg] if pkg else []) + ["--bin", bin_name]


def refresh_workspace_members():
    """harness/Cargo.toml lists exactly the hx_* directories that have a Cargo.toml (a crate
    directory that is still being created must not break everybody else's build)"""
    path = os.path.join(HARNESS, "Cargo.toml")
    text = open(path).read()
    def has_target(d):
        src = os.path.join(HARNESS, d, "src")
        return (os.path.exists(os.path.join(src, "lib.rs")) or os.path.exists(os.path.join(src, "main.rs"))
                or bool(glob.glob(os.path.join(src, "bin", "*.rs"))))
    members = ["vh"] + sorted(d for d in os.listdir(HARNESS)
                              if d.startswith("hx_") and os.path.exists(os.path.join(HARNESS, d, "Cargo.toml")) and has_target(d))
    want = "members = [" + ", ".join('"%s"' % m for m in members) + "]"
    new = re.sub(r"members = \[[^\]]*\]", want, text, count=1)
    if new != text:
        with open(path, "w") as f:
            f.write(new)


def harness_build(bin_name, pkg=None, timeout=2400):
    with Lock("cargo"):
        refresh_workspace_members()
        lock_src = os.path.join(REPO, "Cargo.lock")
        lock_dst = os.path.join(HARNESS, "Cargo.lock")
        if not os.path.exists(lock_dst):
            shutil.copy(lock_src, lock_dst)
        env = dict(ENV)
        env["RUSTFLAGS"] = "--cfg %s --check-cfg cfg(%s)" % (GUARD, GUARD)
        env["CARGO_TARGET_DIR"] = harness_target_dir()
        t0 = time.time()
        cmd = cargo_cmd(pkg, bin_name)
        rc, out = sh(cmd, cwd=HARNESS, timeout=timeout, env=env)
        if rc != 0 and ("lock file" in out or "failed to select a version" in out):
            shutil.copy(lock_src, lock_dst)
            rc, out = sh(cmd, cwd=HARNESS, timeout=timeout, env=env)
        return rc == 0, out, time.time() - t0


def harness_run(bin_name, args, timeout=3000):
    exe = os.path.join(harness_target_dir(), "debug", bin_name)
    t0 = time.time()
    env = dict(ENV)
    # scratch databases on a memory file system when there is one: the engine fsyncs a lot
    if "VERIF_TMPDIR" in os.environ:
        env["TMPDIR"] = os.environ["VERIF_TMPDIR"]
    elif os.path.isdir("/dev/shm") and os.access("/dev/shm", os.W_OK):
        env["TMPDIR"] = "/dev/shm"
    rc, out = sh([exe] + [str(a) for a in args], cwd=HARNESS, timeout=timeout, env=env)
    return rc, out, time.time() - t0


def read_report(outdir):
    cases, fails, stats = [], [], {}
    p = os.path.join(outdir, "report.jsonl")
    if not os.path.exists(p):
        return cases, fails, stats
    for line in open(p):
        line = line.strip()
        if not line:
            continue
        r = json.loads(line)
        if r["kind"] == "case":
            cases.append(r)
        elif r["kind"] == "fail":
            fails.append(r)
        elif r["kind"] == "stats":
            for k, v in r["stats"].items():
                if k in stats and isinstance(v, int) and isinstance(stats[k], int):
                    stats[k] += v
                elif k in stats and isinstance(v, dict) and isinstance(stats[k], dict):
                    for kk, vv in v.items():
                        stats[k][kk] = stats[k].get(kk, 0) + vv if isinstance(vv, int) else vv
                elif k in stats and isinstance(v, list):
                    stats[k] = stats[k] + v
                else:
                    stats[k] = v
    return cases, fails, stats


# ---------------------------------------------------------------- findings

def known_findings(prop):
    """known (recorded, unrepaired) finding classes of a property: known/<prop>.json"""
    p = os.path.join(ROOT, "known", prop + ".json")
    if not os.path.exists(p):
        return {}
    data = json.load(open(p))
    return {e["id"]: e for e in data.get("known", [])}


# ---------------------------------------------------------------- the driver

class Result:
    def __init__(self, prop, tier, seed):
        self.prop, self.tier, self.seed = prop, tier, seed
        self.broken = []      # (what, detail): proof / assumption / correspondence problems
        self.fails = []       # unknown direct failures (dicts)
        self.known_hits = {}  # class -> first failure
        self.cov = {}
        self.t0 = time.time()


def write_replay(prop, name, payload):
    d = os.path.join(OUT, prop)
    os.makedirs(d, exist_ok=True)
    path = os.path.join(d, name)
    with open(path, "w") as f:
        json.dump(payload, f, indent=1, sort_keys=True)
    return path


def run_check(spec, tier, seed, replay=None):
    prop = spec["id"]
    res = Result(prop, tier, seed)
    work = os.path.join(OUT, prop, tier)
    if os.path.isdir(work):
        shutil.rmtree(work)
    os.makedirs(work, exist_ok=True)
    os.makedirs(EVID, exist_ok=True)
    props_file = module_file(spec["props_module"])
    targets = [props_file + "o"] + [module_file(m) + "o" for m in spec.get("corr_modules", [])]
    cov = res.cov

    # 1. translator
    ok, out = gen_consts()
    if not ok:
        res.broken.append(("translator gen/consts.py", out.strip()[-1500:]))
    # 2. hygiene
    deps = dep_closure(props_file)
    for m in spec.get("corr_modules", []):
        for f in dep_closure(module_file(m)):
            if f not in deps:
                deps.append(f)
    bad = hygiene(deps)
    if bad:
        res.broken.append(("forbidden construct in the Coq development", "; ".join(bad[:20])))
    # 3. proofs
    ok, out, secs = coq_make(targets)
    cov["coq_build_s"] = round(secs, 1)
    proofs_ok = ok
    if not ok:
        m = re.search(r'File "([^"]+)", line (\d+)', out)
        where = "%s:%s" % (m.group(1), m.group(2)) if m else "?"
        res.broken.append(("proof obligation no longer checks (%s)" % where, out.strip()[-2500:]))
    VO_ROOT[0] = snapshot_vo(deps, work)
    n_stmt, n_qed = count_obligations(deps)
    cov["obligations"] = n_stmt
    cov["discharged"] = n_qed if proofs_ok else 0
    cov["proof_files"] = deps
    # 4. assumptions
    theorems = spec["theorems"]
    cov["theorems"] = []
    if proofs_ok:
        ass, aout = print_assumptions(spec["props_module"], theorems, work)
        if ass is None:
            res.broken.append(("Print Assumptions probe failed", aout[-1500:]))
        else:
            stm = statement_of(spec["props_module"], [t + "_statement" for t in theorems] if spec.get("statement_defs", True) else theorems, work)
            allowed = set(spec.get("allowed_axioms", []))
            for t in theorems:
                if t not in ass:
                    res.broken.append(("property theorem missing: %s" % t, ""))
                    continue
                extra = [a for a in ass[t] if a not in allowed]
                cov["theorems"].append({"name": t, "axioms": ass[t], "statement": (stm.get(t + "_statement") or stm.get(t) or "").strip()[:600]})
                if extra:
                    res.broken.append(("theorem %s depends on axioms outside the allow-list" % t, ", ".join(extra)))
    # 5. implementation run + search
    files = []
    if spec.get("harness_bin"):
        ok, out, secs = harness_build(spec["harness_bin"], spec.get("harness_pkg"))
        cov["harness_build_s"] = round(secs, 1)
        if not ok:
            res.broken.append(("harness does not build against /repo (correspondence cannot run)", out.strip()[-2500:]))
        else:
            n = spec["n"][tier]
            hargs = ["--seed", seed, "--n", n, "--out", work, "--tier", tier] + spec.get("harness_args", {}).get(tier, [])
            if replay:
                hargs += ["--replay", replay]
            rc, out, secs = harness_run(spec["harness_bin"], hargs, timeout=spec.get("harness_timeout", {}).get(tier, 3000))
            cov["harness_run_s"] = round(secs, 1)
            if rc != 0:
                res.broken.append(("harness run failed rc=%s" % rc, out.strip()[-2500:]))
            cases, fails, stats = read_report(work)
            known = known_findings(prop)
            for f in fails:
                c = f.get("class")
                if c and c in known:
                    res.known_hits.setdefault(c, f)
                else:
                    res.fails.append(f)
            for k in ("evaluations", "distinct_nontrivial", "rule", "histogram"):
                if k in stats:
                    cov[k] = stats[k]
            cov["extra_stats"] = {k: v for k, v in stats.items() if k not in ("evaluations", "distinct_nontrivial", "rule", "histogram", "case_files")}
            cov["samples"] = [c["case"] for c in cases[:6]]
            files = stats.get("case_files", [])
            # 6. correspondence
            corr_ok = proofs_ok
            if files and not corr_ok:
                corr_ok = coq_make([module_file(m) + "o" for m in spec.get("corr_modules", [])])[0]
                VO_ROOT[0] = snapshot_vo(deps, work)
            if files and corr_ok:
                t1 = time.time()
                badidx, errors = run_case_files(files)
                cov["correspondence"] = {"case_files": len(files), "cases": stats.get("corr_cases", stats.get("evaluations", 0)),
                                         "mismatches": len(badidx), "errors": len(errors), "coq_eval_s": round(time.time() - t1, 1)}
                if errors:
                    res.broken.append(("correspondence case file failed to evaluate", errors[0][-1500:]))
                if badidx:
                    res.broken.append(("correspondence: model and implementation differ on %d case(s)" % len(badidx),
                                       "indices %s (re-generate with --seed %s --n %s)" % (badidx[:20], seed, spec["n"][tier])))
                    cov["correspondence"]["mismatch_indices"] = badidx[:50]
            elif files:
                res.broken.append(("correspondence model does not compile", ""))
    if spec.get("post"):
        spec["post"](spec, res, work)
    # thorough: independent re-check
    if tier == "thorough" and proofs_ok and spec.get("coqchk", True):
        rc, out = coqchk(spec["props_module"])
        cov["coqchk"] = {"rc": rc, "tail": out.strip()[-800:]}
        if rc != 0:
            res.broken.append(("coqchk rejects the compiled development", out.strip()[-1500:]))
    return finish(spec, res)


def finish(spec, res):
    prop, cov = res.prop, res.cov
    lines = []
    known = known_findings(prop)
    for c, f in sorted(res.known_hits.items()):
        lines.append("KNOWN-FINDING: property=%s %s %s" % (prop, c, known[c].get("symptom", f.get("what", ""))))
    violations = 0
    rc = 0
    if res.fails:
        f = res.fails[0]
        path = write_replay(prop, "replay_%s_seed%s.json" % (res.tier, res.seed), {
            "property": prop, "seed": res.seed, "tier": res.tier, "what": f.get("what"),
            "input": f.get("input"), "index": f.get("idx"), "other_failures": len(res.fails) - 1,
            "broken": [b[0] for b in res.broken],
            "replay_cmd": "bin/check %s --tier %s --seed %s" % (prop, res.tier, res.seed)})
        lines.append("VIOLATION property=%s replay=%s" % (prop, path))
        violations = len(res.fails)
        rc = 1
    elif res.broken:
        path = write_replay(prop, "replay_%s_seed%s.json" % (res.tier, res.seed), {
            "property": prop, "seed": res.seed, "tier": res.tier,
            "no_longer_checks": [{"what": b[0], "detail": b[1]} for b in res.broken],
            "note": "no input was found on which the implementation itself fails the property; the property is no longer shown to hold"})
        lines.append("VIOLATION property=%s replay=%s no-failing-input-found" % (prop, path))
        violations = 1
        rc = 1
    for b in res.broken:
        log("BROKEN: %s\n%s" % (b[0], b[1]))
    for f in res.fails[:5]:
        log("FAIL: %s %s" % (f.get("what"), json.dumps(f.get("input"))[:600]))
    cov.setdefault("evaluations", 0)
    cov.setdefault("distinct_nontrivial", 0)
    cov.setdefault("samples", [])
    cov["checker_cmd"] = "cd /verif/coq && make -j16 %so (coqc 8.16.1, full .vo build); Print Assumptions per theorem; %s" % (
        module_file(spec["props_module"]), "coqchk -o -silent" if res.tier == "thorough" else "coqchk in the thorough tier")
    cov["trusted_base"] = spec.get("trusted_base", [])
    cov["known_findings_reproduced"] = sorted(res.known_hits.keys())
    cov["broken"] = [b[0] for b in res.broken]
    ev = {
        "property_id": prop, "tier": res.tier, "seed": res.seed, "level": spec.get("level", "proof"),
        "coverage": cov, "assumptions": spec.get("assumptions", []),
        "wall_s": round(time.time() - res.t0, 1), "violations": violations,
    }
    with open(os.path.join(EVID, prop + ".json"), "w") as f:
        json.dump(ev, f, indent=1, sort_keys=True)
    for l in lines:
        print(l)
    print("%s %s tier=%s seed=%s obligations=%s/%s cases=%s mismatches=%s wall=%.0fs" % (
        "FAIL" if rc else "OK", prop, res.tier, res.seed, cov.get("discharged"), cov.get("obligations"),
        cov.get("evaluations"), (cov.get("correspondence") or {}).get("mismatches"), time.time() - res.t0))
    sys.stdout.flush()
    return rc
