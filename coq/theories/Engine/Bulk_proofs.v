(* Engine/Bulk_proofs.v — C30: the general statement (transactional load `load_txns`, input
   validity, the K-C30-parallel-props predicate) and PROOFS of its two engine-side halves for ALL
   inputs: (1) `bulk_open_state` / `bulk_open_reads`: recovery of a bulk-loaded database yields no
   runs, one segment holding the input relationships, the input properties in the store, and its
   reads are those of the input (edge views as multisets, single-key property reads = last value
   given); (2) `load_txns_reads`: the transactional load lies in the C06 fragment, so its reads are
   those of the spec graph of the load.  NOT proved here: that the spec graph of the load is the
   graph described by the input (a statement about Engine/Graph.v only), which would join (1) and (2). *)
From Coq Require Import Lia Permutation.
From NDB Require Import Engine.Graph Engine.Model Engine.Known Engine.Lib_proofs Engine.Refine_proofs Engine.Reopen_proofs Engine.Compact_reads_proofs.

(* ---------------- the general statement ---------------- *)
(* the transactional load of a node / relationship list: one committed transaction per item,
   nodes first (input order, so internal ids are positions), then relationships *)
Fixpoint load_nodes (ns : list bnode) (intr : list N) (i : N) : list hop * list N :=
  match ns with
  | [] => ([], intr)
  | (ext, lab, ps) :: t =>
      let intr' := if memN lab intr then intr else intr ++ [lab] in
      let (h, fin) := load_nodes t intr' (N.succ i) in
      (HTxn (OGetLabel lab :: OCreateNode ext (index_name lab intr' 0) :: map (fun kv => OSetNP i (fst kv) (snd kv)) ps) true :: h, fin)
  end.
Fixpoint load_edges (all : list bnode) (es : list bedge) (intr : list N) : list hop :=
  match es with
  | [] => []
  | (se, rel, de, ps) :: t =>
      let intr' := if memN rel intr then intr else intr ++ [rel] in
      let e : edge := (index_bnode se all 0, index_name rel intr' 0, index_bnode de all 0) in
      HTxn (OGetLabel rel :: OCreateEdge e :: map (fun kv => OSetEP e (fst kv) (snd kv)) ps) true :: load_edges all t intr'
  end.
Definition load_txns (ns : list bnode) (es : list bedge) : list hop :=
  let (h, intr) := load_nodes ns [] 0 in h ++ load_edges ns es intr.

(* BulkLoader::validate *)
Fixpoint uniq_exts (ns : list bnode) : bool :=
  match ns with [] => true | n :: t => negb (existsb (fun m => fst (fst m) =? fst (fst n)) t) && uniq_exts t end.
Definition bulk_valid (ns : list bnode) (es : list bedge) : bool :=
  uniq_exts ns && forallb (fun n => negb (fst (fst n) =? 0)) ns &&
  forallb (fun e => existsb (fun n => fst (fst n) =? fst (fst (fst e))) ns && existsb (fun n => fst (fst n) =? snd (fst e)) ns) es.
(* K-C30-parallel-props: two relationships with one (src,type,dst) that share a property key *)
Fixpoint parallel_props (es : list bedge) : bool :=
  match es with
  | [] => false
  | e :: t =>
      existsb (fun f => (fst (fst (fst f)) =? fst (fst (fst e))) && (snd (fst (fst f)) =? snd (fst (fst e))) && (snd (fst f) =? snd (fst e))
                        && existsb (fun kv => memN (fst kv) (map fst (snd f))) (snd e)) t
      || parallel_props t
  end.

(* reads agree between two engine states (multiset equality for the two edge views) *)
Definition same_reads_full (a b : state) : Prop :=
  same_reads a b /\ (forall n, m_nprops a n = m_nprops b n) /\ (forall e, m_eprops a e = m_eprops b e).

(* ---------------- what recovery makes of a bulk-loaded database ---------------- *)
Definition bulk_intr (ns : list bnode) (es : list bedge) : list N :=
  intern_all (map (fun e => snd (fst (fst e))) es) (intern_all (map (fun n => snd (fst n)) ns) []).
Definition bulk_ekey (ns : list bnode) (es : list bedge) (e : bedge) : edge :=
  (index_bnode (fst (fst (fst e))) ns 0, index_name (snd (fst (fst e))) (bulk_intr ns es) 0, index_bnode (snd (fst e)) ns 0).

Theorem bulk_open_state : forall ns es,
  let s := bulk_open ns es in
  s.(runs) = [] /\ s.(segs) = [isort edge_leb (map (bulk_ekey ns es) es)] /\
  s.(i2e) = map (fun n => (fst (fst n), index_name (snd (fst n)) (bulk_intr ns es) 0)) ns /\
  s.(i2l) = map (fun p => [snd p]) s.(i2e) /\
  s.(store_n) = rev (flat_map (fun n => map (fun kv => ((index_bnode (fst (fst n)) ns 0, fst kv), snd kv)) (snd n)) ns) /\
  s.(store_e) = rev (flat_map (fun e => map (fun kv => ((bulk_ekey ns es e, fst kv), snd kv)) (snd e)) es).
Proof.
  intros ns es. unfold bulk_open, open, bulk. cbn [wal i2e store_n store_e vecs].
  fold (bulk_intr ns es).
  set (intr := bulk_intr ns es).
  set (lab := map (fun p : N * N => RCreateLabel (snd p) (fst p)) (combine (nseq 0 (length intr)) intr)).
  set (seg := isort edge_leb _).
  assert (Hlab : forallb labelrec lab = true) by (apply forallb_map_true; intros; reflexivity).
  assert (Hscan : core3 (scan_recovery [(0, lab ++ [RManifest 0 [seg]; RCheckpoint 0 0])]) = (0, [seg], 0)).
  { unfold scan_recovery. cbn [fold_left scan_tx fst snd]. rewrite fold_left_app.
    set (r1 := fold_left scan_rec lab _).
    assert (Hc : core3 r1 = (0, [], 0)) by (unfold r1; rewrite scan_recs_core; [reflexivity | right; exact Hlab]).
    destruct (core3_inv _ _ _ _ Hc) as (E1 & E2 & E3). cbn [fold_left scan_rec].
    rewrite E1. cbn [N.leb N.compare r_epoch r_segs r_ckpt N.eqb]. unfold core3; cbn [r_epoch r_segs r_ckpt N.leb N.eqb]. reflexivity. }
  set (r := scan_recovery _) in *. destruct (core3_inv _ _ _ _ Hscan) as (E1 & E2 & E3). rewrite E1, E2, E3.
  cbn [replay_graph fst N.leb N.compare]. cbn [runs segs i2e i2l store_n store_e].
  repeat split; reflexivity.
Qed.

(* reads of a bulk-loaded database in terms of the input: every node exists, the edge views are the
   input relationships as multisets, a single-key property read returns the LAST value the input gives *)
Theorem bulk_open_reads : forall ns es,
  let s := bulk_open ns es in
  m_nodes s = nseq 0 (length ns) /\
  (forall n, Permutation (m_out s n) (filter (fun e => e_src e =? n) (map (bulk_ekey ns es) es))) /\
  (forall n, Permutation (m_in s n) (filter (fun e => e_dst e =? n) (map (bulk_ekey ns es) es))) /\
  (forall n k, m_nprop s n k = assoc nk_eqb (n, k) s.(store_n)) /\
  (forall e k, m_eprop s e k = assoc ek_eqb (e, k) s.(store_e)).
Proof.
  intros ns es s. destruct (bulk_open_state ns es) as (H1 & H2 & H3 & H4 & H5 & H6). fold s in H1, H2, H3, H4, H5, H6.
  assert (Hnt : forall m, In m (runs s) -> notomb m) by (rewrite H1; intros m []).
  split; [|split; [|split; [|split]]].
  - unfold m_nodes. rewrite H1, H3, map_length. apply filter_true. intros; reflexivity.
  - intros n. rewrite (m_out_notomb s n Hnt), H1, H2. cbn [flat_map app]. rewrite app_nil_r.
    rewrite (filter_ext _ _ (Pout_ext n)). apply Permutation_filter'. apply Permutation_isort.
  - intros n. rewrite (m_in_notomb s n Hnt), H1, H2. cbn [flat_map app]. rewrite app_nil_r.
    rewrite (filter_ext _ _ (Pin_ext n)). apply Permutation_filter'. apply Permutation_isort.
  - intros n k. unfold m_nprop. rewrite H1. reflexivity.
  - intros e k. unfold m_eprop. rewrite H1. reflexivity.
Qed.

(* the transactional side: a load history lies in the fragment of Refine_proofs.v, so whenever it is
   well-formed all its reads are those of the spec graph *)
Lemma load_nodes_grow : forall ns intr i, grow_hist (fst (load_nodes ns intr i)) = true.
Proof.
  induction ns as [|[[ext lab] ps] ns IH]; intros intr i; [reflexivity|].
  cbn [load_nodes]. set (intr' := if memN lab intr then intr else intr ++ [lab]).
  specialize (IH intr' (N.succ i)). destruct (load_nodes ns intr' (N.succ i)) as [h fin]. cbn [fst] in *.
  unfold grow_hist in *. cbn [forallb grow_op]. rewrite IH, andb_true_r.
  rewrite forallb_map_true; [reflexivity | intros; reflexivity].
Qed.
Lemma load_edges_grow : forall all es intr, grow_hist (load_edges all es intr) = true.
Proof.
  intros all; induction es as [|[[[se rel] de] ps] es IH]; intros intr; [reflexivity|].
  cbn [load_edges]. unfold grow_hist in *. cbn [forallb grow_op]. rewrite IH, andb_true_r.
  rewrite forallb_map_true; [reflexivity | intros; reflexivity].
Qed.
Lemma grow_hist_app : forall a b, grow_hist a = true -> grow_hist b = true -> grow_hist (a ++ b) = true.
Proof. intros a b Ha Hb; unfold grow_hist in *; rewrite forallb_app, Ha, Hb; reflexivity. Qed.

Theorem load_txns_reads : forall ns es, wf_hist (load_txns ns es) = true ->
  reads_agree (run (load_txns ns es)) (spec (load_txns ns es)).
Proof.
  intros ns es Hw. apply refines_grow; [|exact Hw].
  unfold load_txns. pose proof (load_nodes_grow ns [] 0) as H. destruct (load_nodes ns [] 0) as [h intr]. cbn [fst] in H.
  apply grow_hist_app; [exact H | apply load_edges_grow].
Qed.

Example load_nonvacuous :
  let ns : list bnode := [(1, 0, [(0, 2)]); (2, 20, [(1, 3)]); (3, 0, [])] in
  let es : list bedge := [(1, 20, 2, [(0, 1)]); (1, 20, 2, [(2, 6)]); (3, 10, 3, [])] in
  bulk_valid ns es = true /\ parallel_props es = false /\ wf_hist (load_txns ns es) = true /\
  m_out (bulk_open ns es) 0 = [(0, 1, 1); (0, 1, 1)] /\ m_out (run (load_txns ns es)) 0 = [(0, 1, 1); (0, 1, 1)] /\
  m_eprops (bulk_open ns es) (0, 1, 1) = m_eprops (run (load_txns ns es)) (0, 1, 1).
Proof. cbv zeta; repeat split; vm_compute; reflexivity. Qed.
