(* Engine/Dangling_proofs.v — PROOFS for C14 (storage half): in every state reached by
   transactions that do not put a relationship and the deletion of one of its endpoints
   into the same run (and only create relationships between nodes that nodes() returns or
   that the transaction created), every edge yielded by neighbors / incoming_neighbors has
   both endpoints in nodes() of the same snapshot.  Compaction and checkpoint preserve the
   invariant; reopen steps are not covered here (replay is C04's subject). *)
From Coq Require Import Lia.
From NDB Require Import Engine.Graph Engine.Model Engine.Known.

Definition ntomb (rs : list mem) (n : N) : Prop := forall m, In m rs -> memN n m.(me_tn) = false.

Fixpoint runs_ok (rs : list mem) : Prop :=
  match rs with
  | [] => True
  | m :: rs' =>
      (forall e, In e m.(me_edges) ->
         memN (e_src e) m.(me_tn) = false /\ memN (e_dst e) m.(me_tn) = false /\
         ntomb rs' (e_src e) /\ ntomb rs' (e_dst e)) /\ runs_ok rs'
  end.
Definition bounded (cnt : N) (e : edge) : Prop := e_src e < cnt /\ e_dst e < cnt.
Definition cnt (s : state) : N := N.of_nat (length s.(i2e)).
Definition wf_s (s : state) : Prop :=
  runs_ok s.(runs) /\
  (forall m e, In m s.(runs) -> In e m.(me_edges) -> bounded (cnt s) e) /\
  (forall sg e, In sg s.(segs) -> In e sg -> bounded (cnt s) e).

Lemma memN_app : forall x a b, memN x (a ++ b) = memN x a || memN x b.
Proof. intros; unfold memN; apply existsb_app. Qed.

Lemma ntomb_cons : forall m rs n, memN n m.(me_tn) = false -> ntomb rs n -> ntomb (m :: rs) n.
Proof. intros m rs n H1 H2 m' [E | I]; [subst; exact H1 | apply H2; exact I]. Qed.

(* ---------------- the iterators ---------------- *)
Lemma scan_out_clean : forall rs bn be src, runs_ok rs ->
  forall e, In e (fst (scan_out rs bn be src)) ->
    e_src e = src /\ memN src bn = false /\ memN (e_dst e) bn = false /\
    ntomb rs src /\ ntomb rs (e_dst e) /\ exists m, In m rs /\ In e m.(me_edges).
Proof.
  induction rs as [|m rs IH]; intros bn be src Hok e He; [cbn in He; contradiction|].
  cbn [scan_out] in He. destruct Hok as [Hm Hok].
  destruct (memN src bn) eqn:Hb; [cbn in He; contradiction|].
  destruct (scan_out rs (me_tn m ++ bn) (me_te m ++ be) src) as [rest fin] eqn:Hs.
  cbn [fst] in He. apply in_app_or in He. destruct He as [He | He].
  - destruct (memN src (me_tn m)) eqn:Ht; [contradiction|].
    apply filter_In in He. destruct He as [Hin Hc].
    apply andb_true_iff in Hc; destruct Hc as [Hc Hc3].
    apply andb_true_iff in Hc; destruct Hc as [Hc1 Hc2].
    apply N.eqb_eq in Hc1. apply negb_true_iff in Hc2.
    destruct (Hm e Hin) as (A1 & A2 & A3 & A4).
    repeat split; try assumption.
    + apply ntomb_cons; [exact Ht | rewrite <- Hc1; exact A3].
    + apply ntomb_cons; assumption.
    + exists m; split; [left; reflexivity | exact Hin].
  - pose proof (IH (me_tn m ++ bn) (me_te m ++ be) src Hok e) as H.
    rewrite Hs in H; cbn [fst] in H. specialize (H He).
    destruct H as (B1 & B2 & B3 & B4 & B5 & (m' & B6 & B7)).
    rewrite memN_app in B2, B3. apply orb_false_iff in B2, B3.
    destruct B2 as [B2a B2b], B3 as [B3a B3b].
    repeat split; try assumption.
    + apply ntomb_cons; assumption.
    + apply ntomb_cons; assumption.
    + exists m'; split; [right; exact B6 | exact B7].
Qed.

Lemma scan_out_fin : forall rs bn be src bn' be',
  snd (scan_out rs bn be src) = Some (bn', be') ->
  forall x, memN x bn' = false -> memN x bn = false /\ ntomb rs x.
Proof.
  induction rs as [|m rs IH]; intros bn be src bn' be' H x Hx.
  - cbn in H; inversion H; subst. split; [exact Hx | intros m' []].
  - cbn [scan_out] in H. destruct (memN src bn); [cbn in H; discriminate H|].
    destruct (scan_out rs (me_tn m ++ bn) (me_te m ++ be) src) as [rest fin] eqn:Hs.
    cbn [snd] in H. pose proof (IH (me_tn m ++ bn) (me_te m ++ be) src bn' be') as H2.
    rewrite Hs in H2; cbn [snd] in H2. destruct (H2 H x Hx) as [C1 C2].
    rewrite memN_app in C1; apply orb_false_iff in C1; destruct C1 as [C1a C1b].
    split; [exact C1b | apply ntomb_cons; assumption].
Qed.

Lemma scan_in_clean : forall rs bn be dst, runs_ok rs ->
  forall e, In e (fst (scan_in rs bn be dst)) ->
    e_dst e = dst /\ memN dst bn = false /\ memN (e_src e) bn = false /\
    ntomb rs dst /\ ntomb rs (e_src e) /\ exists m, In m rs /\ In e m.(me_edges).
Proof.
  induction rs as [|m rs IH]; intros bn be dst Hok e He; [cbn in He; contradiction|].
  cbn [scan_in] in He. destruct Hok as [Hm Hok].
  destruct (memN dst bn) eqn:Hb; [cbn in He; contradiction|].
  destruct (scan_in rs (me_tn m ++ bn) (me_te m ++ be) dst) as [rest fin] eqn:Hs.
  cbn [fst] in He. apply in_app_or in He. destruct He as [He | He].
  - destruct (memN dst (me_tn m)) eqn:Ht; [contradiction|].
    apply filter_In in He. destruct He as [Hin Hc].
    apply andb_true_iff in Hc; destruct Hc as [Hc Hc3].
    apply andb_true_iff in Hc; destruct Hc as [Hc1 Hc2].
    apply N.eqb_eq in Hc1. apply negb_true_iff in Hc2.
    destruct (Hm e Hin) as (A1 & A2 & A3 & A4).
    repeat split; try assumption.
    + apply ntomb_cons; [exact Ht | rewrite <- Hc1; exact A4].
    + apply ntomb_cons; assumption.
    + exists m; split; [left; reflexivity | exact Hin].
  - pose proof (IH (me_tn m ++ bn) (me_te m ++ be) dst Hok e) as H.
    rewrite Hs in H; cbn [fst] in H. specialize (H He).
    destruct H as (B1 & B2 & B3 & B4 & B5 & (m' & B6 & B7)).
    rewrite memN_app in B2, B3. apply orb_false_iff in B2, B3.
    destruct B2 as [B2a B2b], B3 as [B3a B3b].
    repeat split; try assumption.
    + apply ntomb_cons; assumption.
    + apply ntomb_cons; assumption.
    + exists m'; split; [right; exact B6 | exact B7].
Qed.

Lemma scan_in_fin : forall rs bn be dst bn' be',
  snd (scan_in rs bn be dst) = Some (bn', be') ->
  forall x, memN x bn' = false -> memN x bn = false /\ ntomb rs x.
Proof.
  induction rs as [|m rs IH]; intros bn be dst bn' be' H x Hx.
  - cbn in H; inversion H; subst. split; [exact Hx | intros m' []].
  - cbn [scan_in] in H. destruct (memN dst bn); [cbn in H; discriminate H|].
    destruct (scan_in rs (me_tn m ++ bn) (me_te m ++ be) dst) as [rest fin] eqn:Hs.
    cbn [snd] in H. pose proof (IH (me_tn m ++ bn) (me_te m ++ be) dst bn' be') as H2.
    rewrite Hs in H2; cbn [snd] in H2. destruct (H2 H x Hx) as [C1 C2].
    rewrite memN_app in C1; apply orb_false_iff in C1; destruct C1 as [C1a C1b].
    split; [exact C1b | apply ntomb_cons; assumption].
Qed.

(* ---------------- nodes() ---------------- *)
Lemma In_nseq : forall k a n, In n (nseq a k) <-> a <= n /\ n < a + N.of_nat k.
Proof.
  induction k as [|k IH]; intros a n; cbn [nseq].
  - split; [intros [] | intros [H1 H2]; cbn in H2; lia].
  - cbn [In]. rewrite IH, Nat2N.inj_succ. split.
    + intros [E | [H1 H2]]; lia.
    + intros [H1 H2]. destruct (N.eq_dec a n); [left; assumption | right; lia].
Qed.

Lemma existsb_false : forall {A} (f : A -> bool) l, existsb f l = false <-> forall x, In x l -> f x = false.
Proof.
  intros A f l; induction l as [|y l IH]; cbn.
  - split; [intros _ x [] | reflexivity].
  - rewrite orb_false_iff, IH. split.
    + intros [H1 H2] x [E | I]; [subst; exact H1 | apply H2; exact I].
    + intros H; split; [apply H; left; reflexivity | intros x I; apply H; right; exact I].
Qed.

Lemma In_m_nodes : forall s n, In n (m_nodes s) <-> n < cnt s /\ ntomb s.(runs) n.
Proof.
  intros s n; unfold m_nodes, cnt, ntomb. rewrite filter_In, In_nseq, negb_true_iff, existsb_false.
  split; intros [H1 H2]; (split; [lia | exact H2]).
Qed.

(* ---------------- the property for a well-formed state ---------------- *)
Theorem out_endpoints : forall s n e, wf_s s -> In e (m_out s n) ->
  In (e_src e) (m_nodes s) /\ In (e_dst e) (m_nodes s).
Proof.
  intros s n e (Hok & Hbr & Hbs) He. unfold m_out in He.
  pose proof (scan_out_clean s.(runs) [] [] n Hok e) as Hc.
  pose proof (scan_out_fin s.(runs) [] [] n) as Hf.
  destruct (scan_out (runs s) [] [] n) as [es fin]; cbn [fst snd] in *.
  assert (Hrun : In e es -> In (e_src e) (m_nodes s) /\ In (e_dst e) (m_nodes s)).
  { intros Hi. destruct (Hc Hi) as (A1 & _ & _ & A4 & A5 & (m & A6 & A7)).
    destruct (Hbr m e A6 A7) as [B1 B2].
    split; apply In_m_nodes; split; try assumption. rewrite A1; exact A4. }
  destruct fin as [[bn be]|]; [|exact (Hrun He)].
  destruct (memN n bn) eqn:Hb; [exact (Hrun He)|].
  apply in_app_or in He. destruct He as [He | He]; [exact (Hrun He)|].
  apply in_flat_map in He. destruct He as (sg & Hsg & He).
  apply filter_In in He. destruct He as [Hin Hcnd].
  apply andb_true_iff in Hcnd; destruct Hcnd as [Hcnd _].
  apply andb_true_iff in Hcnd; destruct Hcnd as [Hc1 Hc2].
  apply N.eqb_eq in Hc1. apply negb_true_iff in Hc2.
  destruct (Hbs sg e Hsg Hin) as [B1 B2].
  destruct (Hf bn be eq_refl n Hb) as [_ T1].
  destruct (Hf bn be eq_refl (e_dst e) Hc2) as [_ T2].
  split; apply In_m_nodes; split; try assumption. rewrite Hc1; exact T1.
Qed.

Theorem in_endpoints : forall s n e, wf_s s -> In e (m_in s n) ->
  In (e_src e) (m_nodes s) /\ In (e_dst e) (m_nodes s).
Proof.
  intros s n e (Hok & Hbr & Hbs) He. unfold m_in in He.
  pose proof (scan_in_clean s.(runs) [] [] n Hok e) as Hc.
  pose proof (scan_in_fin s.(runs) [] [] n) as Hf.
  destruct (scan_in (runs s) [] [] n) as [es fin]; cbn [fst snd] in *.
  assert (Hrun : In e es -> In (e_src e) (m_nodes s) /\ In (e_dst e) (m_nodes s)).
  { intros Hi. destruct (Hc Hi) as (A1 & _ & _ & A4 & A5 & (m & A6 & A7)).
    destruct (Hbr m e A6 A7) as [B1 B2].
    split; apply In_m_nodes; split; try assumption. rewrite A1; exact A4. }
  destruct fin as [[bn be]|]; [|exact (Hrun He)].
  destruct (memN n bn) eqn:Hb; [exact (Hrun He)|].
  apply in_app_or in He. destruct He as [He | He]; [exact (Hrun He)|].
  apply in_flat_map in He. destruct He as (sg & Hsg & He).
  apply filter_In in He. destruct He as [Hin Hcnd].
  apply andb_true_iff in Hcnd; destruct Hcnd as [Hcnd _].
  apply andb_true_iff in Hcnd; destruct Hcnd as [Hc1 Hc2].
  apply N.eqb_eq in Hc1. apply negb_true_iff in Hc2.
  destruct (Hbs sg e Hsg Hin) as [B1 B2].
  destruct (Hf bn be eq_refl n Hb) as [_ T1].
  destruct (Hf bn be eq_refl (e_src e) Hc2) as [_ T2].
  split; apply In_m_nodes; split; try assumption. rewrite Hc1; exact T1.
Qed.

(* ---------------- which steps keep the state well-formed ---------------- *)
(* the guard on a committing transaction, evaluated on the engine state and the final memtable *)
Definition txn_clean (s : state) (t : txn) : bool :=
  let c := N.of_nat (length s.(i2e) + length t.(tx_created)) in
  forallb (fun e =>
             negb (memN (e_src e) t.(tx_mem).(me_tn)) && negb (memN (e_dst e) t.(tx_mem).(me_tn))
             && forallb (fun m => negb (memN (e_src e) m.(me_tn)) && negb (memN (e_dst e) m.(me_tn))) s.(runs)
             && (e_src e <? c) && (e_dst e <? c))
          t.(tx_mem).(me_edges).

Lemma apply_op_frame : forall s t o,
  runs (fst (apply_op (s, t) o)) = runs s /\ segs (fst (apply_op (s, t) o)) = segs s /\
  i2e (fst (apply_op (s, t) o)) = i2e s.
Proof.
  intros s t o; destruct o; cbn; try (repeat split; reflexivity).
  - destruct (memN name (interner s)); cbn; repeat split; reflexivity.
  - destruct (e2i_has s ext); [cbn; repeat split; reflexivity|].
    destruct (existsb _ (tx_created t)); cbn; repeat split; reflexivity.
Qed.
Lemma fold_apply_frame : forall ops s t,
  runs (fst (fold_left apply_op ops (s, t))) = runs s /\ segs (fst (fold_left apply_op ops (s, t))) = segs s /\
  i2e (fst (fold_left apply_op ops (s, t))) = i2e s.
Proof.
  induction ops as [|o ops IH]; intros s t; [repeat split; reflexivity|].
  cbn [fold_left]. pose proof (apply_op_frame s t o) as (F1 & F2 & F3).
  destruct (apply_op (s, t) o) as [s1 t1]; cbn [fst] in *.
  destruct (IH s1 t1) as (G1 & G2 & G3). rewrite G1, G2, G3, F1, F2, F3. repeat split; reflexivity.
Qed.

Lemma wf_s_frame : forall a b, runs a = runs b -> segs a = segs b -> i2e a = i2e b -> wf_s b -> wf_s a.
Proof. intros a b H1 H2 H3 H. unfold wf_s, cnt in *. rewrite H1, H2, H3. exact H. Qed.

Lemma commit_wf : forall s t, wf_s s -> txn_clean s t = true -> wf_s (commit s t).
Proof.
  intros s t (Hok & Hbr & Hbs) Hc. unfold txn_clean in Hc. rewrite forallb_forall in Hc.
  assert (Hmono : forall e, bounded (cnt s) e -> bounded (cnt (commit s t)) e).
  { intros e [B1 B2]. unfold bounded, cnt, commit in *; cbn. rewrite app_length, map_length, Nat2N.inj_add. split; lia. }
  assert (Hnew : forall e, In e (me_edges (tx_mem t)) ->
            memN (e_src e) (me_tn (tx_mem t)) = false /\ memN (e_dst e) (me_tn (tx_mem t)) = false /\
            ntomb (runs s) (e_src e) /\ ntomb (runs s) (e_dst e) /\ bounded (cnt (commit s t)) e).
  { intros e He. specialize (Hc e He).
    apply andb_true_iff in Hc; destruct Hc as [Hc H5].
    apply andb_true_iff in Hc; destruct Hc as [Hc H4].
    apply andb_true_iff in Hc; destruct Hc as [Hc H3].
    apply andb_true_iff in Hc; destruct Hc as [H1 H2].
    apply negb_true_iff in H1, H2. apply N.ltb_lt in H4, H5. rewrite forallb_forall in H3.
    repeat split; try assumption.
    - intros m Hm. specialize (H3 m Hm). apply andb_true_iff in H3; destruct H3 as [H3 _]. apply negb_true_iff in H3; exact H3.
    - intros m Hm. specialize (H3 m Hm). apply andb_true_iff in H3; destruct H3 as [_ H3]. apply negb_true_iff in H3; exact H3.
    - unfold cnt, commit; cbn. rewrite app_length, map_length. exact H4.
    - unfold cnt, commit; cbn. rewrite app_length, map_length. exact H5. }
  unfold wf_s. unfold commit at 1 2 4; cbn [runs segs].
  destruct (mem_is_empty (tx_mem t)).
  - split; [exact Hok | split].
    + intros m e Hm He. apply Hmono. exact (Hbr m e Hm He).
    + intros sg e Hsg He. apply Hmono. exact (Hbs sg e Hsg He).
  - split; [|split].
    + cbn [runs_ok]. split; [|exact Hok].
      intros e He. destruct (Hnew e He) as (A1 & A2 & A3 & A4 & _). repeat split; assumption.
    + intros m e [Hm | Hm] He.
      * subst m. destruct (Hnew e He) as (_ & _ & _ & _ & A5). exact A5.
      * apply Hmono. exact (Hbr m e Hm He).
    + intros sg e Hsg He. apply Hmono. exact (Hbs sg e Hsg He).
Qed.

Lemma In_insert : forall {A} (leb : A -> A -> bool) x y l, In y (insert leb x l) -> y = x \/ In y l.
Proof.
  intros A leb x y l; induction l as [|z l IH]; cbn.
  - intros [E | []]; left; symmetry; exact E.
  - destruct (leb x z); cbn.
    + intros [E | H]; [left; symmetry; exact E | right; exact H].
    + intros [E | H]; [right; left; exact E | destruct (IH H) as [E | I]; [left; exact E | right; right; exact I]].
Qed.
Lemma In_isort : forall {A} (leb : A -> A -> bool) y l, In y (isort leb l) -> In y l.
Proof.
  intros A leb y l; induction l as [|x l IH]; cbn; [intros []|].
  intros H. destruct (In_insert leb x y _ H) as [E | I]; [left; symmetry; exact E | right; apply IH; exact I].
Qed.
Lemma In_seg_edges : forall rs bn be e, In e (seg_edges rs bn be) -> exists m, In m rs /\ In e m.(me_edges).
Proof.
  induction rs as [|m0 rs IH]; intros bn be e H; cbn [seg_edges] in H; [contradiction|].
  apply in_app_or in H. destruct H as [H | H].
  - apply filter_In in H. exists m0; split; [left; reflexivity | exact (proj1 H)].
  - destruct (IH _ _ _ H) as (m' & A & B). exists m'; split; [right; exact A | exact B].
Qed.

Lemma compact_wf : forall s, wf_s s -> wf_s (compact s).
Proof.
  intros s (Hok & Hbr & Hbs). unfold compact. destruct (runs s) as [|m0 rs0] eqn:Hr.
  - unfold wf_s; rewrite Hr. split; [exact I | split].
    + intros m e [].
    + exact Hbs.
  - unfold wf_s, cnt; cbn [runs segs i2e]. split; [exact I | split].
    + intros m e [].
    + intros sg e [E | Hi] He.
      * subst sg. apply In_isort in He. destruct (In_seg_edges _ _ _ _ He) as (m & A & B). exact (Hbr m e A B).
      * exact (Hbs sg e Hi He).
Qed.

Definition clean_step (s : state) (h : hop) : bool :=
  match h with
  | HTxn ops true => let st := fold_left apply_op ops (begin s) in txn_clean (fst st) (snd st)
  | HTxn _ false | HCompact | HCheckpoint => true
  | HCloseReopen | HDropReopen => false
  end.
Fixpoint clean_hist (s : state) (h : list hop) : bool :=
  match h with
  | [] => true
  | x :: t => clean_step s x && clean_hist (step s x) t
  end.

Lemma step_wf : forall s x, wf_s s -> clean_step s x = true -> wf_s (step s x).
Proof.
  intros s x Hw Hc. destruct x as [ops [|] | | | |]; cbn [step clean_step] in *; try discriminate Hc.
  - unfold run_txn. destruct (begin s) as [s1 t1] eqn:Hb.
    pose proof (fold_apply_frame ops s1 t1) as (F1 & F2 & F3).
    destruct (fold_left apply_op ops (s1, t1)) as [s2 t2]; cbn [fst snd] in *.
    apply commit_wf; [|exact Hc].
    unfold begin in Hb; inversion Hb; subst s1 t1.
    apply (wf_s_frame s2 s); assumption.
  - unfold run_txn. destruct (begin s) as [s1 t1] eqn:Hb.
    pose proof (fold_apply_frame ops s1 t1) as (F1 & F2 & F3).
    destruct (fold_left apply_op ops (s1, t1)) as [s2 t2]; cbn [fst snd] in *.
    unfold begin in Hb; inversion Hb; subst s1 t1.
    apply (wf_s_frame s2 s); assumption.
  - apply compact_wf; exact Hw.
  - apply compact_wf; exact Hw.
Qed.

Lemma wf_s0 : wf_s s0.
Proof. unfold wf_s; cbn. split; [exact I | split; intros; contradiction]. Qed.

Theorem clean_hist_wf : forall h s, wf_s s -> clean_hist s h = true -> wf_s (fold_left step h s).
Proof.
  induction h as [|x h IH]; intros s Hw Hc; [exact Hw|].
  cbn [clean_hist] in Hc. apply andb_true_iff in Hc; destruct Hc as [H1 H2].
  cbn [fold_left]. apply IH; [apply step_wf; assumption | exact H2].
Qed.

Theorem no_dangling : forall h, clean_hist s0 h = true ->
  forall n e, In e (m_out (run h) n) \/ In e (m_in (run h) n) ->
    In (e_src e) (m_nodes (run h)) /\ In (e_dst e) (m_nodes (run h)).
Proof.
  intros h Hc n e [H | H].
  - apply (out_endpoints _ n); [apply clean_hist_wf; [exact wf_s0 | exact Hc] | exact H].
  - apply (in_endpoints _ n); [apply clean_hist_wf; [exact wf_s0 | exact Hc] | exact H].
Qed.

(* the hypothesis is met by a history with parallel edges, a self loop, deletions in LATER
   transactions, an abandoned transaction and a compaction *)
Example no_dangling_nonvacuous :
  let h := [HTxn [OGetLabel 0; OCreateNode 1 0; OCreateNode 2 0; OCreateNode 3 0; OGetLabel 10;
                  OCreateEdge (0, 1, 1); OCreateEdge (0, 1, 1); OCreateEdge (2, 1, 2); OCreateEdge (2, 1, 1)] true;
            HTxn [OTombNode 2] true; HTxn [OCreateEdge (1, 1, 0); OTombNode 0] false; HCompact;
            HTxn [OTombEdge (0, 1, 1); OCreateEdge (1, 1, 0)] true] in
  clean_hist s0 h = true /\ m_out (run h) 1 = [(1, 1, 0)] /\ m_nodes (run h) = [0; 1; 2].
Proof. cbv zeta; repeat split; vm_compute; reflexivity. Qed.
